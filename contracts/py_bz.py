"""BrillouinZone (phonopy/structure/brillouin_zone.py): coordinate changes between the reciprocal basis (columns of L) and its
reduced basis (rows of R).  3x3 numpy mini-model, exact rational identities.  Used by the Gonze-Lee dataset (C08) and by
GridPoints (C09) to move q-points into the first Brillouin zone by reciprocal lattice translations."""
import z3

from pvc import pyexec
from pvc.core import CheckerError
from pvc.pyexec import PyExec, PState, Record, NDArr, Opaque, Ref
from contracts.py_cells import mat3, vals

BF = "phonopy/structure/brillouin_zone.py"


def brillouin_zone(run):
    mod = pyexec.load(BF)
    pref = BF + ":BrillouinZone"
    st = PState()
    L = mat3(st, "L")
    Rm = mat3(st, "R")
    Lv, Rv = list(vals(st, L)), list(vals(st, Rm))
    hooks = {"get_reduced_bases": lambda ex, st_, a, k: Rm, "new:get_reduced_bases": lambda ex, st_, a, k: Rm,
             "numpy.sum": lambda ex, st_, a, k: Opaque("column norms"), "min": lambda ex, st_, a, k: z3.Real("min_norm")}
    self_ref = st.new(Record("BrillouinZone", {}))
    ex = PyExec(mod, run.sink, pref, hooks=hooks, opaque_unknown=True, split=True)
    n0 = len(run.sink.obls)
    m = mod.method("BrillouinZone", "__init__")
    outs = ex.call_function(st, m, [L], {"tolerance": z3.Real("tolerance")}, self_ref=self_ref, cls="BrillouinZone")
    rets = [o for o in outs if o[1] == "return"]
    if len(rets) != 1:
        raise CheckerError("BrillouinZone.__init__: %d returning paths" % len(rets))
    s1 = rets[0][0]
    rec = s1.heap[self_ref.id].attrs
    for nm in ("_tmat", "_tmat_inv", "_reduced_bases"):
        if not (isinstance(rec.get(nm), Ref) and isinstance(s1.heap[rec[nm].id], NDArr)):
            raise CheckerError("BrillouinZone.__init__: %s was abstracted" % nm)
    tm = [pyexec.num(x) for x in s1.heap[rec["_tmat"].id].flat]
    w = [z3.Real("w_%d" % i) for i in range(3)]
    # class invariant established by __init__: a vector with reduced coordinates w has reciprocal-basis coordinates w . tmat^T,
    # i.e. Cartesian  L (w tmat^T)^T  ==  (w R)^T
    out = [sum(w[k] * tm[c * 3 + k] for k in range(3)) for c in range(3)]          # (w . tmat^T)[c]
    for x in range(3):
        lhs = sum(Lv[x * 3 + c] * out[c] for c in range(3))
        rhs = sum(w[k] * Rv[k * 3 + x] for k in range(3))
        ob = run.sink.add(pref, "invariant", list(s1.pc), lhs == rhs,
                          meta={"label": "tmat: reduced coordinates w and w.tmat^T denote the same Cartesian vector (component %d)" % x})
        ob.backend = "poly"
        ob.replay = lambda model: replay_bz()
    # run(): the coordinates handed to np.rint are the reduced coordinates of the same Cartesian q-point
    cap = []

    def rint(ex_, st_, args, kwargs):
        cap.append((st_.clone(), args[0]))
        return Opaque("wrapped reduced q-points")
    ex2 = PyExec(mod, run.sink, pref + ".run", hooks=dict(hooks, **{"numpy.rint": rint}), opaque_unknown=True, split=True)
    q = s1.new(NDArr((1, 3), [z3.Real("q_%d" % i) for i in range(3)]))
    qv = list(s1.heap[q.id].flat)
    try:
        ex2.call_function(s1, mod.method("BrillouinZone", "run"), [q], self_ref=self_ref, cls="BrillouinZone")
    except CheckerError:
        pass          # the search over the 27 neighbours is outside the modelled subset; the conversion precedes it
    if not cap:
        raise CheckerError("BrillouinZone.run: the reduced coordinates are not wrapped with np.rint (has run() changed?)")
    s2, red = cap[0]
    if not (isinstance(red, Ref) and isinstance(s2.heap[red.id], NDArr)):
        raise CheckerError("BrillouinZone.run: reduced q-points were abstracted")
    rq = [pyexec.num(x) for x in s2.heap[red.id].flat]
    for x in range(3):
        lhs = sum(rq[k] * Rv[k * 3 + x] for k in range(3))                    # (q_red . R)[x]
        rhs = sum(Lv[x * 3 + c] * qv[c] for c in range(3))                    # (L q^T)[x]
        ob = run.sink.add(pref + ".run", "post", list(s2.pc), lhs == rhs,
                          meta={"label": "run: q in reduced coordinates is the same Cartesian vector as q in reciprocal coordinates (component %d)" % x})
        ob.backend = "poly"
        ob.replay = lambda model: replay_bz()
    run.functions.append({"file": BF, "function": "BrillouinZone.__init__/run", "line": m.lineno, "sha1": mod.sha(m) + mod.sha(mod.method("BrillouinZone", "run")),
                          "obligations": len(run.sink.obls) - n0})
    run.not_decided += ["BrillouinZone.run: the search over the 27 neighbouring reciprocal lattice points (np.where / min) and its tolerance"]


def replay_bz():
    from pvc import creplay
    import json
    code = r'''
import json
import numpy as np
from phonopy.structure.brillouin_zone import BrillouinZone
# body-centred tetragonal primitive cell with large c/a: Niggli reduction of the reciprocal basis is not a permutation
a, c = 3.8, 9.5
prim = np.array([[-a / 2, a / 2, c / 2], [a / 2, -a / 2, c / 2], [a / 2, a / 2, -c / 2]])
L = np.linalg.inv(prim)                      # reciprocal basis vectors as columns
bz = BrillouinZone(L)
rng = np.random.default_rng(0)
qs = rng.uniform(-0.5, 0.5, size=(20, 3))
bz.run(qs)
worst = 0.0
for q, outs in zip(qs, bz.shortest_qpoints):
    for o in outs:
        d = o - q
        worst = max(worst, float(np.abs(d - np.rint(d)).max()))
print(json.dumps({"max_distance_from_a_reciprocal_lattice_translation": worst}))
'''
    rc, out, err = creplay.py_eval(code)
    if rc != 0:
        return {"reproduced": False, "reason": err[-400:]}
    r = json.loads(out.strip().splitlines()[-1])
    return {"reproduced": r["max_distance_from_a_reciprocal_lattice_translation"] > 1e-8, "real_code": r,
            "input": "body-centred tetragonal primitive cell (c/a = 2.5), 20 random q-points",
            "expected": "every returned q-point differs from the given one by a reciprocal lattice vector"}
