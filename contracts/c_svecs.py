"""C05 — shortest-vector kernels of c/phonopy.c (phpy_set_smallest_vectors_dense / _sparse).

Spec, over the lattice points the caller passes (n = num_lattice_points):
  vec(i,j,k)   = pos_to[i] - pos_from[j] + lattice_points[k]
  LEN(i,j,k)   = sqrt(|reduced_basis . vec(i,j,k)|^2)
  tie(i,j,k)   = LEN(i,j,k) - min_k' LEN(i,j,k') < symprec
  cnt(i,j,k)   = #{k' < k : tie(i,j,k')}                       (RecSum)
  adrs(i,j)    = sum of cnt(.,.,n) over the pairs before (i,j)  (two RecSums: rows and pairs in a row)
  IMG(i,j,k,l) = sum_m trans_mat[l][m] * vec(i,j,k)[m]
dense, initialize != 0:  multiplicity[i][j] = (cnt(i,j,n), adrs(i,j)), nothing else changes
dense, initialize == 0:  for every tie (i,j,k): smallest_vectors[adrs(i,j) + cnt(i,j,k)] = IMG(i,j,k), rows from
                         adrs(num_pos_to, 0) on and the multiplicities are unchanged.
Since k -> cnt(i,j,k) is strictly increasing on the ties, the window [adrs, adrs + cnt(i,j,n)) of a pair holds every
tying image exactly once and nothing else (lemma `window`).

The minimum enters through a ghost arg-min function (a minimum of a finite non-empty set exists), constrained in the
precondition; the code's own `minimum` is proved equal to it."""
import z3

from pvc.cexec import MATH_FUNS
from pvc.core import Contract, LoopSpec
from pvc.spec import RecSum, step_monotone_lemma

F = "c/phonopy.c"
DBL_MAX = z3.Real("DBL_MAX")
KMIN = z3.Function("gsv_argmin", z3.IntSort(), z3.IntSort(), z3.IntSort())
LEN = z3.Function("gsv_len", z3.IntSort(), z3.IntSort(), z3.IntSort(), z3.RealSort())
IMG = z3.Function("gsv_img", z3.IntSort(), z3.IntSort(), z3.IntSort(), z3.IntSort(), z3.RealSort())
NSV = z3.Int("n_svecs_rows")
a_, b_, c_, l_, r_ = z3.Ints("a_ b_ c_ l_ r_")


class Spec:
    def __init__(self, V):
        self.V = V
        P = V.p
        self.npt, self.npf, self.n = P.num_pos_to, P.num_pos_from, P.num_lattice_points
        A = V.a
        self.pt, self.pf, self.lp, self.rb, self.tm = A.pos_to, A.pos_from, A.lattice_points, A.reduced_basis, A.trans_mat
        self.eps = P.symprec
        self.cnt = RecSum("gsv_cnt", [z3.IntSort(), z3.IntSort()], lambda i, j, k: z3.If(self.tie(i, j, k), 1, 0), sort=z3.IntSort())
        self.row = RecSum("gsv_row", [z3.IntSort()], lambda i, j: self.cnt(i, j, self.n), sort=z3.IntSort())
        self.tot = RecSum("gsv_tot", [], lambda i: self.row(i, self.npf), sort=z3.IntSort())

    def vec(self, i, j, k, l):
        return self.pt[i, l] - self.pf[j, l] + z3.ToReal(self.lp[k, l])

    def len_def(self, i, j, k):
        s = z3.RealVal(0)
        for l in range(3):
            t = self.rb[l, 0] * self.vec(i, j, k, 0) + self.rb[l, 1] * self.vec(i, j, k, 1) + self.rb[l, 2] * self.vec(i, j, k, 2)
            s = s + t * t
        return MATH_FUNS["sqrt"](s)

    def img_def(self, i, j, k, l):
        return (z3.ToReal(self.tm[l, 0]) * self.vec(i, j, k, 0) + z3.ToReal(self.tm[l, 1]) * self.vec(i, j, k, 1)
                + z3.ToReal(self.tm[l, 2]) * self.vec(i, j, k, 2))

    def gmin(self, i, j):
        return LEN(i, j, KMIN(i, j))

    def tie(self, i, j, k):
        return LEN(i, j, k) - self.gmin(i, j) < self.eps

    def adrs(self, i, j):
        return self.tot(i) + self.row(i, j)

    def pair(self, i, j):
        return z3.And(i >= 0, i < self.npt, j >= 0, j < self.npf)

    def defs(self):
        """definitional axioms of LEN and IMG (explicit definitions: conservative)"""
        return [z3.ForAll([a_, b_, c_], LEN(a_, b_, c_) == self.len_def(a_, b_, c_), patterns=[LEN(a_, b_, c_)]),
                z3.ForAll([a_, b_, c_, l_], IMG(a_, b_, c_, l_) == self.img_def(a_, b_, c_, l_), patterns=[IMG(a_, b_, c_, l_)])]

    def argmin_pre(self):
        return [("argmin", z3.ForAll([a_, b_], z3.Implies(self.pair(a_, b_), z3.And(KMIN(a_, b_) >= 0, KMIN(a_, b_) < self.n)),
                                     patterns=[KMIN(a_, b_)])),
                ("argmin-least", z3.ForAll([a_, b_, c_], z3.Implies(z3.And(self.pair(a_, b_), c_ >= 0, c_ < self.n),
                                                                    self.gmin(a_, b_) <= LEN(a_, b_, c_)), patterns=[LEN(a_, b_, c_)])),
                ("finite", z3.ForAll([a_, b_, c_], LEN(a_, b_, c_) < DBL_MAX, patterns=[LEN(a_, b_, c_)]))]


def _lattice_points():
    import numpy as np
    l4 = [[i, j, k, m] for i in (-1, 0, 1) for j in (-1, 0, 1) for k in (-1, 0, 1) for m in (-1, 0, 1)]
    return np.unique(np.dot(np.array(l4), [[1, 0, 0], [0, 1, 0], [0, 0, 1], [-1, -1, -1]]), axis=0)      # the 65 points of cells.py


def _gen(kind):
    def gen(rnd):
        import numpy as np
        npt, npf = rnd.randint(1, 3), rnd.randint(1, 2)
        lp = _lattice_points()
        if rnd.random() < 0.3:
            lp = lp[:rnd.randint(1, 30)]
        hi = rnd.random() < 0.5
        # half of the draws sit on high-symmetry positions (many exact ties), the other half are generic
        def pos(m):
            return np.array([[rnd.choice([0.0, 0.5, 0.25, -0.5, -0.25, 0.125]) if hi else rnd.uniform(-0.5, 0.5) for _ in range(3)] for _ in range(m)])
        rb = np.eye(3) * rnd.choice([1.0, 2.5]) if hi else np.array([[rnd.uniform(-2, 2) for _ in range(3)] for _ in range(3)])
        if hi and rnd.random() < 0.5:
            # strongly sheared but reduced cells: fcc / bcc / rhombohedral primitive vectors as columns (many-fold ties
            # between images that are not related by a single lattice step)
            a_ = rnd.choice([2.0, 3.0])
            rb = rnd.choice([np.array([[0, a_, a_], [a_, 0, a_], [a_, a_, 0]]) / 2.0,
                             np.array([[-a_, a_, a_], [a_, -a_, a_], [a_, a_, -a_]]) / 2.0,
                             np.array([[a_, 0.4 * a_, 0.4 * a_], [0.4 * a_, a_, 0.4 * a_], [0.4 * a_, 0.4 * a_, a_]])]).T
        tm = np.array([[rnd.randint(-2, 2) for _ in range(3)] for _ in range(3)])
        d = {"pos_to": pos(npt), "num_pos_to": npt, "pos_from": pos(npf), "num_pos_from": npf, "lattice_points": lp,
             "num_lattice_points": len(lp), "reduced_basis": rb, "trans_mat": tm,
             "symprec": rnd.choice([1e-5, 1e-5, 0.3, 50.0]) if kind == "sparse-safety" else rnd.choice([1e-5, 1e-3, 0.3]), "DBL_MAX": 1.7976931348623157e308}
        if kind.startswith("sparse"):
            d["smallest_vectors"] = np.full((npt, npf, 27, 3), 7.0)
            d["multiplicity"] = np.full((npt, npf), -1)
        else:
            init = rnd.randint(0, 1)
            d["initialize"] = init
            # phase 2 is called with the table sized by phase 1 (as cells.py does); extra rows test the frame
            cnt = _numpy_counts(d)
            tot = int(cnt.sum())
            extra = rnd.randint(0, 2)
            d["n_svecs_rows"] = max(1, tot + extra) if not init else 1
            d["smallest_vectors"] = np.full((d["n_svecs_rows"], 3), 7.0)
            m = np.full((npt, npf, 2), -1)
            if not init:
                m[:, :, 0] = cnt
                m[:, :, 1] = np.concatenate([[0], np.cumsum(cnt.ravel())[:-1]]).reshape(npt, npf)
            d["multiplicity"] = m
        return d
    return gen


def _numpy_len(d):
    import numpy as np
    v = d["pos_to"][:, None, None, :] - d["pos_from"][None, :, None, :] + d["lattice_points"][None, None, :, :]
    return np.sqrt((np.einsum("lm,ijkm->ijkl", d["reduced_basis"], v) ** 2).sum(axis=3)), v


def _numpy_counts(d):
    L, _ = _numpy_len(d)
    return ((L - L.min(axis=2, keepdims=True)) < d["symprec"]).sum(axis=2)


def _replay_py(kind):
    """numpy transcription of the spec (replay only): compares what the real kernel returned with the spec"""
    def check(env):
        import numpy as np
        L, v = _numpy_len(env)
        img = np.einsum("lm,ijkm->ijkl", env["trans_mat"], v)
        tie = (L - L.min(axis=2, keepdims=True)) < env["symprec"]
        cnt = tie.sum(axis=2)
        npt, npf, n = L.shape
        sv0, sv1 = env["smallest_vectors"], env["smallest_vectors__post"]
        m0, m1 = env["multiplicity"], env["multiplicity__post"]
        bad = set()
        if kind == "dense":
            adrs = np.concatenate([[0], np.cumsum(cnt.ravel())[:-1]]).reshape(npt, npf)
            if env["initialize"]:
                if not (np.array_equal(m1[:, :, 0], cnt) and np.array_equal(m1[:, :, 1], adrs)):
                    bad.add("mult")
                if not np.array_equal(sv0, sv1):
                    bad.add("sv-frame")
                return sorted(bad)
            if not np.array_equal(m0, m1):
                bad.add("mult")
            tot = int(cnt.sum())
            if not np.array_equal(sv0[tot:], sv1[tot:]):
                bad.add("sv-frame")
            for i in range(npt):
                for j in range(npf):
                    rows = img[i, j][tie[i, j]]
                    got = sv1[adrs[i, j]:adrs[i, j] + cnt[i, j]]
                    for l in range(3):
                        if got.shape != rows.shape or not np.allclose(got[:, l], rows[:, l], rtol=1e-12, atol=1e-12):
                            bad.add("sv[%d]" % l)
            return sorted(bad)
        if cnt.max() > 27:
            return []
        if not np.array_equal(m1, cnt):
            bad.add("mult")
        for i in range(npt):
            for j in range(npf):
                rows = img[i, j][tie[i, j]]
                for l in range(3):
                    if not np.allclose(sv1[i, j, :cnt[i, j], l], rows[:, l], rtol=1e-12, atol=1e-12):
                        bad.add("sv[%d]" % l)
                if not np.array_equal(sv1[i, j, cnt[i, j]:], sv0[i, j, cnt[i, j]:]):
                    bad.add("sv-frame")
        return sorted(bad)
    return check


def _pre_py(kind):
    def pre(env):
        import numpy as np
        if env["num_lattice_points"] < 1 or env["num_pos_to"] < 0 or env["num_pos_from"] < 0:
            return False
        L, _ = _numpy_len(env)
        if not np.all(np.isfinite(L)):
            return False
        cnt = _numpy_counts(env)
        if kind == "sparse":
            return cnt.size == 0 or cnt.max() <= 27
        if kind == "dense":
            return env["n_svecs_rows"] >= 1 and (env["initialize"] != 0 or env["n_svecs_rows"] >= cnt.sum())
        return True
    return pre


def _interp(h, ev, env):
    import numpy as np
    from pvc.ceval import recsum_callable
    L, v = _numpy_len(env)
    img = np.einsum("lm,ijkm->ijkl", env["trans_mat"], v)
    npt, npf, n = L.shape

    def inr(i, j, k=0, l=0):
        return 0 <= i < npt and 0 <= j < npf and 0 <= k < n and 0 <= l < 3
    out = {"gsv_len": lambda i, j, k: float(L[i, j, k]) if inr(i, j, k) else 0.0,
           "gsv_img": lambda i, j, k, l: float(img[i, j, k, l]) if inr(i, j, k, l) else 0.0,
           "gsv_argmin": lambda i, j: int(np.argmin(L[i, j])) if inr(i, j) else 0}
    ev.funcs.update(out)

    class V_:
        pass
    from pvc.cexec import NS
    S = Spec(NS({"p": h.P, "a": h.Vpre.a}))
    for rs in (S.cnt, S.row, S.tot):
        out[rs.key] = recsum_callable(ev, rs)
    return out


def _lemmas(sink, prefix, S):
    """monotonicity facts of the three counting sums (step obligations emitted, conclusions returned)"""
    rng = [S.n >= 1, S.npf >= 0, S.npt >= 0]
    f1 = step_monotone_lemma(sink, prefix, S.cnt)
    f2 = step_monotone_lemma(sink, prefix, S.row, hyps=f1 + rng)
    f3 = step_monotone_lemma(sink, prefix, S.tot, hyps=f1 + f2 + rng)
    return f1 + f2 + f3


def dense_contract(run_sink):
    SH = {"smallest_vectors": lambda P: [NSV, 3], "multiplicity": lambda P: [P.num_pos_to, P.num_pos_from, 2],
          "pos_to": lambda P: [P.num_pos_to, 3], "pos_from": lambda P: [P.num_pos_from, 3],
          "lattice_points": lambda P: [P.num_lattice_points, 3], "reduced_basis": lambda P: [3, 3], "trans_mat": lambda P: [3, 3]}
    LEM = {}

    def req(V):
        S = Spec(V)
        return [S.npt >= 0, S.npf >= 0, S.n >= 1, NSV >= 1,
                z3.Implies(V.p.initialize == 0, NSV >= S.tot(S.npt))] + S.argmin_pre()

    def facts(V):
        S = Spec(V)
        return S.defs() + _lemmas(run_sink, F + ":phpy_set_smallest_vectors_dense", S)

    def mult_state(V, S, done):
        """multiplicity: filled for the pairs in `done`, old elsewhere (initialize != 0); untouched (initialize == 0)"""
        m, old = V.a.multiplicity, V.old.a.multiplicity
        init = V.p.initialize != 0
        return [("mult", z3.ForAll([a_, b_], z3.Implies(S.pair(a_, b_), z3.And(
            m[a_, b_, 0] == z3.If(z3.And(init, done(a_, b_)), S.cnt(a_, b_, S.n), old[a_, b_, 0]),
            m[a_, b_, 1] == z3.If(z3.And(init, done(a_, b_)), S.adrs(a_, b_), old[a_, b_, 1])))))]

    def sv_state(V, S, done, top):
        """smallest_vectors: every tying image of the triples in `done` is in its slot; rows from `top` on are old"""
        sv, old = V.a.smallest_vectors, V.old.a.smallest_vectors
        fill = V.p.initialize == 0
        out = []
        for l in range(3):
            out.append(("sv[%d]" % l, z3.ForAll([a_, b_, c_], z3.Implies(
                z3.And(fill, S.pair(a_, b_), c_ >= 0, c_ < S.n, done(a_, b_, c_), S.tie(a_, b_, c_)),
                sv[S.adrs(a_, b_) + S.cnt(a_, b_, c_), l] == IMG(a_, b_, c_, l)), patterns=[LEN(a_, b_, c_)])))
        out.append(("below", z3.ForAll([a_, b_, c_], z3.Implies(
            z3.And(S.pair(a_, b_), c_ >= 0, c_ < S.n, done(a_, b_, c_), S.tie(a_, b_, c_)),
            z3.And(S.adrs(a_, b_) + S.cnt(a_, b_, c_) < top, S.adrs(a_, b_) + S.cnt(a_, b_, c_) >= 0)), patterns=[LEN(a_, b_, c_)])))
        out.append(("sv-frame", z3.ForAll([r_, l_], z3.Implies(
            z3.And(r_ >= 0, r_ < NSV, l_ >= 0, l_ < 3, z3.Or(z3.Not(fill), r_ >= top)), sv[r_, l_] == old[r_, l_]))))
        return out

    def inv_i(V):
        S = Spec(V)
        i = V.v.i
        return ([("range", z3.And(i >= 0, i <= S.npt)), ("adrs", V.v.adrs == S.tot(i))]
                + mult_state(V, S, lambda a, b: a < i) + sv_state(V, S, lambda a, b, c: a < i, V.v.adrs))

    def inv_j(V):
        S = Spec(V)
        i, j = V.v.i, V.v.j
        before = lambda a, b: z3.Or(a < i, z3.And(a == i, b < j))      # noqa: E731
        return ([("range", z3.And(i >= 0, i < S.npt, j >= 0, j <= S.npf)), ("adrs", V.v.adrs == S.adrs(i, j))]
                + mult_state(V, S, before) + sv_state(V, S, lambda a, b, c: before(a, b), V.v.adrs))

    def inv_k_len(V):
        S = Spec(V)
        i, j, k = V.v.i, V.v.j, V.v.k
        out = [("range", z3.And(k >= 0, k <= S.n)),
               ("length", z3.ForAll([c_], z3.Implies(z3.And(c_ >= 0, c_ < k), V.a.length[c_] == LEN(i, j, c_))))]
        for l in range(3):
            out.append(("vec[%d]" % l, z3.ForAll([c_], z3.Implies(z3.And(c_ >= 0, c_ < k), V.a.vec[c_, l] == S.vec(i, j, c_, l)))))
        return out

    def inv_k_min(V):
        S = Spec(V)
        i, j, k = V.v.i, V.v.j, V.v.k
        return [("range", z3.And(k >= 0, k <= S.n)),
                ("lower", z3.ForAll([c_], z3.Implies(z3.And(c_ >= 0, c_ < k), V.v.minimum <= LEN(i, j, c_)))),
                ("upper", V.v.minimum >= S.gmin(i, j))]

    def inv_k_cnt(V):
        S = Spec(V)
        i, j, k = V.v.i, V.v.j, V.v.k
        before = lambda a, b, c: z3.Or(a < i, z3.And(a == i, b < j), z3.And(a == i, b == j, c < k))      # noqa: E731
        return ([("range", z3.And(k >= 0, k <= S.n)), ("count", V.v.count == S.cnt(i, j, k))]
                + sv_state(V, S, before, V.v.adrs + V.v.count))

    def unf_cnt(V):
        S = Spec(V)
        i, j, k = V.v.i, V.v.j, V.v.k
        return [S.cnt.unfold(i, j, k), S.cnt.unfold(i, j, k - 1), S.cnt.zero(i, j)]

    def unf_row(V):
        S = Spec(V)
        i, j = V.v.i, V.v.j
        return [S.row.unfold(i, j), S.row.unfold(i, j - 1), S.row.zero(i)]

    def unf_tot(V):
        S = Spec(V)
        i = V.v.i
        return [S.tot.unfold(i), S.tot.unfold(i - 1), S.tot.zero(), S.row.zero(i), S.row.zero(i - 1)]

    def ens(V):
        S = Spec(V)
        return (mult_state(V, S, lambda a, b: z3.BoolVal(True)) + sv_state(V, S, lambda a, b, c: z3.BoolVal(True), S.tot(S.npt)))

    return Contract(F, "phpy_set_smallest_vectors_dense", shapes=SH, macros={"DBL_MAX": DBL_MAX},
                    local_shapes={"length": lambda V: [V.p.num_lattice_points], "vec": lambda V: [V.p.num_lattice_points, 3]},
                    requires=req, ensures=ens, modifies=("smallest_vectors", "multiplicity"), facts=facts,
                    loops={0: LoopSpec(inv_i, unfold=unf_tot), 1: LoopSpec(inv_j, unfold=lambda V: unf_row(V) + unf_tot(V)),
                           2: LoopSpec(inv_k_len), 5: LoopSpec(inv_k_min),
                           6: LoopSpec(inv_k_cnt, unfold=lambda V: unf_cnt(V) + unf_row(V))},
                    abstract_mul=True, gen=_gen("dense"), interp=_interp, replay_py=_replay_py("dense"), pre_py=_pre_py("dense"))


def sparse_contract(run_sink, tie_bound=True):
    """phpy_set_smallest_vectors_sparse.  With tie_bound the caller promises at most 27 ties per pair (functional
    contract: multiplicity and the 27-slot windows hold the ties); without it only memory safety is asked for (C13):
    the Python layer passes any symprec, so no bound on the number of ties can be assumed there."""
    SH = {"smallest_vectors": lambda P: [P.num_pos_to, P.num_pos_from, 27, 3], "multiplicity": lambda P: [P.num_pos_to, P.num_pos_from],
          "pos_to": lambda P: [P.num_pos_to, 3], "pos_from": lambda P: [P.num_pos_from, 3],
          "lattice_points": lambda P: [P.num_lattice_points, 3], "reduced_basis": lambda P: [3, 3], "trans_mat": lambda P: [3, 3]}
    tag = "" if tie_bound else "[safety]"
    pref = F + ":phpy_set_smallest_vectors_sparse" + tag

    def req(V):
        S = Spec(V)
        out = [S.npt >= 0, S.npf >= 0, S.n >= 1]
        if tie_bound:
            out += S.argmin_pre()
            out.append(("at-most-27-ties", z3.ForAll([a_, b_], z3.Implies(S.pair(a_, b_), S.cnt(a_, b_, S.n) <= 27))))
        return out

    def facts(V):
        S = Spec(V)
        rng = [S.n >= 1, S.npf >= 0, S.npt >= 0]
        return S.defs() + step_monotone_lemma(run_sink, pref, S.cnt, hyps=rng)

    def state(V, S, done_pair, done):
        sv, old = V.a.smallest_vectors, V.old.a.smallest_vectors
        m, oldm = V.a.multiplicity, V.old.a.multiplicity
        out = [("mult", z3.ForAll([a_, b_], z3.Implies(S.pair(a_, b_), m[a_, b_] == z3.If(done_pair(a_, b_), S.cnt(a_, b_, S.n), oldm[a_, b_]))))]
        for l in range(3):
            out.append(("sv[%d]" % l, z3.ForAll([a_, b_, c_], z3.Implies(
                z3.And(S.pair(a_, b_), c_ >= 0, c_ < S.n, done(a_, b_, c_), S.tie(a_, b_, c_)),
                sv[a_, b_, S.cnt(a_, b_, c_), l] == IMG(a_, b_, c_, l)), patterns=[LEN(a_, b_, c_)])))
        return out

    def frame(V, S, top):
        """slots from top(a,b) on are untouched"""
        sv, old = V.a.smallest_vectors, V.old.a.smallest_vectors
        return [("sv-frame", z3.ForAll([a_, b_, r_, l_], z3.Implies(
            z3.And(S.pair(a_, b_), r_ >= 0, r_ < 27, l_ >= 0, l_ < 3, r_ >= top(a_, b_)), sv[a_, b_, r_, l_] == old[a_, b_, r_, l_])))]

    def inv_i(V):
        S = Spec(V)
        i = V.v.i
        out = [("range", z3.And(i >= 0, i <= S.npt))]
        if tie_bound:
            out += state(V, S, lambda a, b: a < i, lambda a, b, c: a < i) + frame(V, S, lambda a, b: z3.If(a < i, S.cnt(a, b, S.n), 0))
        return out

    def inv_j(V):
        S = Spec(V)
        i, j = V.v.i, V.v.j
        before = lambda a, b: z3.Or(a < i, z3.And(a == i, b < j))      # noqa: E731
        out = [("range", z3.And(i >= 0, i < S.npt, j >= 0, j <= S.npf))]
        if tie_bound:
            out += state(V, S, before, lambda a, b, c: before(a, b)) + frame(V, S, lambda a, b: z3.If(before(a, b), S.cnt(a, b, S.n), 0))
        return out

    def inv_k_len(V):
        S = Spec(V)
        i, j, k = V.v.i, V.v.j, V.v.k
        out = [("range", z3.And(k >= 0, k <= S.n))]
        if tie_bound:
            out.append(("length", z3.ForAll([c_], z3.Implies(z3.And(c_ >= 0, c_ < k), V.a.length[c_] == LEN(i, j, c_)))))
            for l in range(3):
                out.append(("vec[%d]" % l, z3.ForAll([c_], z3.Implies(z3.And(c_ >= 0, c_ < k), V.a.vec[c_, l] == S.vec(i, j, c_, l)))))
        return out

    def inv_k_min(V):
        S = Spec(V)
        i, j, k = V.v.i, V.v.j, V.v.k
        out = [("range", z3.And(k >= 0, k <= S.n))]
        if tie_bound:
            out += [("lower", z3.ForAll([c_], z3.Implies(z3.And(c_ >= 0, c_ < k), V.v.minimum <= LEN(i, j, c_)))),
                    ("upper", V.v.minimum >= S.gmin(i, j))]
        return out

    def inv_k_cnt(V):
        S = Spec(V)
        i, j, k = V.v.i, V.v.j, V.v.k
        beforep = lambda a, b: z3.Or(a < i, z3.And(a == i, b < j))      # noqa: E731
        before = lambda a, b, c: z3.Or(beforep(a, b), z3.And(a == i, b == j, c < k))      # noqa: E731
        out = [("range", z3.And(k >= 0, k <= S.n)), ("count-nonneg", V.v.count >= 0)]
        if tie_bound:
            out += [("count", V.v.count == S.cnt(i, j, k)),
                    # earlier ties of this pair sit strictly below the next free slot (keeps the store reasoning local)
                    ("below", z3.ForAll([c_], z3.Implies(z3.And(c_ >= 0, c_ < k, S.tie(i, j, c_)),
                                                         z3.And(S.cnt(i, j, c_) < V.v.count, S.cnt(i, j, c_) >= 0)), patterns=[LEN(i, j, c_)]))]
            out += state(V, S, beforep, before) + frame(
                V, S, lambda a, b: z3.If(beforep(a, b), S.cnt(a, b, S.n), z3.If(z3.And(a == i, b == j), V.v.count, 0)))
        return out

    def unf_cnt(V):
        S = Spec(V)
        i, j, k = V.v.i, V.v.j, V.v.k
        return [S.cnt.unfold(i, j, k), S.cnt.unfold(i, j, k - 1), S.cnt.zero(i, j)]

    def ens(V):
        S = Spec(V)
        if not tie_bound:
            return []
        T = lambda a, b: z3.BoolVal(True)      # noqa: E731
        return state(V, S, T, lambda a, b, c: z3.BoolVal(True)) + frame(V, S, lambda a, b: S.cnt(a, b, S.n))

    return Contract(F, "phpy_set_smallest_vectors_sparse", tag=tag, shapes=SH, macros={"DBL_MAX": DBL_MAX},
                    local_shapes={"length": lambda V: [V.p.num_lattice_points], "vec": lambda V: [V.p.num_lattice_points, 3]},
                    requires=req, ensures=ens, modifies=("smallest_vectors", "multiplicity"), facts=facts,
                    loops={0: LoopSpec(inv_i), 1: LoopSpec(inv_j), 2: LoopSpec(inv_k_len), 5: LoopSpec(inv_k_min),
                           6: LoopSpec(inv_k_cnt, unfold=unf_cnt)},
                    abstract_mul=True, gen=_gen("sparse" if tie_bound else "sparse-safety"), interp=_interp,
                    replay_py=_replay_py("sparse") if tie_bound else None, pre_py=_pre_py("sparse" if tie_bound else "safety"))
