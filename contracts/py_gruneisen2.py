"""C12 — Grueneisen parameters: the finite-difference ingredients of gamma = -(V0 / 2 w^2) <e| dD/dV |e> with
dD/dV ~ (D+ - D-) / (V+ - V-)   (phonopy/gruneisen/core.py; the code divides <e|D+ - D-|e> by `delta_strain`)."""
import z3

from pvc import pyexec
from pvc.core import CheckerError
from pvc.pyexec import PyExec, PState, Record, Opaque, Hooked, Ref

GF = "phonopy/gruneisen/core.py"


def strain_and_difference(run):
    """GruneisenBase.__init__: without an explicit delta_strain the stored strain is (V+ - V-) / V0 with V0 the volume of the
    CENTRAL cell (so that <e|D+ - D-|e> / delta_strain == V0 <e|dD/dV|e>); an explicit value is stored unchanged.
    GruneisenBase._get_dD(q, d_a, d_b) == D_b(q) - D_a(q) element by element, both evaluated at the q-point given, and
    _set_gruneisen asks for it with (d_a, d_b) = (minus, plus)."""
    mod = pyexec.load(GF)
    m = mod.method("GruneisenBase", "__init__")
    pref = GF + ":GruneisenBase.__init__"
    V0, Vp, Vm, DS = z3.Real("V0"), z3.Real("V_plus"), z3.Real("V_minus"), z3.Real("delta_strain_given")
    n0 = len(run.sink.obls)
    for given in (False, True):
        ex = PyExec(mod, run.sink, pref + ("[delta_strain given]" if given else "[default strain]"), opaque_unknown=True, split=True)
        st = PState()
        st.pc += [V0 > 0, Vp > 0, Vm > 0]

        def dm(v):
            return st.new(Record("DynamicalMatrix", {"primitive": st.new(Record("Primitive", {"volume": v}))}))
        self_ref = st.new(Record("GruneisenBase", {}))
        outs = ex.call_function(st, m, [dm(V0), dm(Vp), dm(Vm)], {"delta_strain": DS if given else None, "qpoints": None},
                                self_ref=self_ref, cls="GruneisenBase")
        if not outs:
            raise CheckerError("GruneisenBase.__init__: no path")
        for (s2, fl, v) in outs:
            got = s2.heap[self_ref.id].attrs.get("_delta_strain")
            want = DS if given else (Vp - Vm) / V0
            goal = (pyexec.num(got) == want) if (z3.is_expr(got) or isinstance(got, (int, float))) else z3.BoolVal(False)
            ob = run.sink.add(ex.prefix if hasattr(ex, "prefix") else pref, "post", list(s2.pc), goal,
                              meta={"label": "delta_strain == " + ("the value given" if given else "(V+ - V-) / V0, V0 = volume of the central cell")})
            ob.replay = replay_strain
    run.functions.append({"file": GF, "function": "GruneisenBase.__init__", "line": m.lineno, "sha1": mod.sha(m), "obligations": len(run.sink.obls) - n0})

    # _get_dD on a generic matrix element
    m = mod.method("GruneisenBase", "_get_dD")
    pref = GF + ":GruneisenBase._get_dD"
    n0 = len(run.sink.obls)
    ex = PyExec(mod, run.sink, pref, opaque_unknown=True, split=True)
    st = PState()
    Q = Opaque("q")
    ran = {}

    def mk(name):
        ref = [None]

        def runq(ex_, st_, a, k):
            ran.setdefault(name, []).append((list(a), dict(k)))
            return None
        ref[0] = st.new(Record("DynamicalMatrix", {"run": Hooked(runq), "dynamical_matrix": z3.Real("D_%s_ij" % name)}))
        return ref[0]
    da, db = mk("a"), mk("b")
    self_ref = st.new(Record("GruneisenBase", {"_is_band_connection": False, "_q_direction": None}))
    outs = ex.call_function(st, m, [Q, da, db], self_ref=self_ref, cls="GruneisenBase")
    rets = [(s2, v) for (s2, fl, v) in outs if fl == "return"]
    if not rets:
        raise CheckerError("_get_dD: no returning path")
    for (s2, v) in rets:
        goal = (pyexec.num(v) == z3.Real("D_b_ij") - z3.Real("D_a_ij")) if z3.is_expr(v) else z3.BoolVal(False)
        run.sink.add(pref, "post", list(s2.pc), goal, meta={"label": "_get_dD(q, d_a, d_b) == D_b - D_a (generic element)"})
        for nm in ("a", "b"):
            c = ran.get(nm, [])
            run.sink.add(pref, "call-pre", list(s2.pc), z3.BoolVal(len(c) == 1 and len(c[0][0]) >= 1 and c[0][0][0] is Q),
                         meta={"label": "d_%s is evaluated (once) at the q-point given" % nm})
    run.functions.append({"file": GF, "function": "GruneisenBase._get_dD", "line": m.lineno, "sha1": mod.sha(m), "obligations": len(run.sink.obls) - n0})

    # _set_gruneisen: difference taken as plus - minus
    m = mod.method("GruneisenBase", "_set_gruneisen")
    pref = GF + ":GruneisenBase._set_gruneisen[difference]"
    calls = []
    DMm, DMp = Opaque("dm-"), Opaque("dm+")

    def getdd(ex_, st_, a, k):
        calls.append(list(a))
        return Opaque("dD")
    hooks = {"numpy.linalg.eigh": lambda ex_, st_, a, k: (Opaque("evals"), Opaque("evecs")),
             "new:rotate_eigenvectors": lambda ex_, st_, a, k: (Opaque("evecs_at_q"), Opaque("edDe_at_q")),
             "GruneisenBase._get_dD": getdd}
    ex = PyExec(mod, run.sink, pref, hooks=hooks, opaque_unknown=True, split=True)
    st = PState()
    self_ref = st.new(Record("GruneisenBase", {"_is_band_connection": False, "_qpoints": Opaque("qpoints"), "_dynmat": Opaque("dynmat"),
                                               "_dynmat_minus": DMm, "_dynmat_plus": DMp, "_delta_strain": z3.Real("delta_strain"),
                                               "_q_direction": None, "_eigenvalues": None, "_eigenvectors": None, "_gruneisen": None}))
    n0 = len(run.sink.obls)
    outs = ex.call_function(st, m, [], self_ref=self_ref, cls="GruneisenBase")
    ok = bool(calls) and all(len(c) == 3 and c[1] is DMm and c[2] is DMp for c in calls)
    run.sink.add(pref, "call-pre", [], z3.BoolVal(ok), meta={"label": "dD is requested as _get_dD(q, minus, plus), i.e. D+ - D- (matching delta_strain = (V+ - V-)/V0)"})
    run.functions.append({"file": GF, "function": "GruneisenBase._set_gruneisen[difference]", "line": m.lineno, "sha1": mod.sha(m),
                          "obligations": len(run.sink.obls) - n0})


def replay_strain(model):
    import json
    from pvc import creplay
    code = r'''
import json
from phonopy.gruneisen.core import GruneisenBase
class P:
    def __init__(s, v): s.volume = v
class D:
    def __init__(s, v): s.primitive = P(v)
g = GruneisenBase(D(100.0), D(108.0), D(97.0))
print(json.dumps({"delta_strain": g._delta_strain, "expected": (108.0 - 97.0) / 100.0}))
'''
    rc, out, err = creplay.py_eval(code)
    if rc != 0:
        return {"reproduced": False, "reason": err[-400:]}
    r = json.loads(out.strip().splitlines()[-1])
    return {"reproduced": abs(r["delta_strain"] - r["expected"]) > 1e-12, "input": {"V0": 100.0, "V+": 108.0, "V-": 97.0}, "real_code": r,
            "expected": "delta_strain == (V+ - V-) / V0"}
