"""C11 — smearing densities of states (phonopy/phonon/dos.py): the total DOS at a frequency is the weighted mesh sum of the
smearing kernel, the kernels are non-negative and integrate to one (so the DOS is non-negative and integrates to the number of
bands), and the projected DOS uses the same kernel and normalisation with the weights |e|^2 (which sum to one per mode), so
the projections add up to the total."""
import sympy as sp
import z3

from pvc import pyexec, cas
from pvc.core import CheckerError
from pvc.pyexec import PyExec, PState, Record, NDArr, Hooked, Ref, Opaque

PF_ = "phonopy/phonon/dos.py"
G = z3.Function("smearing_kernel", z3.RealSort(), z3.RealSort())


def _calc_hook(ex, st, args, kwargs):
    a = args[0]
    if isinstance(a, Ref) and isinstance(st.heap[a.id], NDArr):
        o = st.heap[a.id]
        return st.new(NDArr(o.shape, [G(pyexec.num(v)) for v in o.flat]))
    return G(pyexec.num(a))


def total_dos_at_freq(run):
    """TotalDos._get_density_of_states_at_freq(f) on a generic 2 q-point x 2 band mesh (numpy's vectorised operations treat
    the elements uniformly; the instance has distinct weights and frequencies, an uninterpreted kernel):
        == sum_q w_q sum_b g(w_qb - f) / sum_q w_q."""
    mod = pyexec.load(PF_)
    m = mod.method("TotalDos", "_get_density_of_states_at_freq")
    if m is None:
        raise CheckerError("TotalDos._get_density_of_states_at_freq not found")
    pref = PF_ + ":TotalDos._get_density_of_states_at_freq"
    ex = PyExec(mod, run.sink, pref, opaque_unknown=False, split=True)
    st = PState()
    w = [z3.Real("w_%d" % i) for i in range(2)]
    fr = [z3.Real("f_%d%d" % (i, j)) for i in range(2) for j in range(2)]
    f = z3.Real("f")
    st.pc += [w[0] > 0, w[1] > 0]
    sm = st.new(Record("Smearing", {"calc": Hooked(_calc_hook)}))
    self_ref = st.new(Record("TotalDos", {"_weights": st.new(NDArr((2,), w)), "_frequencies": st.new(NDArr((2, 2), fr)), "_smearing_function": sm}))
    n0 = len(run.sink.obls)
    outs = ex.call_function(st, m, [f], self_ref=self_ref, cls="TotalDos")
    rets = [(s2, v) for (s2, fl, v) in outs if fl == "return"]
    if not rets:
        raise CheckerError("_get_density_of_states_at_freq: no returning path")
    want = (w[0] * (G(fr[0] - f) + G(fr[1] - f)) + w[1] * (G(fr[2] - f) + G(fr[3] - f))) / (w[0] + w[1])
    for (s2, v) in rets:
        ob = run.sink.add(pref, "post", list(s2.pc), pyexec.num(v) == want, meta={"label": "DOS(f) == sum_q w_q sum_b g(w_qb - f) / sum_q w_q"})
        ob.replay = replay_smearing
    run.functions.append({"file": PF_, "function": "TotalDos._get_density_of_states_at_freq", "line": m.lineno, "sha1": mod.sha(m),
                          "obligations": len(run.sink.obls) - n0})
    # TotalDos.run (smearing branch) evaluates it at every frequency point
    m = mod.method("TotalDos", "run")
    pref = PF_ + ":TotalDos.run[smearing]"
    seen = []

    def at(ex_, st_, a, k):
        seen.append(a[0] if a else None)
        return z3.Real("dos_at!%d" % len(seen))
    ex = PyExec(mod, run.sink, pref, hooks={"TotalDos._get_density_of_states_at_freq": at}, opaque_unknown=True, split=True)
    st = PState()
    fp = [z3.Real("fp_%d" % i) for i in range(2)]
    self_ref = st.new(Record("TotalDos", {"_tetrahedron_mesh": None, "_frequency_points": st.new(NDArr((2,), fp)), "_dos": None}))
    n0 = len(run.sink.obls)
    outs = ex.call_function(st, m, [], self_ref=self_ref, cls="TotalDos")
    for (s2, fl, v) in outs:
        d = s2.heap[self_ref.id].attrs.get("_dos")
        ok = len(seen) == 2 and all(z3.is_expr(a) and a.eq(b) for a, b in zip(seen, fp)) and isinstance(d, Ref) and isinstance(s2.heap[d.id], NDArr) \
            and [str(x) for x in s2.heap[d.id].flat] == ["dos_at!1", "dos_at!2"]
        run.sink.add(pref, "post", list(s2.pc), z3.BoolVal(bool(ok)), meta={"label": "dos[i] == DOS(frequency_points[i]) for every frequency point, in order"}).replay = replay_smearing
    run.functions.append({"file": PF_, "function": "TotalDos.run[smearing]", "line": m.lineno, "sha1": mod.sha(m), "obligations": len(run.sink.obls) - n0})


def kernel_lemmas(run):
    """NormalDistribution.calc / CauchyDistribution.calc extracted from the source: g(x) >= 0 and the integral over the real line
    is 1 for every width > 0 (sympy, exact)."""
    mod = pyexec.load(PF_)
    x = z3.Real("x")
    for cls, attr in (("NormalDistribution", "_sigma"), ("CauchyDistribution", "_gamma")):
        m = mod.method(cls, "calc")
        pref = PF_ + ":%s.calc" % cls
        ex = PyExec(mod, run.sink, pref, opaque_unknown=False, split=True)
        st = PState()
        wd = z3.Real("width")
        st.pc += [wd > 0, z3.Real("pi") > 3]
        self_ref = st.new(Record(cls, {attr: wd}))
        n0 = len(run.sink.obls)
        outs = ex.call_function(st, m, [x], self_ref=self_ref, cls=cls)
        rets = [v for (s2, fl, v) in outs if fl == "return"]
        if len(rets) != 1:
            raise CheckerError("%s.calc: expected one returning path" % cls)
        e = cas.to_sympy(pyexec.num(rets[0])) if hasattr(cas, "to_sympy") else None
        if e is None:
            raise CheckerError("cas.to_sympy unavailable")
        syms = {str(s_): s_ for s_ in e.free_symbols}
        X, Wd = syms.get("x"), syms.get("width")
        Xr, Wp = sp.Symbol("x", real=True), sp.Symbol("width", positive=True)
        e = e.subs({X: Xr, Wd: Wp})
        for k in list(e.free_symbols):
            if str(k) == "pi":
                e = e.subs(k, sp.pi)
        integral = sp.simplify(sp.integrate(e, (Xr, -sp.oo, sp.oo)))
        run.sink.add(pref, "lemma", [], z3.BoolVal(bool(integral == 1)), meta={"label": "integral of the kernel over the real line == 1 (sympy: %s)" % integral})
        nonneg = sp.ask(sp.Q.nonnegative(e)) if False else None
        pos = e.is_nonnegative or e.is_positive or sp.simplify(e).is_positive
        run.sink.add(pref, "lemma", [], z3.BoolVal(bool(pos)), meta={"label": "kernel >= 0 (sympy assumptions: x real, width > 0)"})
        run.functions.append({"file": PF_, "function": cls + ".calc", "line": m.lineno, "sha1": mod.sha(m), "obligations": len(run.sink.obls) - n0})


def replay_smearing(model):
    """real TotalDos on a stand-in mesh, Normal and Cauchy smearing, against the direct double sum"""
    import json
    from pvc import creplay
    code = r'''
import json
import numpy as np
from phonopy.phonon.dos import TotalDos
rng = np.random.default_rng(2)
class M:
    frequencies = rng.uniform(1.0, 9.0, size=(11, 4)); weights = rng.integers(1, 5, size=11)
worst = 0.0; case = None
for name in ("Normal", "Cauchy"):
    for sigma in (0.05, 0.3):
        d = TotalDos(M(), sigma=sigma)
        d.set_smearing_function(name)
        d.set_draw_area(freq_min=-5.0, freq_max=15.0, freq_pitch=0.25)
        d.run()
        fp, dos = d.frequency_points, d.dos
        x = M.frequencies[None, :, :] - fp[:, None, None]
        g = (np.exp(-x**2 / 2 / sigma**2) / np.sqrt(2 * np.pi) / sigma) if name == "Normal" else (sigma / np.pi / (x**2 + sigma**2))
        want = (g * M.weights[None, :, None]).sum(axis=(1, 2)) / M.weights.sum()
        dev = float(np.abs(dos - want).max() / np.abs(want).max())
        if dev > worst:
            worst, case = dev, {"smearing": name, "sigma": sigma}
print(json.dumps({"max_rel_dev": worst, "case": case}))
'''
    rc, out, err = creplay.py_eval(code)
    if rc != 0:
        return {"reproduced": False, "reason": err[-500:]}
    r = json.loads(out.strip().splitlines()[-1])
    return {"reproduced": r["max_rel_dev"] > 1e-9, "input": r["case"], "real_code": r, "expected": "total DOS == weighted mesh sum of the smearing kernel / sum of weights"}


def projected_dos_smearing(run):
    """ProjectedDos._run_smearing_method on a generic 2 q-point x 2 band x 2 projection instance, one frequency point:
        pdos[j] == sum_q w_q sum_b |e|^2[q, j, b] g(w_qb - f) / sum_q w_q,
    and (lemma) with sum_j |e|^2[q, j, b] == 1 the projections add up to the total DOS of total_dos_at_freq."""
    mod = pyexec.load(PF_)
    m = mod.method("ProjectedDos", "_run_smearing_method")
    pref = PF_ + ":ProjectedDos._run_smearing_method"
    ex = PyExec(mod, run.sink, pref, opaque_unknown=False, split=True)
    st = PState()
    w = [z3.Real("w_%d" % i) for i in range(2)]
    fr = [z3.Real("f_%d%d" % (i, j)) for i in range(2) for j in range(2)]
    e2 = [z3.Real("e2_%d%d%d" % (q, j, b)) for q in range(2) for j in range(2) for b in range(2)]
    f = z3.Real("f")
    st.pc += [w[0] > 0, w[1] > 0]
    sm = st.new(Record("Smearing", {"calc": Hooked(_calc_hook)}))
    self_ref = st.new(Record("ProjectedDos", {"_weights": st.new(NDArr((2,), w)), "_frequencies": st.new(NDArr((2, 2), fr)), "_smearing_function": sm,
                                              "_eigvecs2": st.new(NDArr((2, 2, 2), e2)), "_frequency_points": st.new(NDArr((1,), [f])), "_projected_dos": None}))
    n0 = len(run.sink.obls)
    outs = ex.call_function(st, m, [], self_ref=self_ref, cls="ProjectedDos")
    if not outs:
        raise CheckerError("_run_smearing_method: no path")
    g = [G(x - f) for x in fr]
    W = w[0] + w[1]
    want = [sum(w[q] * e2[q * 4 + j * 2 + b] * g[q * 2 + b] for q in range(2) for b in range(2)) / W for j in range(2)]
    total = (w[0] * (g[0] + g[1]) + w[1] * (g[2] + g[3])) / W
    for (s2, fl, v) in outs:
        pd = s2.heap[self_ref.id].attrs.get("_projected_dos")
        if not (isinstance(pd, Ref) and isinstance(s2.heap[pd.id], NDArr) and s2.heap[pd.id].shape == (2, 1)):
            raise CheckerError("_run_smearing_method: projected DOS not a (2, 1) array in the model")
        got = [pyexec.num(x) for x in s2.heap[pd.id].flat]
        for j in range(2):
            ob = run.sink.add(pref, "post", list(s2.pc), got[j] == want[j], meta={"label": "pdos[%d] == weighted sum of |e|^2 g / sum of weights" % j})
            ob.backend = "poly"      # exact rational identity; the kernel values are opaque atoms
        hy = list(s2.pc) + [e2[q * 4 + 0 * 2 + b] + e2[q * 4 + 1 * 2 + b] == 1 for q in range(2) for b in range(2)]
        run.sink.add(pref, "lemma", hy, got[0] + got[1] == total, meta={"label": "additivity: the projections sum to the total DOS when sum_j |e_j|^2 == 1"})
    run.functions.append({"file": PF_, "function": "ProjectedDos._run_smearing_method", "line": m.lineno, "sha1": mod.sha(m), "obligations": len(run.sink.obls) - n0})
