"""Contracts for c/rgrid.c (grid index arithmetic used by the tetrahedron DOS kernels; C11, C13).
Documented convention (GRID_ORDER_XYZ not defined in the build): index = a0 + a1*m0 + a2*m0*m1 with
a_i = address_i mod m_i in [0, m_i)."""
import z3

from pvc.core import Contract

F = "c/rgrid.c"
S3 = lambda P: [3]   # noqa: E731


def _gen3(rnd, lo, hi):
    import numpy as np
    return np.array([rnd.randint(lo, hi) for _ in range(3)])


def mat_modulo_contract():
    def derived(V):
        a, b = V.p.a, V.p.b
        qs = (a / b) + ((-a) / b)
        return [("floor quotients of a and -a add up to 0 or -1", z3.Or(qs == 0, qs == -1), [b >= 1]),
                ("division identities", z3.And((-a) == b * ((-a) / b) + ((-a) % b), a == b * (a / b) + (a % b)), [b >= 1])]
    return Contract(F, "mat_modulo_l", requires=lambda V: [V.p.b >= 1], derived=derived,
                    ensures=lambda V: [("mathematical modulo", V.ret == V.p.a % V.p.b), ("range", z3.And(V.ret >= 0, V.ret < V.p.b))],
                    gen=lambda rnd: {"a": rnd.randint(-50, 50), "b": rnd.randint(1, 9)}, lib="rgrid")


def single_mesh_contract():
    def ens(V):
        a, m = V.a.address, V.a.mesh
        return [("row-major, x fastest", V.ret == a[0] + a[1] * m[0] + a[2] * m[0] * m[1])]
    return Contract(F, "get_grid_index_single_mesh", shapes={"address": S3, "mesh": S3}, ensures=ens,
                    gen=lambda rnd: {"address": _gen3(rnd, 0, 6), "mesh": _gen3(rnd, 1, 7)}, lib="rgrid")


def _index_of(addr, m):
    return (addr[0] % m[0]) + (addr[1] % m[1]) * m[0] + (addr[2] % m[2]) * m[0] * m[1]


def double_grid_index_contract():
    def req(V):
        m = V.a.mesh
        return [m[0] >= 1, m[1] >= 1, m[2] >= 1]

    def ens(V):
        ad, m = V.a.address_double, V.a.mesh
        half = [ad[i] / 2 for i in range(3)]     # z3 integer division by 2 is floor
        return [("index of floor(address_double/2) modulo mesh", V.ret == _index_of(half, m)),
                ("in range", z3.And(V.ret >= 0, V.ret < m[0] * m[1] * m[2]))]
    return Contract(F, "get_double_grid_index", shapes={"address_double": S3, "mesh": S3}, requires=req, ensures=ens,
                    use_contracts={"mat_modulo_l", "get_grid_index_single_mesh"},
                    gen=lambda rnd: {"address_double": _gen3(rnd, -20, 20), "mesh": _gen3(rnd, 1, 6)}, lib="rgrid")


def double_grid_address_contract():
    def req(V):
        m = V.a.mesh
        return [m[0] >= 1, m[1] >= 1, m[2] >= 1]

    def ens(V):
        out, a, m, sh = V.a.address_double, V.old.a.address, V.old.a.mesh, V.old.a.is_shift
        cl = []
        for i in range(3):
            d = 2 * a[i] + z3.If(sh[i] != 0, 1, 0)
            cl.append(("component %d" % i, out[i] == z3.If(d > m[i], d - 2 * m[i], d)))
            # same grid point: differs from 2a+s by a multiple of 2*mesh
            cl.append(("same point mod mesh %d" % i, (out[i] / 2) % m[i] == a[i] % m[i]))
        return cl
    return Contract(F, "rgd_get_double_grid_address", shapes={"address_double": S3, "address": S3, "mesh": S3, "is_shift": S3},
                    requires=req, ensures=ens, modifies=("address_double",),
                    gen=lambda rnd: {"address_double": _gen3(rnd, 0, 0), "address": _gen3(rnd, -12, 12), "mesh": _gen3(rnd, 1, 6),
                                     "is_shift": _gen3(rnd, 0, 1)}, lib="rgrid")


def all_contracts():
    mm, sm = mat_modulo_contract(), single_mesh_contract()
    dgi = double_grid_index_contract()
    return [mm, sm, dgi, double_grid_address_contract()], {"mat_modulo_l": mm, "get_grid_index_single_mesh": sm}
