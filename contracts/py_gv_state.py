"""C14 — GroupVelocity.run (phonopy/phonon/group_velocity.py): history independence.  The Phonopy object caches ONE
GroupVelocity and every access path (q-point list, band path, mesh, single q) calls run() on it, so what run() leaves for
_calculate_group_velocity_at_q must be a function of run()'s own arguments and of construction-time constants, not of what
an earlier call left behind."""
import z3

from pvc import pyexec
from pvc.core import CheckerError
from pvc.pyexec import PyExec, PState, Record, Opaque, NDArr, Ref

VF = "phonopy/phonon/group_velocity.py"


def _free_names(e, acc):
    if z3.is_const(e) and e.decl().kind() == z3.Z3_OP_UNINTERPRETED:
        acc.add(e.decl().name())
    for ch in e.children():
        _free_names(ch, acc)
    return acc


def run_history_independence(run):
    """Entry state: the symmetry-breaking direction _directions[0] and _perturbation hold ARBITRARY values (whatever an earlier
    run(q, perturbation=d) left), rows 1..3 the Cartesian axes, the reciprocal lattice symbolic.  At each call of
    _calculate_group_velocity_at_q inside run(q_points, perturbation):
      * no component of _directions, and not _perturbation, depends on the entry values (syntactic independence of the
        symbolic result from the havoc symbols);
      * perturbation=None: _directions[0] == (1,2,3)/|(1,2,3)|;  perturbation=p (B p != 0): _directions[0] is an expression in B (reciprocal
        lattice) and p only;  rows 1..3 unchanged."""
    mod = pyexec.load(VF)
    m = mod.method("GroupVelocity", "run")
    pref = VF + ":GroupVelocity.run"
    n0 = len(run.sink.obls)
    for given in (False, True):
        tag = "[perturbation given]" if given else "[perturbation=None]"
        snaps = []

        def at_q(ex, st, args, kwargs):
            rec = st.heap[ex.hook_self.id].attrs
            d = rec.get("_directions")
            snaps.append((list(st.heap[d.id].flat) if isinstance(d, Ref) and isinstance(st.heap[d.id], NDArr) else None,
                          rec.get("_perturbation"), list(st.pc)))
            return Opaque("group velocity at q")
        ex = PyExec(mod, run.sink, pref + tag, hooks={"GroupVelocity._calculate_group_velocity_at_q": at_q}, opaque_unknown=True, split=True)
        st = PState()
        old = [z3.Real("old_direction_%d" % i) for i in range(3)]
        axes = [z3.RealVal(1 if i == j else 0) for i in range(3) for j in range(3)]
        dirs = st.new(NDArr((4, 3), old + axes))
        B = [z3.Real("B_%d%d" % (i, j)) for i in range(3) for j in range(3)]
        rec_lat = st.new(NDArr((3, 3), B))
        p = [z3.Real("p_%d" % i) for i in range(3)]
        pert = st.new(NDArr((3,), p)) if given else None
        self_ref = st.new(Record("GroupVelocity", {"_directions": dirs, "_perturbation": Opaque("old perturbation"), "_reciprocal_lattice": rec_lat,
                                                   "_q_points": None, "_group_velocities": None}))
        if given:
            Bp = [sum(B[i * 3 + k] * p[k] for k in range(3)) for i in range(3)]
            st.pc.append(Bp[0] * Bp[0] + Bp[1] * Bp[1] + Bp[2] * Bp[2] > 0)      # precondition: the perturbation is not the zero vector
        QP = st.new(pyexec.PList([Opaque("generic q-point")]))      # one generic q-point: list elements are treated uniformly
        outs = ex.call_function(st, m, [QP, pert], self_ref=self_ref, cls="GroupVelocity")
        if not snaps:
            raise CheckerError("GroupVelocity.run never calls _calculate_group_velocity_at_q")
        for (flat, pt, pc) in snaps:
            if flat is None:
                raise CheckerError("GroupVelocity.run: _directions was abstracted")
            names = set()
            for v in flat:
                _free_names(pyexec.num(v), names)
            dep = sorted(n for n in names if n.startswith("old_direction_"))
            ob = run.sink.add(pref + tag, "post", pc, z3.BoolVal(not dep),
                              meta={"label": "the directions used for the derivative do not depend on what an earlier run left (%s)" % (dep or "independent")})
            ob.replay = replay_gv_history
            same_p = (pt is None) if not given else (isinstance(pt, Ref) and pt.id == pert.id)
            ob = run.sink.add(pref + tag, "post", pc, z3.BoolVal(bool(same_p)),
                              meta={"label": "_perturbation (selects analytic/finite-difference handling downstream) is this call's argument"})
            ob.replay = replay_gv_history
            for k in range(3, 12):
                run.sink.add(pref + tag, "frame", pc, pyexec.num(flat[k]) == axes[k - 3], meta={"label": "Cartesian axes rows of _directions unchanged"})
            if not given:
                s14 = pyexec.num(flat[0]) * pyexec.num(flat[0]) + pyexec.num(flat[1]) * pyexec.num(flat[1]) + pyexec.num(flat[2]) * pyexec.num(flat[2])
                run.sink.add(pref + tag, "post", pc, z3.And(pyexec.num(flat[1]) == 2 * pyexec.num(flat[0]), pyexec.num(flat[2]) == 3 * pyexec.num(flat[0]),
                                                            pyexec.num(flat[0]) > 0, s14 == 1),
                             meta={"label": "default direction == (1,2,3)/sqrt(14)"}).replay = replay_gv_history
            else:
                only = sorted(n for n in names if not (n.startswith("B_") or n.startswith("p_")))
                ob = run.sink.add(pref + tag, "post", pc, z3.BoolVal(not only),
                                  meta={"label": "the direction is a function of the reciprocal lattice and this call's perturbation only (%s)" % (only or "ok")})
                ob.replay = replay_gv_history
    run.functions.append({"file": VF, "function": "GroupVelocity.run", "line": m.lineno, "sha1": mod.sha(m), "obligations": len(run.sink.obls) - n0})


def replay_gv_history(model):
    """real GroupVelocity.run on a __new__-built object: run(q, perturbation=d) followed by run(q) must leave the same state as
    run(q) on a fresh object"""
    import json
    from pvc import creplay
    code = r'''
import json
import numpy as np
from phonopy.phonon.group_velocity import GroupVelocity
def fresh():
    g = GroupVelocity.__new__(GroupVelocity)
    g._reciprocal_lattice = np.array([[0.3, 0.01, 0.0], [0.0, 0.25, 0.02], [0.01, 0.0, 0.2]])
    d = np.array([[1, 2, 3], [1, 0, 0], [0, 1, 0], [0, 0, 1]], dtype="double"); d[0] /= np.linalg.norm(d[0])
    g._directions = d; g._perturbation = None; g._q_points = None; g._group_velocities = None
    g._calculate_group_velocity_at_q = lambda q: np.zeros((3, 3))
    return g
a = fresh(); a.run([[0.1, 0.2, 0.3]], perturbation=[1, 1, 0]); a.run([[0.1, 0.2, 0.3]])
b = fresh(); b.run([[0.1, 0.2, 0.3]])
print(json.dumps({"direction_after_history": a._directions[0].tolist(), "direction_fresh": b._directions[0].tolist(),
                  "perturbation_after_history": None if a._perturbation is None else list(a._perturbation)}))
'''
    rc, out, err = creplay.py_eval(code)
    if rc != 0:
        return {"reproduced": False, "reason": err[-400:]}
    r = json.loads(out.strip().splitlines()[-1])
    import numpy as np
    bad = (not np.allclose(r["direction_after_history"], r["direction_fresh"])) or r["perturbation_after_history"] is not None
    return {"reproduced": bool(bad), "input": {"history": "run(q, perturbation=[1,1,0]); run(q)"}, "real_code": r,
            "expected": "same symmetry-breaking direction as on a fresh object"}


MF = "phonopy/phonon/mesh.py"


def mesh_iteration_restart(run):
    """Mesh.__iter__ / IterMesh.__iter__: `for f, e in mesh` must start at q-point 0 whatever happened before -- in particular after
    an iteration that was abandoned (break / exception in the consumer), which leaves the counter in the middle.  Consumers pair the
    i-th item with weights[i] (DOS, thermal properties), so a resumed iteration silently mis-pairs them.  Entry state: _q_count is an
    arbitrary integer in [0, n]; obligation: after __iter__ the counter is 0."""
    mod = pyexec.load(MF)
    for cls in ("Mesh", "IterMesh"):
        m = mod.method(cls, "__iter__")
        pref = MF + ":%s.__iter__" % cls
        ex = PyExec(mod, run.sink, pref, hooks={"Mesh.run": lambda ex_, st_, a, k: None}, opaque_unknown=True, split=True)
        st = PState()
        c, n = z3.Int("old_q_count"), z3.Int("n_qpoints")
        st.pc += [c >= 0, c <= n, n >= 1]
        self_ref = st.new(Record(cls, {"_q_count": c, "_qpoints": Opaque("qpoints"), "_frequencies": Opaque("frequencies")}))
        n0 = len(run.sink.obls)
        outs = ex.call_function(st, m, [], self_ref=self_ref, cls=cls)
        if not outs:
            raise CheckerError("%s.__iter__: no path" % cls)
        for (s2, fl, v) in outs:
            got = s2.heap[self_ref.id].attrs.get("_q_count")
            ob = run.sink.add(pref, "post", list(s2.pc), pyexec.num(got) == 0,
                              meta={"label": "iteration starts at q-point 0 whatever an earlier (possibly abandoned) iteration left",
                                    "witness": {"old_q_count": c}})
            ob.meta["finding_candidate"] = "E19"
            ob.replay = replay_mesh_iteration
        run.functions.append({"file": MF, "function": cls + ".__iter__", "line": m.lineno, "sha1": mod.sha(m), "obligations": len(run.sink.obls) - n0})


def replay_mesh_iteration(model):
    import json
    from pvc import creplay
    code = r'''
import json
import numpy as np
from phonopy.phonon.mesh import Mesh, IterMesh
out = {}
m = Mesh.__new__(Mesh)
m._qpoints = np.zeros((4, 3)); m._frequencies = np.arange(8.0).reshape(4, 2); m._eigenvectors = None; m._q_count = 0
for k, (f, e) in enumerate(m):
    if k == 1:
        break
out["Mesh_first_item_after_abandoned_iteration"] = [float(x) for x in next(iter(m))[0]]
out["Mesh_expected"] = [0.0, 1.0]
print(json.dumps(out))
'''
    rc, out, err = creplay.py_eval(code)
    if rc != 0:
        return {"reproduced": False, "reason": err[-400:]}
    r = json.loads(out.strip().splitlines()[-1])
    return {"reproduced": r["Mesh_first_item_after_abandoned_iteration"] != r["Mesh_expected"], "input": {"history": "iterate, break after 2 items, iterate again"},
            "real_code": r, "expected": "a new iteration starts at q-point 0"}
