"""C19 — scalar core of the thermal / random displacement formulas (phonopy/phonon/thermal_displacement.py,
phonopy/phonon/random_displacements.py): the Python bodies are executed symbolically over symbolic unit constants
(PlanckConstant, EV, AMU, Angstrom, Kb; Hbar = h/2pi, THzToEv = h*1e12, THz = 1e12 as in phonopy/units.py) and compared with
  n(f, T)     = 1 / (exp(h f / k_B T) - 1)                                (Bose-Einstein, T > 0)
  <Q^2>       = hbar (2 n + 1) / (2 omega),  omega = 2 pi f
  sigma^2     = <Q^2> per unit mass (quantum),  k_B T / omega^2 (classical)
as exact identities (sympy)."""
import sympy as sp
import z3

from pvc import pyexec, cas
from pvc.core import CheckerError
from pvc.pyexec import PyExec, PState, Record, NDArr, Opaque

TF = "phonopy/phonon/thermal_displacement.py"
RF = "phonopy/phonon/random_displacements.py"
h, EV, AMU, ANG, KB, PI = (z3.Real(n) for n in ("PlanckConstant", "EV", "AMU", "Angstrom", "Kb", "pi"))
THZ = z3.RealVal(10 ** 12)
GL = {"Hbar": h / (2 * PI), "EV": EV, "AMU": AMU, "Angstrom": ANG, "Kb": KB, "THzToEv": h * THZ, "THz": THZ}
f, T = z3.Real("f"), z3.Real("T")
POS = [h > 0, EV > 0, AMU > 0, ANG > 0, KB > 0, PI > 0]      # the unit constants are positive numbers


def _single(ex, outs, what):
    rets = [o for o in outs if o[1] == "return"]
    if not rets:
        raise CheckerError("%s: no returning path" % what)
    return rets


def build(run):
    tmod, rmod = pyexec.load(TF), pyexec.load(RF)
    sy = cas.to_sympy
    fs, Ts = sp.Symbol("f", positive=True), sp.Symbol("T", positive=True)
    hs, evs, amus, angs, kbs, pis = (sp.Symbol(n, positive=True) for n in ("PlanckConstant", "EV", "AMU", "Angstrom", "Kb", "pi"))
    pos = {sp.Symbol(n, real=True): s_ for n, s_ in (("f", fs), ("T", Ts), ("PlanckConstant", hs), ("EV", evs), ("AMU", amus), ("Angstrom", angs), ("Kb", kbs), ("pi", pis))}
    n_spec = 1 / (sp.exp(hs * 10 ** 12 * fs / (kbs * Ts)) - 1)
    omega = 2 * pis * fs * 10 ** 12
    hbar = hs / (2 * pis)

    def to_sy(t):
        return sy(t).subs(pos)
    # ---- ThermalMotion._get_population / _get_Q2
    pref = TF + ":ThermalMotion"
    self_ref_st = PState()
    self_ref = self_ref_st.new(Record("ThermalMotion", {}))
    ex = PyExec(tmod, run.sink, pref, globals_=GL, split=True)
    n0 = len(run.sink.obls)
    st = self_ref_st.clone()
    st.pc += POS + [f > 0, T >= 0]
    outs = _single(ex, ex.call_function(st, tmod.method("ThermalMotion", "_get_population"), [f, T], self_ref=self_ref, cls="ThermalMotion"), "_get_population")
    for (s2, fl, v) in outs:
        cond = z3.simplify(z3.And(*s2.pc))
        vt = pyexec.num(v)
        # spec: Bose-Einstein for T > 0, no thermal occupation at T = 0
        for (lab, region, want) in (("T > 0", T > 0, n_spec), ("T == 0", T == 0, sp.Integer(0))):
            s_ = z3.Solver()
            s_.add(*s2.pc)
            s_.add(region)
            if s_.check() == z3.unsat:
                continue
            run.lemma(pref, "doc", "population on the path [%s], %s: equals the Bose-Einstein occupation" % (str(cond)[:60], lab), [], None,
                      backend="poly", pairs=[(sp.srepr(to_sy(vt)), sp.srepr(want))], replay=lambda model: replay_population())
    st = self_ref_st.clone()
    st.pc += POS + [f > 0, T > 1]
    outs = _single(ex, ex.call_function(st, tmod.method("ThermalMotion", "_get_Q2"), [f, T], self_ref=self_ref, cls="ThermalMotion"), "_get_Q2")
    q2_terms = []
    for (s2, fl, v) in outs:
        q2 = to_sy(pyexec.num(v))
        q2_terms.append(q2)
        above = {Ts: 1 + sp.Symbol("dT", positive=True)}       # the path condition T > 1 of this execution, told to sympy
        run.lemma(pref, "doc", "<Q^2> == hbar (2n+1) / (2 omega) in kg Angstrom^2 (EV/Angstrom^2 converts J s^2/m^2), for T > 1", [], None, backend="poly",
                  pairs=[(sp.srepr(q2.subs(above)), sp.srepr((hbar * evs / angs ** 2 * (2 * n_spec + 1) / (2 * omega)).subs(above)))])
    run.functions.append({"file": TF, "function": "ThermalMotion._get_population/_get_Q2", "line": tmod.method("ThermalMotion", "_get_Q2").lineno,
                          "sha1": tmod.sha(tmod.method("ThermalMotion", "_get_Q2")) + tmod.sha(tmod.method("ThermalMotion", "_get_population")),
                          "obligations": len(run.sink.obls) - n0})
    # ---- random displacements: bose_einstein_dist, unit conversions, _get_sigma
    pref = RF + ":RandomDisplacements"
    ex = PyExec(rmod, run.sink, pref, globals_=GL, split=True)
    n0 = len(run.sink.obls)
    st = PState()
    st.pc += POS + [f > 0, T > 0]
    outs = _single(ex, ex.call_function(st, rmod.funcs["bose_einstein_dist"], [f, T]), "bose_einstein_dist")
    for (s2, fl, v) in outs:
        run.lemma(pref, "doc", "bose_einstein_dist == 1/(exp(h f/k_B T) - 1)", [], None, backend="poly",
                  pairs=[(sp.srepr(to_sy(pyexec.num(v))), sp.srepr(n_spec))])
    run.functions.append({"file": RF, "function": "bose_einstein_dist", "line": rmod.funcs["bose_einstein_dist"].lineno,
                          "sha1": rmod.sha(rmod.funcs["bose_einstein_dist"]), "obligations": len(run.sink.obls) - n0})
    # ---- RandomDisplacements: unit conversions (assignments in __init__) and _get_sigma
    import ast
    init = rmod.method("RandomDisplacements", "__init__")
    consts = {}
    for node in ast.walk(init):
        if isinstance(node, ast.Assign) and len(node.targets) == 1 and isinstance(node.targets[0], ast.Attribute) \
                and node.targets[0].attr in ("_unit_conversion", "_unit_conversion_classical"):
            st0 = PState()
            st0.pc += POS
            consts[node.targets[0].attr] = pyexec.num(ex.eval(st0, node.value, {}))
    if set(consts) != {"_unit_conversion", "_unit_conversion_classical"}:
        raise CheckerError("RandomDisplacements.__init__: unit conversion assignments not found")
    n0 = len(run.sink.obls)
    gs = rmod.method("RandomDisplacements", "_get_sigma")
    ev_, fac, cut = z3.Real("eigval"), z3.Real("factor"), z3.Real("cutoff_frequency")
    facs, evs_ = sp.Symbol("factor", positive=True), sp.Symbol("eigval", positive=True)
    pos2 = dict(pos)
    pos2.update({sp.Symbol("factor", real=True): facs, sp.Symbol("eigval", real=True): evs_})
    for dist in ("quantum", "classical"):
        st = PState()
        st.pc += POS + [T > 0, ev_ > 0, fac > 0, cut >= 0]
        arr = st.new(NDArr((1,), [ev_]))
        sref = st.new(Record("RandomDisplacements", {"_factor": fac, "_cutoff_frequency": cut, "_dist_func": dist,
                                                     "_unit_conversion": consts["_unit_conversion"],
                                                     "_unit_conversion_classical": consts["_unit_conversion_classical"]}))
        ex2 = PyExec(rmod, run.sink, pref + "._get_sigma[%s]" % dist, globals_=GL, split=True)
        xf = z3.Real("x!fabs")
        fabs = z3.Function("c_fabs", z3.RealSort(), z3.RealSort())
        ex2.facts = [z3.ForAll([xf], fabs(xf) == z3.If(xf >= 0, xf, -xf), patterns=[fabs(xf)])]
        outs = _single(ex2, ex2.call_function(st, gs, [arr, T], self_ref=sref, cls="RandomDisplacements"), "_get_sigma")
        for (s2, fl, v) in outs:
            sig = s2.heap[v[0].id].flat[0]
            # on the branch above the cutoff: f = sqrt(eigval) * factor (THz)
            fq = sp.sqrt(evs_) * facs
            om = 2 * pis * fq * 10 ** 12
            nq = 1 / (sp.exp(hs * 10 ** 12 * fq / (kbs * Ts)) - 1)
            if dist == "quantum":
                want2 = hbar * evs / angs ** 2 * (2 * nq + 1) / (2 * om) / amus            # <Q^2> / AMU
            else:
                want2 = kbs * Ts * evs / (om ** 2) / angs ** 2 / amus                       # k_B T / omega^2 per AMU
            got = sy(pyexec.num(sig)).subs(pos2)
            # the value is If(freq > cutoff, sigma, 0): compare the squares on the branch above the cutoff
            if isinstance(got, sp.Piecewise):
                cnd = got.args[0][1]                      # "frequency above the cutoff", the same relational throughout the term
                above = sp.piecewise_fold(got.xreplace({cnd: sp.true}))
            else:
                above = got
            import os
            if os.environ.get("PVC_TRACE"):
                print("sigma", dist, got)
            run.lemma(pref, "doc", "_get_sigma[%s]: sigma^2 above the cutoff == %s in AMU Angstrom^2" % (
                dist, "hbar (2n+1)/(2 omega) (the <Q^2> of thermal_displacement.py divided by AMU)" if dist == "quantum" else "k_B T / omega^2"),
                [], None, backend="poly", pairs=[(sp.srepr(sp.expand(above ** 2)), sp.srepr(want2))])
    run.functions.append({"file": RF, "function": "RandomDisplacements._get_sigma", "line": gs.lineno, "sha1": rmod.sha(gs), "obligations": len(run.sink.obls) - n0})
    run.not_decided += ["covariance of the vectorised sampler (_solve_ii/_solve_ij, sqrt(2) conjugate-pair factor, 1/sqrt(mN))", "thermal displacement matrices: positive semi-definiteness, CIF convention",
                        "run_correlation_matrix / run_d2f round trip", "classical limit of the quantum sigma (cited)"]
    return q2_terms


def replay_population():
    from pvc import creplay
    import json
    code = r'''
import json
import numpy as np
from phonopy.phonon.thermal_displacement import ThermalMotion
from phonopy.units import THzToEv, Kb
o = ThermalMotion.__new__(ThermalMotion)
f, t = 0.005, 0.8            # a 0.005 THz (0.24 K) mode at 0.8 K: occupation 2.9, not 0
got = float(o._get_population(f, t))
want = 1.0 / (np.exp(f * THzToEv / (Kb * t)) - 1)
print(json.dumps({"f_THz": f, "T_K": t, "population": got, "bose_einstein": want}))
'''
    rc, out, err = creplay.py_eval(code)
    if rc != 0:
        return {"reproduced": False, "reason": err[-400:]}
    r = json.loads(out.strip().splitlines()[-1])
    return {"reproduced": abs(r["population"] - r["bose_einstein"]) > 1e-9 * max(1.0, r["bose_einstein"]), "real_code": r,
            "expected": "population == 1/(exp(h f/k_B T) - 1) for every T > 0"}


def cif_convention(run):
    """ThermalDisplacementMatrices.__init__: with A the lattice (columns a, b, c) and N = diag(|a*|, |b*|, |c*|), where a*, b*, c*
    are the ROWS of A^-1, the stored matrix is (A N)^-1, so that U_cart = (A N) U_cif (A N)^T (CIF convention)."""
    from contracts.py_cells import mat3, vals
    mod = pyexec.load(TF)
    m = mod.method("ThermalDisplacementMatrices", "__init__")
    pref = TF + ":ThermalDisplacementMatrices.__init__"
    st = PState()
    A = mat3(st, "A")
    Av = list(vals(st, A))
    self_ref = st.new(Record("ThermalDisplacementMatrices", {}))
    ex = PyExec(mod, run.sink, pref, hooks={"super.__init__": lambda ex_, st_, a, k: None}, opaque_unknown=True, split=True)
    n0 = len(run.sink.obls)
    outs = ex.call_function(st, m, [Opaque("iter mesh")], {"lattice": A}, self_ref=self_ref, cls="ThermalDisplacementMatrices")
    rets = [o for o in outs if o[1] == "return"]
    if not rets:
        raise CheckerError("ThermalDisplacementMatrices.__init__: no returning path")
    sq = z3.Function("c_sqrt", z3.RealSort(), z3.RealSort())
    for (s2, fl, v) in rets:
        an = s2.heap[self_ref.id].attrs.get("_ANinv")
        if not (isinstance(an, pyexec.Ref) and isinstance(s2.heap[an.id], NDArr)):
            raise CheckerError("ThermalDisplacementMatrices.__init__: _ANinv was abstracted")
        X = [pyexec.num(x) for x in s2.heap[an.id].flat]
        # spec: rows of A^-1 (adjugate formula) and their lengths
        d = (Av[0] * (Av[4] * Av[8] - Av[5] * Av[7]) - Av[1] * (Av[3] * Av[8] - Av[5] * Av[6]) + Av[2] * (Av[3] * Av[7] - Av[4] * Av[6]))
        cof = lambda i, j: Av[((i + 1) % 3) * 3 + (j + 1) % 3] * Av[((i + 2) % 3) * 3 + (j + 2) % 3] - Av[((i + 1) % 3) * 3 + (j + 2) % 3] * Av[((i + 2) % 3) * 3 + (j + 1) % 3]      # noqa: E731
        inv = [cof(j, i) / d for i in range(3) for j in range(3)]
        nrm = [sq(inv[i * 3] * inv[i * 3] + inv[i * 3 + 1] * inv[i * 3 + 1] + inv[i * 3 + 2] * inv[i * 3 + 2]) for i in range(3)]
        AN = [Av[i * 3 + j] * nrm[j] for i in range(3) for j in range(3)]
        for i in range(3):
            for j in range(3):
                ob = run.sink.add(pref, "post", list(s2.pc), sum(X[i * 3 + k] * AN[k * 3 + j] for k in range(3)) == (1 if i == j else 0),
                                  meta={"label": "_ANinv . (A diag(|a*|,|b*|,|c*|)) == identity, element [%d][%d] (a*, b*, c* = rows of A^-1)" % (i, j)})
                ob.backend = "poly"
    run.functions.append({"file": TF, "function": "ThermalDisplacementMatrices.__init__", "line": m.lineno, "sha1": mod.sha(m), "obligations": len(run.sink.obls) - n0})


def sampling_supercell_matrix(run):
    """RandomDisplacements.__init__: the integer matrix handed to get_commensurate_points_in_integers is the supercell matrix S
    in the column convention of that function, A_s = A_p S for cells given as columns, i.e. (rows) plat^T . S == slat^T; the same
    A_s A_p^-1 (rows) converts supercell to primitive fractional coordinates."""
    from contracts.py_cells import mat3, vals
    from contracts.py_svecs import _rint_hook
    mod = pyexec.load(RF)
    m = mod.method("RandomDisplacements", "__init__")
    pref = RF + ":RandomDisplacements.__init__"
    st = PState()
    st.pc += POS
    As, Ap = mat3(st, "As"), mat3(st, "Ap")
    Asv, Apv = list(vals(st, As)), list(vals(st, Ap))
    scell = st.new(Record("Supercell", {"cell": As, "scaled_positions": Opaque("supercell positions")}))
    prim = st.new(Record("Primitive", {"cell": Ap, "scaled_positions": Opaque("primitive positions"), "s2p_map": Opaque("s2p"), "p2p_map": Opaque("p2p")}))
    cap = []
    assumed = []

    def comm(ex_, st_, a, k):
        cap.append((st_.clone(), a[0]))
        return Opaque("commensurate points")
    hooks = {"new:get_dynamical_matrix": lambda ex_, st_, a, k: st_.new(Record("DynamicalMatrix", {"supercell": scell, "primitive": prim})),
             "new:get_commensurate_points_in_integers": comm, "get_commensurate_points_in_integers": comm,
             "new:categorize_commensurate_points": lambda ex_, st_, a, k: (Opaque("ii"), Opaque("ij")),
             "categorize_commensurate_points": lambda ex_, st_, a, k: (Opaque("ii"), Opaque("ij")),
             "RandomDisplacements._prepare": lambda ex_, st_, a, k: None, "numpy.rint": _rint_hook(assumed)}
    self_ref = st.new(Record("RandomDisplacements", {}))
    ex = PyExec(mod, run.sink, pref, hooks=hooks, globals_=GL, opaque_unknown=True, split=True)
    n0 = len(run.sink.obls)
    ex.call_function(st, m, [scell, prim, Opaque("force constants")], {"factor": z3.Real("factor")}, self_ref=self_ref, cls="RandomDisplacements")
    if not cap:
        raise CheckerError("RandomDisplacements.__init__: commensurate points are never requested")
    for (s2, S) in cap:
        if not (isinstance(S, pyexec.Ref) and isinstance(s2.heap[S.id], NDArr)):
            raise CheckerError("RandomDisplacements.__init__: supercell matrix was abstracted: %r" % (S,))
        Sv = [pyexec.num(x) for x in s2.heap[S.id].flat]
        for i in range(3):
            for j in range(3):
                ob = run.sink.add(pref, "call-pre", list(s2.pc), sum(Apv[k * 3 + i] * Sv[k * 3 + j] for k in range(3)) == Asv[j * 3 + i],
                                  meta={"label": "supercell matrix for the commensurate points: (A_p^T S)[%d][%d] == (A_s^T)[%d][%d]" % (i, j, i, j)},
                                  replay=lambda model: replay_sampling())
                ob.backend = "poly"
    run.functions.append({"file": RF, "function": "RandomDisplacements.__init__", "line": m.lineno, "sha1": mod.sha(m) + mod.sha(mod.method("RandomDisplacements", "_setup_sampling_qpoints")),
                          "obligations": len(run.sink.obls) - n0})
    run.assumptions += sorted(set(assumed))


def replay_sampling():
    from pvc import creplay
    import json
    code = r'''
import json
import numpy as np
import phonopy.phonon.random_displacements as rd
got = {}
rd.get_commensurate_points_in_integers = lambda smat: got.setdefault("S", np.array(smat)) * 0
rd.categorize_commensurate_points = lambda pts: ([], [])
o = rd.RandomDisplacements.__new__(rd.RandomDisplacements)
Ap = np.array([[3.0, 0.1, 0.0], [0.2, 3.1, 0.0], [0.0, 0.3, 3.3]])
S = np.array([[2, 1, 0], [0, 2, 0], [0, 1, 1]])                  # columns convention: A_s(cols) = A_p(cols) S
As = (Ap.T @ S).T
import inspect
sig = inspect.signature(rd.RandomDisplacements._setup_sampling_qpoints)
if len(sig.parameters) == 3:
    o._setup_sampling_qpoints(As, Ap)
else:
    o._setup_sampling_qpoints(np.dot(As, np.linalg.inv(Ap)))
print(json.dumps({"passed": got["S"].tolist(), "supercell_matrix": S.tolist()}))
'''
    rc, out, err = creplay.py_eval(code)
    if rc != 0:
        return {"reproduced": False, "reason": err[-400:]}
    r = json.loads(out.strip().splitlines()[-1])
    return {"reproduced": r["passed"] != r["supercell_matrix"], "real_code": r, "expected": "the supercell matrix itself is passed"}
