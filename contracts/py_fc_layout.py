"""C07 — compact <-> full layout conversion in phonopy/harmonic/force_constants.py (Python glue around the proved
distribute_fc2 kernel of C01: every non-representative row := old row + rotated copy of its representative row)."""
import z3

from pvc import pyexec
from pvc.core import CheckerError
from pvc.pyexec import PyExec, PState, Record, Opaque, Ref

FF = "phonopy/harmonic/force_constants.py"


class _LoggingExec(PyExec):
    """records item assignments to abstracted arrays as (buffer, index, value)"""

    def setitem(self, st, o, idx, v):
        if isinstance(o, Opaque):
            self.__dict__.setdefault("item_writes", []).append((o.buf, idx, v))
        return PyExec.setitem(self, st, o, idx, v)


def layout_conversions(run):
    """compact_fc_to_full_fc: the array handed to distribute_force_constants_by_translations is a fresh ZERO array (the kernel
    accumulates into the non-representative rows: its contract is `row = old + rotated representative row`, so `old` must be 0)
    whose only earlier write is `fc[primitive.p2s_map] = compact_fc`; the same array is returned.
    distribute_force_constants_by_translations: hands that array, this primitive cell's p2s_map and atomic permutations to
    distribute_force_constants, with one identity rotation per permutation.
    full_fc_to_compact_fc: the returned array is wholly assigned `full_fc[p2s_map]` (rows of the representatives, in p2s order)."""
    mod = pyexec.load(FF)
    # ---------------------------------------------------------------- compact -> full
    fn = mod.funcs["compact_fc_to_full_fc"]
    pref = FF + ":compact_fc_to_full_fc"
    kinds = {}      # buffer -> "zeros" | "uninitialised" | ...
    calls = []

    def alloc(kind):
        def hook(ex, st, args, kwargs):
            o = Opaque("numpy." + kind)
            kinds[o.buf] = kind
            return o
        return hook

    def dist(ex, st, args, kwargs):
        calls.append((list(args), dict(kwargs), list(getattr(ex, "item_writes", []))))
        if args and isinstance(args[0], Opaque):
            st.writes.append((args[0].buf, None))
        return None
    hooks = {"numpy.zeros": alloc("zeros"), "numpy.empty": alloc("empty"), "numpy.zeros_like": alloc("zeros"), "numpy.empty_like": alloc("empty"),
             "numpy.ones": alloc("ones"), "numpy.full": alloc("full"),
             "distribute_force_constants_by_translations": dist}
    ex = _LoggingExec(mod, run.sink, pref, hooks=hooks, opaque_unknown=True, split=True)
    st = PState()
    P2S = Opaque("primitive.p2s_map")
    CFC = Opaque("compact_fc")
    prim = st.new(Record("Primitive", {"p2s_map": P2S}))
    n0 = len(run.sink.obls)
    outs = ex.call_function(st, fn, [prim, CFC], {"log_level": 0})
    rets = [(s2, v) for (s2, fl, v) in outs if fl == "return"]
    if not rets:
        raise CheckerError("compact_fc_to_full_fc: no returning path")
    for (s2, v) in rets:
        ok_call = len(calls) == 1 and len(calls[0][0]) >= 2
        arr = calls[0][0][0] if ok_call else None
        add = lambda goal, label: setattr(run.sink.add(pref, "call-pre", list(s2.pc), z3.BoolVal(bool(goal)), meta={"label": label}), "replay", replay_layout)
        add(ok_call, "distribute_force_constants_by_translations is called exactly once")
        add(ok_call and isinstance(arr, Opaque) and kinds.get(arr.buf) == "zeros",
            "the array the kernel accumulates into is a fresh numpy.zeros array (got: %s)" % (kinds.get(getattr(arr, "buf", None)),))
        w = [x for x in (calls[0][2] if ok_call else []) if isinstance(arr, Opaque) and x[0] == arr.buf]
        add(ok_call and len(w) == 1 and w[0][1] is P2S and w[0][2] is CFC,
            "its only earlier write is fc[primitive.p2s_map] = compact_fc (the representative rows)")
        add(ok_call and isinstance(calls[0][0][1], Ref) and calls[0][0][1].id == prim.id, "the primitive cell handed on is the caller's")
        ob = run.sink.add(pref, "post", list(s2.pc), z3.BoolVal(bool(ok_call and isinstance(v, Opaque) and isinstance(arr, Opaque) and v.buf == arr.buf)),
                          meta={"label": "the expanded array is returned"})
        ob.replay = replay_layout
    run.functions.append({"file": FF, "function": "compact_fc_to_full_fc", "line": fn.lineno, "sha1": mod.sha(fn), "obligations": len(run.sink.obls) - n0})

    # ---------------------------------------------------------------- distribute_force_constants_by_translations
    fn = mod.funcs["distribute_force_constants_by_translations"]
    pref = FF + ":distribute_force_constants_by_translations"
    dcalls = []
    PERM = Opaque("primitive.atomic_permutations")
    FC = Opaque("fc")

    def dfc(ex, st, args, kwargs):
        dcalls.append((list(args), dict(kwargs)))
        return None
    eye_calls = []

    def eye(ex, st, args, kwargs):
        o = Opaque("numpy.eye(%s)" % (args[0] if args else "?"))
        eye_calls.append((o, args[0] if args else None))
        return o
    ex = _LoggingExec(mod, run.sink, pref, hooks={"distribute_force_constants": dfc, "numpy.eye": eye}, opaque_unknown=True, split=True)
    st = PState()
    prim = st.new(Record("Primitive", {"p2s_map": P2S, "atomic_permutations": PERM, "cell": Opaque("primitive.cell"),
                                       "primitive_matrix": Opaque("primitive.primitive_matrix")}))
    n0 = len(run.sink.obls)
    outs = ex.call_function(st, fn, [FC, prim])
    if not outs:
        raise CheckerError("distribute_force_constants_by_translations: no path")
    for (s2, fl, v) in outs:
        ok = len(dcalls) == 1
        a = (dcalls[0][0] + [None] * 5)[:5] if ok else [None] * 5
        kw = dcalls[0][1] if ok else {}
        for goal, label in ((ok, "distribute_force_constants is called exactly once"),
                            (a[0] is FC, "it receives the caller's array"),
                            (a[1] is P2S, "atom_list_done is this primitive cell's p2s_map (the rows that are already filled)"),
                            (a[4] is PERM, "the permutations are this primitive cell's pure translations"),
                            (kw.get("atom_list") is None and len(dcalls[0][0] if ok else []) <= 5, "all supercell atoms are targets (atom_list not given)")):
            run.sink.add(pref, "call-pre", list(s2.pc), z3.BoolVal(bool(goal)), meta={"label": label})
    run.functions.append({"file": FF, "function": "distribute_force_constants_by_translations", "line": fn.lineno, "sha1": mod.sha(fn),
                          "obligations": len(run.sink.obls) - n0})
    run.abstracted += sorted(set(ex.abstracted))[:10]

    # ---------------------------------------------------------------- full -> compact
    fn = mod.funcs["full_fc_to_compact_fc"]
    pref = FF + ":full_fc_to_compact_fc"
    kinds.clear()
    FULL = Opaque("full_fc", idx=("base", "full_fc"))
    ex = _LoggingExec(mod, run.sink, pref, hooks={"numpy.zeros": alloc("zeros"), "numpy.empty": alloc("empty")}, opaque_unknown=True, split=True)
    st = PState()
    prim = st.new(Record("Primitive", {"p2s_map": P2S}))
    n0 = len(run.sink.obls)
    outs = ex.call_function(st, fn, [prim, FULL], {"log_level": 0})
    rets = [(s2, v) for (s2, fl, v) in outs if fl == "return"]
    if not rets:
        raise CheckerError("full_fc_to_compact_fc: no returning path")
    for (s2, v) in rets:
        take = ("take", ("base", "full_fc"), P2S.id)
        if isinstance(v, Opaque) and v.idx == take:
            good = True                      # returned full_fc[p2s_map] itself (fancy indexing copies)
        else:
            w = [x for x in getattr(ex, "item_writes", []) if isinstance(v, Opaque) and x[0] == v.buf]
            whole = len(w) == 1 and (w[0][1] == slice(None, None, None) or w[0][1] is Ellipsis)
            good = isinstance(v, Opaque) and v.buf in kinds and whole and isinstance(w[0][2], Opaque) and w[0][2].idx == take
        run.sink.add(pref, "post", list(s2.pc), z3.BoolVal(bool(good)),
                     meta={"label": "the compact array is full_fc[p2s_map]: all of it assigned, rows of the representatives in p2s order"}).replay = replay_layout
    run.functions.append({"file": FF, "function": "full_fc_to_compact_fc", "line": fn.lineno, "sha1": mod.sha(fn), "obligations": len(run.sink.obls) - n0})


def replay_layout(model):
    """real compact_fc_to_full_fc / full_fc_to_compact_fc with a numpy stand-in that implements the proved contract of the
    distribute_fc2 kernel (row += representative row moved by the pure translation); the heap is dirtied first, and the
    conversions are repeated, so that an uninitialised accumulator shows."""
    import json
    from pvc import creplay
    code = r'''
import json
import numpy as np
import phonopy.harmonic.force_constants as F
rng = np.random.default_rng(5)
class Prim: pass
worst = 0.0; info = None
for (n_p, n_t) in ((1, 2), (2, 3), (2, 4)):
    n_s = n_p * n_t
    # atoms: index = t * n_p + p ; pure translations form the cyclic group Z_{n_t}
    perms = np.array([[((t + g) % n_t) * n_p + p for t in range(n_t) for p in range(n_p)] for g in range(n_t)], dtype="intc")
    prim = Prim(); prim.p2s_map = np.arange(n_p, dtype="int64"); prim.atomic_permutations = perms
    prim.cell = np.eye(3); prim.primitive_matrix = np.eye(3)
    def distribute_force_constants(fc, atom_list_done, lattice, rotations, permutations, atom_list=None, fc_indices_of_atom_list=None):
        # contract of the C kernel for identity rotations: fc[i, j] += fc[rep, perm_g(j)] with perm_g(i) = rep in atom_list_done
        done = set(int(a) for a in atom_list_done)
        for i in range(fc.shape[0]):
            if i in done:
                continue
            g = next(k for k in range(len(permutations)) if int(permutations[k][i]) in done)
            rep = int(permutations[g][i])
            fc[i] += fc[rep][permutations[g]]
    F.distribute_force_constants = distribute_force_constants
    for rep_ in range(4):
        junk = [np.full((n_s, n_s, 3, 3), 7.5) for _ in range(3)]; del junk        # dirty, then free, same-size heap blocks
        cfc = rng.normal(size=(n_p, n_s, 3, 3))
        full = F.compact_fc_to_full_fc(prim, cfc.copy())
        want = np.zeros((n_s, n_s, 3, 3))
        for i in range(n_s):
            g = next(k for k in range(n_t) if perms[k][i] < n_p)
            want[i] = cfc[perms[g][i]][perms[g]]
        back = F.full_fc_to_compact_fc(prim, full)
        dev = max(float(np.nan_to_num(np.abs(full - want), nan=1e9).max()), float(np.nan_to_num(np.abs(back - cfc), nan=1e9).max()))
        if dev > worst:
            worst, info = dev, {"n_prim": n_p, "n_translations": n_t, "repetition": rep_}
print(json.dumps({"max_abs_dev": worst, "case": info}))
'''
    rc, out, err = creplay.py_eval(code)
    if rc != 0:
        return {"reproduced": False, "reason": err[-500:]}
    r = json.loads(out.strip().splitlines()[-1])
    return {"reproduced": r["max_abs_dev"] > 1e-9, "input": r["case"], "real_code": r,
            "expected": "compact -> full == translated copies of the representative rows; full -> compact -> the rows given"}


AF = "phonopy/api_phonopy.py"


def space_group_symmetrizer_call(run):
    """Phonopy.symmetrize_force_constants_by_space_group -> set_tensor_symmetry_PJ: the callee forms the Cartesian rotations as
    L r L^-1, which is the Cartesian representation of r only for L with the basis vectors as COLUMNS; the call site must pass
    the transpose of the supercell's row-vector cell, this object's force constants, the supercell positions and symmetry."""
    mod = pyexec.load(AF)
    m = mod.method("Phonopy", "symmetrize_force_constants_by_space_group")
    pref = AF + ":Phonopy.symmetrize_force_constants_by_space_group"
    calls = []
    FC, SYM = Opaque("self._force_constants"), Opaque("self._symmetry")
    POS = Opaque("supercell.scaled_positions", idx=("base", "positions"))
    CELL = Opaque("supercell.cell (rows = basis vectors)", idx=("base", "cell"))

    def pj(ex, st, args, kwargs):
        calls.append((list(args), dict(kwargs)))
        if args and isinstance(args[0], Opaque):
            st.writes.append((args[0].buf, None))
        return None
    hooks = {"set_tensor_symmetry_PJ": pj, "show_drift_force_constants": lambda ex, st, a, k: None,
             "Phonopy._set_dynamical_matrix": lambda ex, st, a, k: None}
    ex = PyExec(mod, run.sink, pref, hooks=hooks, opaque_unknown=True, split=True)
    st = PState()
    sc = st.new(Record("Supercell", {"cell": CELL, "scaled_positions": POS}))
    prim = st.new(Record("Primitive", {"masses": Opaque("masses")}))
    self_ref = st.new(Record("Phonopy", {"_force_constants": FC, "_supercell": sc, "_symmetry": SYM, "_primitive": prim, "_log_level": 0}))
    n0 = len(run.sink.obls)
    outs = ex.call_function(st, m, [], {"show_drift": False}, self_ref=self_ref, cls="Phonopy")
    if not outs:
        raise CheckerError("symmetrize_force_constants_by_space_group: no path")
    for (s2, fl, v) in outs:
        ok = len(calls) == 1
        names = ("force_constants", "lattice", "positions", "symmetry")
        a = dict(zip(names, calls[0][0])) if ok else {}
        if ok:
            a.update(calls[0][1])
        lat = a.get("lattice")
        for goal, label in ((ok, "set_tensor_symmetry_PJ is called exactly once"),
                            (a.get("force_constants") is FC, "it symmetrises this object's force constants in place"),
                            (isinstance(lat, Opaque) and lat.idx == ("T", ("base", "cell")),
                             "the lattice handed over is the transpose of the supercell's row-vector cell (column vectors, as L r L^-1 needs)"),
                            (isinstance(a.get("positions"), Opaque) and a.get("positions").idx == ("base", "positions"),
                             "positions are the supercell's scaled positions (same order; a copy is fine)"),
                            (a.get("symmetry") is SYM, "the symmetry is the supercell symmetry of this object")):
            run.sink.add(pref, "call-pre", list(s2.pc), z3.BoolVal(bool(goal)), meta={"label": label}).replay = replay_space_group
    run.functions.append({"file": AF, "function": "Phonopy.symmetrize_force_constants_by_space_group", "line": m.lineno, "sha1": mod.sha(m),
                          "obligations": len(run.sink.obls) - n0})
    run.abstracted += sorted(set(ex.abstracted))[:10]


def replay_space_group(model):
    """real method on a __new__-built Phonopy with a hexagonal (non-symmetric) cell matrix; set_tensor_symmetry_PJ intercepted:
    does it receive column vectors?"""
    import json
    from pvc import creplay
    code = r'''
import json
import numpy as np
import phonopy.api_phonopy as api
got = {}
def fake(fc, lattice, positions, symmetry):
    got["lattice"] = np.array(lattice).tolist()
api.set_tensor_symmetry_PJ = fake
class SC:
    cell = np.array([[3.0, 0.0, 0.0], [-1.5, 2.598076211353316, 0.0], [0.0, 0.0, 5.0]])
    scaled_positions = np.zeros((1, 3))
class PR:
    masses = None
ph = api.Phonopy.__new__(api.Phonopy)
ph._force_constants = np.zeros((1, 1, 3, 3)); ph._supercell = SC(); ph._symmetry = None; ph._primitive = PR(); ph._log_level = 0
ph.symmetrize_force_constants_by_space_group(show_drift=False)
print(json.dumps({"lattice_received": got.get("lattice"), "columns_expected": SC.cell.T.tolist()}))
'''
    rc, out, err = creplay.py_eval(code)
    if rc != 0:
        return {"reproduced": False, "reason": err[-400:]}
    r = json.loads(out.strip().splitlines()[-1])
    import numpy as np
    bad = r["lattice_received"] is None or not np.allclose(np.array(r["lattice_received"]), np.array(r["columns_expected"]))
    return {"reproduced": bool(bad), "input": {"cell": "hexagonal a=3, c=5 (rows)"}, "real_code": r,
            "expected": "set_tensor_symmetry_PJ receives the basis vectors as columns"}


def tensor_symmetry_cartesian_rotations(run):
    """set_tensor_symmetry_PJ: the matrices it conjugates the force-constant blocks with are, for a generic integer operation r
    and a generic non-singular L, R^T with R L == L r -- the Cartesian representation of r for L holding the basis vectors as
    columns (this is the callee-side half of the call-site clause above), and the inverse it pairs them with is their inverse."""
    from pvc.pyexec import NDArr, PList, Hooked
    mod = pyexec.load(FF)
    fn = mod.funcs["set_tensor_symmetry_PJ"]
    pref = FF + ":set_tensor_symmetry_PJ"
    st = PState()
    r = st.new(NDArr((3, 3), [z3.Int("r_%d%d" % (i, j)) for i in range(3) for j in range(3)], "int"))
    L = st.new(NDArr((3, 3), [z3.Real("L_%d%d" % (i, j)) for i in range(3) for j in range(3)]))
    rv, Lv = list(st.heap[r.id].flat), list(st.heap[L.id].flat)
    rots = st.new(PList([r]))
    ops = {"rotations": rots, "translations": Opaque("translations")}
    sym = st.new(Record("Symmetry", {"get_symmetry_operations": Hooked(lambda ex, st_, a, k: ops), "tolerance": z3.Real("symprec")}))
    seen = []

    def nparray(ex, st_, args, kwargs):
        a = args[0]
        if isinstance(a, Ref) and isinstance(st_.heap[a.id], PList):
            items = st_.heap[a.id].items
            if items and all(isinstance(x, Ref) and isinstance(st_.heap[x.id], NDArr) and st_.heap[x.id].shape == (3, 3) for x in items):
                flat = []
                for x in items:
                    flat += list(st_.heap[x.id].flat)
                out = st_.new(NDArr((len(items), 3, 3), flat))
                seen.append(out)
                return out
        return Opaque("numpy.array of abstracted data")
    hooks = {"_get_atom_indices_by_symmetry": lambda ex, st_, a, k: Opaque("mapa"), "numpy.array": nparray,
             "numpy.transpose": lambda ex, st_, a, k: Opaque("transposed sum"), "numpy.average": lambda ex, st_, a, k: Opaque("average")}
    ex = PyExec(mod, run.sink, pref, hooks=hooks, opaque_unknown=True, split=True)
    d = Lv[0] * (Lv[4] * Lv[8] - Lv[5] * Lv[7]) - Lv[1] * (Lv[3] * Lv[8] - Lv[5] * Lv[6]) + Lv[2] * (Lv[3] * Lv[7] - Lv[4] * Lv[6])
    dr = rv[0] * (rv[4] * rv[8] - rv[5] * rv[7]) - rv[1] * (rv[3] * rv[8] - rv[5] * rv[6]) + rv[2] * (rv[3] * rv[7] - rv[4] * rv[6])
    st.pc += [d != 0, z3.Or(dr == 1, dr == -1)]
    n0 = len(run.sink.obls)
    outs = ex.call_function(st, fn, [Opaque("force_constants"), L, Opaque("positions"), sym])
    if not outs or len(seen) < 2:
        raise CheckerError("set_tensor_symmetry_PJ: Cartesian rotations were not built as arrays of 3x3 matrices (%d seen)" % len(seen))
    s2 = outs[0][0]
    C = [pyexec.num(v) for v in s2.heap[seen[0].id].flat]          # cart_rot[0]
    Ci = [pyexec.num(v) for v in s2.heap[seen[1].id].flat]         # cart_rot_inv[0]
    rr = [z3.ToReal(v) for v in rv]
    for i in range(3):
        for j in range(3):
            lhs = sum(C[k * 3 + i] * Lv[k * 3 + j] for k in range(3))            # (C^T L)[i][j]
            rhs = sum(Lv[i * 3 + k] * rr[k * 3 + j] for k in range(3))           # (L r)[i][j]
            ob = run.sink.add(pref, "post", list(s2.pc), lhs == rhs, meta={"label": "cart_rot^T L == L r, element [%d][%d] (L = column vectors)" % (i, j)})
            ob.backend = "poly"
    for i in range(3):
        for j in range(3):
            lhs = sum(C[i * 3 + k] * Ci[k * 3 + j] for k in range(3))
            ob = run.sink.add(pref, "post", list(s2.pc), lhs == (1 if i == j else 0), meta={"label": "cart_rot . cart_rot_inv == I, element [%d][%d]" % (i, j)})
            ob.backend = "poly"
    run.functions.append({"file": FF, "function": "set_tensor_symmetry_PJ[Cartesian rotations]", "line": fn.lineno, "sha1": mod.sha(fn),
                          "obligations": len(run.sink.obls) - n0})
    run.abstracted += sorted(set(ex.abstracted))[:10]
