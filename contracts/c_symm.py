"""Contracts for the force-constant symmetrisers of c/phonopy.c (C07)."""
import z3

from pvc.core import Contract, LoopSpec
from pvc.spec import RecSum

F = "c/phonopy.c"
NSYM = z3.Int("n_sym")
p_, q_, a_, b_ = z3.Ints("p_ q_ a_ b_")
I = z3.IntSort()


def _rng4(n, m):
    return z3.And(p_ >= 0, p_ < n, q_ >= 0, q_ < m, a_ >= 0, a_ < 3, b_ >= 0, b_ < 3)


# ---------------------------------------------------------------- full layout: index permutation
def index_permutation_full_contract():
    def sym(old, p, q, a, b):
        return (old[p, q, a, b] + old[q, p, b, a]) / 2

    def lo(p, q):
        return z3.If(p <= q, p, q)

    def hi(p, q):
        return z3.If(p <= q, q, p)

    def inv_i(V):
        n, i = V.p.natom, V.v.i
        fc, old = V.a.fc, V.old.a.fc
        return [("range", z3.And(i >= 0, i <= n)),
                ("cells", z3.ForAll([p_, q_, a_, b_], z3.Implies(_rng4(n, n), fc[p_, q_, a_, b_] == z3.If(
                    lo(p_, q_) < i, sym(old, p_, q_, a_, b_), old[p_, q_, a_, b_]))))]

    def inv_j(V):
        n, i, j = V.p.natom, V.v.i, V.v.j
        fc, old = V.a.fc, V.old.a.fc
        done = z3.Or(lo(p_, q_) < i, z3.And(lo(p_, q_) == i, p_ != q_, hi(p_, q_) < j))
        return [("range", z3.And(i >= 0, i < n, j >= i + 1, j <= z3.If(n >= i + 1, n, i + 1))),
                ("cells", z3.ForAll([p_, q_, a_, b_], z3.Implies(_rng4(n, n), fc[p_, q_, a_, b_] == z3.If(
                    done, sym(old, p_, q_, a_, b_), old[p_, q_, a_, b_]))))]

    def ens(V):
        n = V.p.natom
        fc, old = V.a.fc, V.old.a.fc
        return [("symmetrised", z3.ForAll([p_, q_, a_, b_], z3.Implies(_rng4(n, n), fc[p_, q_, a_, b_] == sym(old, p_, q_, a_, b_)))),
                ("index symmetry", z3.ForAll([p_, q_, a_, b_], z3.Implies(_rng4(n, n), fc[p_, q_, a_, b_] == fc[q_, p_, b_, a_])))]

    def gen(rnd):
        import numpy as np
        n = rnd.randint(0, 3)
        return {"fc": np.array([rnd.uniform(-1, 1) for _ in range(n * n * 9)]).reshape(n, n, 3, 3), "natom": n}
    return Contract(F, "set_index_permutation_symmetry_fc", shapes={"fc": lambda P: [P.natom, P.natom, 3, 3]},
                    requires=lambda V: [V.p.natom >= 0], ensures=ens, modifies=("fc",),
                    loops={0: LoopSpec(inv_i), 1: LoopSpec(inv_j)}, gen=gen)


# ---------------------------------------------------------------- full layout: translational invariance
def translational_full_contract():
    def S(V):
        old = V.old.a.fc
        return RecSum("rowsum_offdiag", [I, I, I], lambda i, k, l, j: z3.If(j != i, old[i, j, k, l], z3.RealVal(0)))

    def offdiag_unchanged(V, upto):
        n = V.p.natom
        fc, old = V.a.fc, V.old.a.fc
        return z3.ForAll([p_, q_, a_, b_], z3.Implies(_rng4(n, n), fc[p_, q_, a_, b_] == z3.If(
            z3.And(p_ == q_, p_ < upto), -(S(V)(p_, a_, b_, n) + S(V)(p_, b_, a_, n)) / 2, old[p_, q_, a_, b_])))

    def inv_i(V):
        n, i = V.p.natom, V.v.i
        return [("range", z3.And(i >= 0, i <= n)), ("cells", offdiag_unchanged(V, i))]

    def inv_j(V):
        # innermost accumulation loop (k, l concrete after unrolling)
        n, i, j = V.p.natom, V.v.i, V.v.j
        k, l = z3.simplify(V.v.k), z3.simplify(V.v.l)
        out = [("range", z3.And(i >= 0, i < n, j >= 0, j <= n)), ("cells", offdiag_unchanged(V, i)),
               ("partial", V.a.sums[k, l] == S(V)(i, k, l, j))]
        # sums of the (k', l') already completed in this i iteration
        kk, ll = k.as_long(), l.as_long()
        for k2 in range(3):
            for l2 in range(3):
                if (k2, l2) < (kk, ll):
                    out.append(("done[%d,%d]" % (k2, l2), V.a.sums[k2, l2] == S(V)(i, k2, l2, n)))
        return out

    def define_j(V):
        n, i, j = V.p.natom, V.v.i, V.v.j
        return {"m": i * n * 9 + V.v.k * 3 + V.v.l + 9 * j}

    def unfold_j(V):
        i, j = V.v.i, V.v.j
        Sf = S(V)
        out = []
        for k2 in range(3):
            for l2 in range(3):
                out += [Sf.zero(i, k2, l2), Sf.unfold(i, k2, l2, j), Sf.unfold(i, k2, l2, j - 1)]
        return out

    def ens(V):
        n = V.p.natom
        fc, old = V.a.fc, V.old.a.fc
        Sf = S(V)
        return [("result", z3.ForAll([p_, q_, a_, b_], z3.Implies(_rng4(n, n), fc[p_, q_, a_, b_] == z3.If(
            p_ == q_, -(Sf(p_, a_, b_, n) + Sf(p_, b_, a_, n)) / 2, old[p_, q_, a_, b_])))),
                ("diagonal blocks symmetric", z3.ForAll([p_, a_, b_], z3.Implies(
                    z3.And(p_ >= 0, p_ < n, a_ >= 0, a_ < 3, b_ >= 0, b_ < 3), fc[p_, p_, a_, b_] == fc[p_, p_, b_, a_])))]

    def gen(rnd):
        import numpy as np
        n = rnd.randint(0, 3)
        return {"fc": np.array([rnd.uniform(-1, 1) for _ in range(n * n * 9)]).reshape(n, n, 3, 3), "natom": n}

    def interp(h, ev, env):
        from pvc.ceval import recsum_callable
        Sf = S(h.Vpost)
        return {Sf.key: recsum_callable(ev, Sf)}
    return Contract(F, "set_translational_symmetry_fc", shapes={"fc": lambda P: [P.natom, P.natom, 3, 3]},
                    requires=lambda V: [V.p.natom >= 0], ensures=ens, modifies=("fc",),
                    loops={0: LoopSpec(inv_i), 3: LoopSpec(inv_j, unfold=unfold_j, define=define_j)}, gen=gen, interp=interp)


# ---------------------------------------------------------------- compact layout: index permutation / transpose
def _tab(arr, n, lo, hi):
    k = z3.Int("k_")
    return z3.ForAll([k], z3.Implies(z3.And(k >= 0, k < n), z3.And(arr[k] >= lo, arr[k] < hi)))


def compact_index_permutation_contract(finding_known, transpose):
    """One (j, i_p) step of phpy_set_index_permutation_symmetry_compact_fc on a not-yet-done pair: the blocks
    (i_p, j) and tau(i_p, j) = (s2pp[j], perms[nsym_list[j]][p2s[i_p]]) must be exchanged and transposed
    (is_transpose) resp. both set to the mean of one and the transpose of the other -- which is what the
    full-layout operation does on the expanded array."""
    def req(V):
        np_, ns = V.p.n_patom, V.p.n_satom
        kk, tt = z3.Ints("kk tt")
        return [np_ >= 1, ns >= 1, NSYM >= 1, _tab(V.a.p2s, np_, 0, ns), _tab(V.a.s2pp, ns, 0, np_), _tab(V.a.nsym_list, ns, 0, NSYM),
                z3.ForAll([tt, kk], z3.Implies(z3.And(tt >= 0, tt < NSYM, kk >= 0, kk < ns),
                                               z3.And(V.a.perms[tt, kk] >= 0, V.a.perms[tt, kk] < ns))),
                # from get_nsym_list_and_s2pp: perms[nsym_list[j]][j] == s2p[j], s2pp == p2p[s2p]; for a primitive atom j = p2s[a]:
                z3.ForAll([kk], z3.Implies(z3.And(kk >= 0, kk < np_), z3.And(
                    V.a.s2pp[V.a.p2s[kk]] == kk, V.a.perms[V.a.nsym_list[V.a.p2s[kk]], V.a.p2s[kk]] == V.a.p2s[kk])))]

    def inv_j(V):
        return [("range", z3.And(V.v.j >= 0, V.v.j <= V.p.n_satom))]

    def inv_ip(V):
        return [("range", z3.And(V.v.i_p >= 0, V.v.i_p <= V.p.n_patom, V.v.j >= 0, V.v.j < V.p.n_satom))]

    def capture(ex, Vh, Vx):
        # only the path that entered the `!done` branch
        ip, j = Vh.v.i_p, Vh.v.j
        done_before = Vh.a.done[ip, j]
        fc0, fc1 = Vh.a.fc, Vx.a.fc
        jp = Vh.a.s2pp[j]
        it = Vh.a.perms[Vh.a.nsym_list[j], Vh.a.p2s[ip]]
        hy = [done_before == 0]
        for k in range(3):
            for l in range(3):
                if transpose:
                    goal = z3.And(fc1[ip, j, k, l] == fc0[jp, it, l, k], fc1[jp, it, l, k] == fc0[ip, j, k, l])
                    lab = "step: blocks (i_p,j) and tau(i_p,j) exchanged and transposed [%d,%d]" % (k, l)
                else:
                    mean = (fc0[ip, j, k, l] + fc0[jp, it, l, k]) / 2
                    goal = z3.And(fc1[ip, j, k, l] == mean, fc1[jp, it, l, k] == mean)
                    lab = "step: blocks (i_p,j) and tau(i_p,j)^T both set to their mean [%d,%d]" % (k, l)
                for case, cond in (("distinct blocks", z3.Or(jp != ip, it != j)), ("self-paired block", z3.And(jp == ip, it == j))):
                    ob = ex.custom(Vx, "step", lab + " (" + case + ")", goal, hyps=hy + [cond])
                    ob.meta["witness"] = {"i_p": ip, "j": j, "j_p": jp, "i_trans": it}
                    ob.meta["finding_candidate"] = "E2"
    def replay_ens(V):
        # function level (the statement's "act exactly as the full-layout ones do on the expanded array")
        n_p, n_s = V.p.n_patom, V.p.n_satom
        fc1, fc0 = V.a.fc, V.old.a.fc
        jp = V.old.a.s2pp[q_]
        it = V.old.a.perms[V.old.a.nsym_list[q_], V.old.a.p2s[p_]]
        if transpose:
            body = fc1[p_, q_, a_, b_] == fc0[jp, it, b_, a_]
        else:
            body = fc1[p_, q_, a_, b_] == (fc0[p_, q_, a_, b_] + fc0[jp, it, b_, a_]) / 2
        return [("compact == full on the expanded array", z3.ForAll([p_, q_, a_, b_], z3.Implies(_rng4(n_p, n_s), body)))]

    def gen(rnd):
        import numpy as np
        n_p, N = rnd.randint(1, 2), rnd.randint(1, 4)
        n_s = n_p * N
        p2s = [a * N for a in range(n_p)]
        s2pp = [s // N for s in range(n_s)]
        perms = [[(s // N) * N + ((s % N) + t) % N for s in range(n_s)] for t in range(N)]
        nsym = [(-(s % N)) % N for s in range(n_s)]
        return {"fc": np.array([rnd.uniform(-1, 1) for _ in range(n_p * n_s * 9)]).reshape(n_p, n_s, 3, 3),
                "p2s": np.array(p2s), "s2pp": np.array(s2pp), "nsym_list": np.array(nsym), "perms": np.array(perms).reshape(N, n_s),
                "n_satom": n_s, "n_patom": n_p, "is_transpose": 1 if transpose else 0, "n_sym": N}
    return Contract(F, "phpy_set_index_permutation_symmetry_compact_fc", fixed={"is_transpose": 1 if transpose else 0},
                    replay_ensures=replay_ens, gen=gen,
                    tag="[is_transpose=%d]" % (1 if transpose else 0),
                    shapes={"fc": lambda P: [P.n_patom, P.n_satom, 3, 3], "p2s": lambda P: [P.n_patom], "s2pp": lambda P: [P.n_satom],
                            "nsym_list": lambda P: [P.n_satom], "perms": lambda P: [NSYM, P.n_satom]},
                    local_shapes={"done": lambda V: [V.p.n_patom, V.p.n_satom]},
                    requires=req, modifies=("fc",),
                    loops={0: LoopSpec(fill=True), 1: LoopSpec(inv_j), 2: LoopSpec(inv_ip, capture=capture)})


# ---------------------------------------------------------------- compact layout: translational invariance
def translational_compact_contract():
    def S(V):
        old, p2s = V.old.a.fc, V.old.a.p2s
        return RecSum("rowsum_offdiag_c", [I, I, I], lambda a, k, l, j: z3.If(p2s[a] != j, old[a, j, k, l], z3.RealVal(0)))

    def cells(V, upto):
        n_p, n_s = V.p.n_patom, V.p.n_satom
        fc, old, p2s = V.a.fc, V.old.a.fc, V.old.a.p2s
        Sf = S(V)
        return z3.ForAll([p_, q_, a_, b_], z3.Implies(_rng4(n_p, n_s), fc[p_, q_, a_, b_] == z3.If(
            z3.And(q_ == p2s[p_], p_ < upto), -(Sf(p_, a_, b_, n_s) + Sf(p_, b_, a_, n_s)) / 2, old[p_, q_, a_, b_])))

    def inv_i(V):
        return [("range", z3.And(V.v.i_p >= 0, V.v.i_p <= V.p.n_patom)), ("cells", cells(V, V.v.i_p))]

    def inv_j(V):
        n_s, ip, j = V.p.n_satom, V.v.i_p, V.v.j
        k, l = z3.simplify(V.v.k), z3.simplify(V.v.l)
        Sf = S(V)
        out = [("range", z3.And(ip >= 0, ip < V.p.n_patom, j >= 0, j <= n_s)), ("cells", cells(V, ip)),
               ("partial", V.a.sums[k, l] == Sf(ip, k, l, j))]
        kk, ll = k.as_long(), l.as_long()
        for k2 in range(3):
            for l2 in range(3):
                if (k2, l2) < (kk, ll):
                    out.append(("done[%d,%d]" % (k2, l2), V.a.sums[k2, l2] == Sf(ip, k2, l2, n_s)))
        return out

    def define_j(V):
        return {"m": V.v.i_p * V.p.n_satom * 9 + V.v.k * 3 + V.v.l + 9 * V.v.j}

    def unfold_j(V):
        Sf = S(V)
        out = []
        for k2 in range(3):
            for l2 in range(3):
                out += [Sf.zero(V.v.i_p, k2, l2), Sf.unfold(V.v.i_p, k2, l2, V.v.j), Sf.unfold(V.v.i_p, k2, l2, V.v.j - 1)]
        return out

    def ens(V):
        n_p, n_s = V.p.n_patom, V.p.n_satom
        return [("result", cells(V, n_p))]

    def gen(rnd):
        import numpy as np
        n_p, N = rnd.randint(1, 3), rnd.randint(1, 3)
        n_s = n_p * N
        return {"fc": np.array([rnd.uniform(-1, 1) for _ in range(n_p * n_s * 9)]).reshape(n_p, n_s, 3, 3),
                "p2s": np.array([a * N for a in range(n_p)]), "n_satom": n_s, "n_patom": n_p}

    def interp(h, ev, env):
        from pvc.ceval import recsum_callable
        Sf = S(h.Vpost)
        return {Sf.key: recsum_callable(ev, Sf)}
    return Contract(F, "set_translational_symmetry_compact_fc",
                    shapes={"fc": lambda P: [P.n_patom, P.n_satom, 3, 3], "p2s": lambda P: [P.n_patom]},
                    requires=lambda V: [V.p.n_patom >= 0, V.p.n_satom >= 0, _tab(V.a.p2s, V.p.n_patom, 0, V.p.n_satom)],
                    ensures=ens, modifies=("fc",),
                    loops={0: LoopSpec(inv_i), 3: LoopSpec(inv_j, unfold=unfold_j, define=define_j)}, gen=gen, interp=interp)


# ---------------------------------------------------------------- full layout: perm + trans symmetriser (sweeps)
def perm_trans_full_contract(index_perm, trans):
    """phpy_perm_trans_symmetrize_fc: every iteration subtracts the column drift (mean over the first atom index) of
    each tensor component from that component, then the row drift, then symmetrises the index permutation;
    finally the translational sum rule is imposed on the diagonal blocks."""
    def Csum(A):
        return RecSum("colsum", [I, I, I], lambda j, k, l, i: A[i, j, k, l])

    def Rsum(B):
        return RecSum("rowsum", [I, I, I], lambda i, k, l, j: B[i, j, k, l])

    def nreal(V):
        return z3.ToReal(V.p.n_satom)

    def kl(V):
        return z3.simplify(V.v.k), z3.simplify(V.v.l)

    def inv_iter(V):
        return [("range", z3.And(V.v.iter >= 0, V.v.iter <= z3.If(V.p.level >= 0, V.p.level, 0)))]

    # ---- column sweep
    def inv_col_j(V):
        n = V.p.n_satom
        A = V.pre.a.fc
        C = Csum(A)
        return [("range", z3.And(V.v.j >= 0, V.v.j <= n)),
                ("cells", z3.ForAll([p_, q_, a_, b_], z3.Implies(_rng4(n, n), V.a.fc[p_, q_, a_, b_] == z3.If(
                    q_ < V.v.j, A[p_, q_, a_, b_] - C(q_, a_, b_, n) / nreal(V), A[p_, q_, a_, b_]))))]

    def inv_col_sum(V):
        n = V.p.n_satom
        A = V.pre.outer[-1].a.fc
        k, l = kl(V)
        return [("range", z3.And(V.v.i >= 0, V.v.i <= n, V.v.j >= 0, V.v.j < n)), ("partial", V.v.sum == Csum(A)(V.v.j, k, l, V.v.i))]

    def unfold_col_sum(V):
        A = V.pre.outer[-1].a.fc
        k, l = kl(V)
        C = Csum(A)
        return [C.zero(V.v.j, k, l), C.unfold(V.v.j, k, l, V.v.i), C.unfold(V.v.j, k, l, V.v.i - 1)]

    def inv_col_sub(V):
        n = V.p.n_satom
        P5 = V.pre.a.fc
        k, l = kl(V)
        return [("range", z3.And(V.v.i >= 0, V.v.i <= n, V.v.j >= 0, V.v.j < n)),
                ("cells", z3.ForAll([p_, q_, a_, b_], z3.Implies(_rng4(n, n), V.a.fc[p_, q_, a_, b_] == z3.If(
                    z3.And(p_ < V.v.i, q_ == V.v.j, a_ == k, b_ == l), P5[p_, q_, a_, b_] - V.v.sum, P5[p_, q_, a_, b_]))))]

    # ---- row sweep
    def inv_row_i(V):
        n = V.p.n_satom
        B = V.pre.a.fc
        R = Rsum(B)
        return [("range", z3.And(V.v.i >= 0, V.v.i <= n)),
                ("cells", z3.ForAll([p_, q_, a_, b_], z3.Implies(_rng4(n, n), V.a.fc[p_, q_, a_, b_] == z3.If(
                    p_ < V.v.i, B[p_, q_, a_, b_] - R(p_, a_, b_, n) / nreal(V), B[p_, q_, a_, b_]))))]

    def inv_row_sum(V):
        n = V.p.n_satom
        B = V.pre.outer[-1].a.fc
        k, l = kl(V)
        return [("range", z3.And(V.v.j >= 0, V.v.j <= n, V.v.i >= 0, V.v.i < n)), ("partial", V.v.sum == Rsum(B)(V.v.i, k, l, V.v.j))]

    def unfold_row_sum(V):
        B = V.pre.outer[-1].a.fc
        k, l = kl(V)
        R = Rsum(B)
        return [R.zero(V.v.i, k, l), R.unfold(V.v.i, k, l, V.v.j), R.unfold(V.v.i, k, l, V.v.j - 1)]

    def inv_row_sub(V):
        n = V.p.n_satom
        P10 = V.pre.a.fc
        k, l = kl(V)
        return [("range", z3.And(V.v.j >= 0, V.v.j <= n, V.v.i >= 0, V.v.i < n)),
                ("cells", z3.ForAll([p_, q_, a_, b_], z3.Implies(_rng4(n, n), V.a.fc[p_, q_, a_, b_] == z3.If(
                    z3.And(q_ < V.v.j, p_ == V.v.i, a_ == k, b_ == l), P10[p_, q_, a_, b_] - V.v.sum, P10[p_, q_, a_, b_]))))]

    def ens(V):
        n = V.p.n_satom
        fc = V.a.fc
        return [("diagonal blocks symmetric", z3.ForAll([p_, a_, b_], z3.Implies(
            z3.And(p_ >= 0, p_ < n, a_ >= 0, a_ < 3, b_ >= 0, b_ < 3), fc[p_, p_, a_, b_] == fc[p_, p_, b_, a_])))]

    def gen(rnd):
        import numpy as np
        n = rnd.randint(1, 3)
        return {"fc": np.array([rnd.uniform(-1, 1) for _ in range(n * n * 9)]).reshape(n, n, 3, 3), "n_satom": n, "level": rnd.randint(0, 2)}
    def replay_py(env):
        """numpy transcription of the documented scheme (replay only)"""
        import numpy as np
        f = np.array(env["fc"], dtype=float)
        n = f.shape[0]
        for _ in range(env["level"]):
            f = f - f.sum(axis=0, keepdims=True) / n
            f = f - f.sum(axis=1, keepdims=True) / n
            f = (f + f.transpose(1, 0, 3, 2)) / 2
        g = f.copy()
        for i in range(n):
            s_ = sum(f[i, j] for j in range(n) if j != i) if n > 1 else np.zeros((3, 3))
            g[i, i] = -(s_ + s_.T) / 2
        return [] if np.allclose(env["fc__post"], g, atol=1e-10) else ["output == Trans(Sym(Row(Col(fc)))^level)"]
    return Contract(F, "phpy_perm_trans_symmetrize_fc", shapes={"fc": lambda P: [P.n_satom, P.n_satom, 3, 3]},
                    requires=lambda V: [V.p.n_satom >= 1], ensures=ens, modifies=("fc",), replay_py=replay_py,
                    loops={0: LoopSpec(inv_iter), 1: LoopSpec(inv_col_j), 4: LoopSpec(inv_col_sum, unfold=unfold_col_sum), 5: LoopSpec(inv_col_sub),
                           6: LoopSpec(inv_row_i), 9: LoopSpec(inv_row_sum, unfold=unfold_row_sum), 10: LoopSpec(inv_row_sub)},
                    use_contracts={"set_index_permutation_symmetry_fc", "set_translational_symmetry_fc"}, gen=gen)
