"""Contracts for c/derivative_dynmat.c (C12, C13)."""
import z3

from pvc.core import Contract, LoopSpec
from contracts.c_dynmat import FC0, NSV, PI

F = "c/derivative_dynmat.c"
a_, b_, d_ = z3.Ints("a_ b_ d_")

DDM_SHAPES = {
    "derivative_dynmat": lambda P: [3, 3 * P.num_patom, 3 * P.num_patom, 2],
    "fc": lambda P: [FC0, P.num_satom, 3, 3], "q": lambda P: [3], "lattice": lambda P: [3, 3], "reclat": lambda P: [3, 3],
    "svecs": lambda P: [NSV, 3], "multi": lambda P: [P.num_satom, P.num_patom, 2], "mass": lambda P: [P.num_patom],
    "s2p_map": lambda P: [P.num_satom], "p2s_map": lambda P: [P.num_patom], "born": lambda P: [P.num_patom, 3, 3],
    "dielectric": lambda P: [3, 3], "q_direction": lambda P: [3],
    "ddnac": lambda P: [3, P.num_patom, P.num_patom, 3, 3], "dnac": lambda P: [P.num_patom, P.num_patom, 3, 3],
}


def block_contract():
    """get_derivative_dynmat_at_q(i, j): only its frame matters for the Hermitian post-processing proved here;
    its functional contract (the q-derivative of the Fourier sum) is a separate obligation set."""
    return Contract(F, "get_derivative_dynmat_at_q", shapes=DDM_SHAPES, nullable=("ddnac", "dnac"), macros={"PI": PI},
                    requires=lambda V: [], ensures=lambda V: [], modifies=("derivative_dynmat",))


def nac_contract():
    return Contract(F, "get_derivative_nac", shapes=DDM_SHAPES, nullable=("q_direction",), requires=lambda V: [], ensures=lambda V: [],
                    modifies=("ddnac", "dnac"))


def hermitian_contract():
    """ddm_get_derivative_dynmat_at_q: each of the three Cartesian derivative matrices is Hermitian on return
    (the q-derivative of a Hermitian matrix is Hermitian)."""
    def herm(M0, dirn, a, b, c):
        return z3.If(c == 0, (M0[dirn, a, b, 0] + M0[dirn, b, a, 0]) / 2, (M0[dirn, a, b, 1] - M0[dirn, b, a, 1]) / 2)

    def proc(a, b, j0, j, k):
        """pair (a, b) has been symmetrised when the loops (j from j0; k from 0) stand at (j, k)"""
        return z3.Or(z3.And(a >= j0, z3.Or(a < j, z3.And(a == j, b < k))),
                     z3.And(b >= j0, z3.Or(b < j, z3.And(b == j, a < k))))

    def cells(V, j, k, Vj):
        """Vj: state at the entry of the j loop of this direction"""
        n3 = 3 * V.p.num_patom
        M, M0 = V.a.derivative_dynmat, Vj.a.derivative_dynmat
        d = z3.simplify(V.v.i)          # direction: concrete (outer loop unrolled)
        j0 = Vj.v.j
        out = []
        for c in (0, 1):
            out.append(("dir%s part%d" % (d, c), z3.ForAll([a_, b_], z3.Implies(
                z3.And(a_ >= 0, a_ < n3, b_ >= 0, b_ < n3),
                M[d, a_, b_, c] == z3.If(proc(a_, b_, j0, j, k), herm(M0, d, a_, b_, z3.IntVal(c)), M0[d, a_, b_, c])))))
        out.append(("other directions", z3.ForAll([d_, a_, b_], z3.Implies(
            z3.And(d_ >= 0, d_ < 3, d_ != d, a_ >= 0, a_ < n3, b_ >= 0, b_ < n3),
            z3.And(M[d_, a_, b_, 0] == M0[d_, a_, b_, 0], M[d_, a_, b_, 1] == M0[d_, a_, b_, 1])))))
        return out

    def inv_j(V):
        n3 = 3 * V.p.num_patom
        return [("range", z3.And(V.v.j >= V.pre.v.j, V.v.j <= z3.If(n3 >= V.pre.v.j, n3, V.pre.v.j), V.pre.v.j >= 0))] + cells(V, V.v.j, z3.IntVal(0), V.pre)

    def inv_k(V):
        n3 = 3 * V.p.num_patom
        Vj = V.pre.outer[-1]            # entry state of the enclosing j loop
        return [("range", z3.And(V.v.k >= 0, V.v.k <= n3, V.v.j >= Vj.v.j, V.v.j < n3, Vj.v.j >= 0))] + cells(V, V.v.j, V.v.k, Vj)

    def ens(V):
        n3 = 3 * V.p.num_patom
        M = V.a.derivative_dynmat
        return [("Hermitian for direction %d" % d, z3.ForAll([a_, b_], z3.Implies(
            z3.And(a_ >= 0, a_ < n3, b_ >= 0, b_ < n3),
            z3.And(M[d, a_, b_, 0] == M[d, b_, a_, 0], M[d, a_, b_, 1] == -M[d, b_, a_, 1])))) for d in range(3)]

    def gen(rnd):
        import numpy as np
        n_p, N = rnd.randint(1, 2), rnd.randint(1, 2)
        n_s = n_p * N
        multi = np.zeros((n_s, n_p, 2), dtype=np.int64)
        adr = 0
        for k in range(n_s):
            for i in range(n_p):
                m = rnd.randint(1, 2)
                multi[k, i] = (m, adr)
                adr += m
        return {"derivative_dynmat": np.zeros((3, 3 * n_p, 3 * n_p, 2)), "num_patom": n_p, "num_satom": n_s,
                "fc": np.array([rnd.uniform(-1, 1) for _ in range(n_s * n_s * 9)]).reshape(n_s, n_s, 3, 3),
                "q": np.array([rnd.uniform(-0.5, 0.5) for _ in range(3)]),
                "lattice": np.array([rnd.uniform(-3, 3) for _ in range(9)]).reshape(3, 3),
                "reclat": np.array([rnd.uniform(-1, 1) for _ in range(9)]).reshape(3, 3),
                "svecs": np.array([rnd.uniform(-1, 1) for _ in range(3 * max(adr, 1))]).reshape(max(adr, 1), 3), "multi": multi,
                "mass": np.array([rnd.uniform(1, 20) for _ in range(n_p)]),
                "s2p_map": np.array([(k // N) * N for k in range(n_s)]), "p2s_map": np.array([a * N for a in range(n_p)]),
                "nac_factor": 0.0, "born": None, "dielectric": None, "q_direction": None, "is_nac": 0, "use_openmp": 0,
                "fc_dim0": n_s, "n_svecs": max(adr, 1)}
    return Contract(F, "ddm_get_derivative_dynmat_at_q", shapes=DDM_SHAPES, nullable=("born", "dielectric", "q_direction"),
                    macros={"PI": PI}, requires=lambda V: [V.p.num_patom >= 1, V.p.num_satom >= 1],
                    ensures=ens, modifies=("derivative_dynmat",), auto_range=True,
                    loops={4: LoopSpec(inv_j), 5: LoopSpec(inv_k)},
                    local_shapes={"ddnac": lambda V: [3, V.p.num_patom, V.p.num_patom, 3, 3], "dnac": lambda V: [V.p.num_patom, V.p.num_patom, 3, 3]},
                    use_contracts={"get_derivative_dynmat_at_q", "get_derivative_nac"}, gen=gen, lib="derivative_dynmat")
