"""Contracts for c/derivative_dynmat.c (C12, C13)."""
import z3

from pvc.core import Contract, LoopSpec
from contracts import replay_dynmat as RD
from contracts.c_dynmat import FC0, NSV, PI

F = "c/derivative_dynmat.c"
a_, b_, d_ = z3.Ints("a_ b_ d_")

DDM_SHAPES = {
    "derivative_dynmat": lambda P: [3, 3 * P.num_patom, 3 * P.num_patom, 2],
    "fc": lambda P: [FC0, P.num_satom, 3, 3], "q": lambda P: [3], "lattice": lambda P: [3, 3], "reclat": lambda P: [3, 3],
    "svecs": lambda P: [NSV, 3], "multi": lambda P: [P.num_satom, P.num_patom, 2], "mass": lambda P: [P.num_patom],
    "s2p_map": lambda P: [P.num_satom], "p2s_map": lambda P: [P.num_patom], "born": lambda P: [P.num_patom, 3, 3],
    "dielectric": lambda P: [3, 3], "q_direction": lambda P: [3],
    "ddnac": lambda P: [3, P.num_patom, P.num_patom, 3, 3], "dnac": lambda P: [P.num_patom, P.num_patom, 3, 3],
}


def block_contract():
    """get_derivative_dynmat_at_q(i, j): only its frame matters for the Hermitian post-processing proved here;
    its functional contract (the q-derivative of the Fourier sum) is a separate obligation set."""
    return Contract(F, "get_derivative_dynmat_at_q", shapes=DDM_SHAPES, nullable=("ddnac", "dnac"), macros={"PI": PI},
                    requires=lambda V: [], ensures=lambda V: [], modifies=("derivative_dynmat",))


def nac_contract():
    return Contract(F, "get_derivative_nac", shapes=DDM_SHAPES, nullable=("q_direction",), requires=lambda V: [], ensures=lambda V: [],
                    modifies=("ddnac", "dnac"))


def hermitian_contract():
    """ddm_get_derivative_dynmat_at_q: each of the three Cartesian derivative matrices is Hermitian on return
    (the q-derivative of a Hermitian matrix is Hermitian)."""
    def herm(M0, dirn, a, b, c):
        return z3.If(c == 0, (M0[dirn, a, b, 0] + M0[dirn, b, a, 0]) / 2, (M0[dirn, a, b, 1] - M0[dirn, b, a, 1]) / 2)

    def proc(a, b, j0, j, k):
        """pair (a, b) has been symmetrised when the loops (j from j0; k from 0) stand at (j, k)"""
        return z3.Or(z3.And(a >= j0, z3.Or(a < j, z3.And(a == j, b < k))),
                     z3.And(b >= j0, z3.Or(b < j, z3.And(b == j, a < k))))

    def cells(V, j, k, Vj):
        """Vj: state at the entry of the j loop of this direction"""
        n3 = 3 * V.p.num_patom
        M, M0 = V.a.derivative_dynmat, Vj.a.derivative_dynmat
        d = z3.simplify(V.v.i)          # direction: concrete (outer loop unrolled)
        j0 = Vj.v.j
        out = []
        for c in (0, 1):
            out.append(("dir%s part%d" % (d, c), z3.ForAll([a_, b_], z3.Implies(
                z3.And(a_ >= 0, a_ < n3, b_ >= 0, b_ < n3),
                M[d, a_, b_, c] == z3.If(proc(a_, b_, j0, j, k), herm(M0, d, a_, b_, z3.IntVal(c)), M0[d, a_, b_, c])))))
        out.append(("other directions", z3.ForAll([d_, a_, b_], z3.Implies(
            z3.And(d_ >= 0, d_ < 3, d_ != d, a_ >= 0, a_ < n3, b_ >= 0, b_ < n3),
            z3.And(M[d_, a_, b_, 0] == M0[d_, a_, b_, 0], M[d_, a_, b_, 1] == M0[d_, a_, b_, 1])))))
        return out

    def inv_j(V):
        n3 = 3 * V.p.num_patom
        return [("range", z3.And(V.v.j >= V.pre.v.j, V.v.j <= z3.If(n3 >= V.pre.v.j, n3, V.pre.v.j), V.pre.v.j >= 0))] + cells(V, V.v.j, z3.IntVal(0), V.pre)

    def inv_k(V):
        n3 = 3 * V.p.num_patom
        Vj = V.pre.outer[-1]            # entry state of the enclosing j loop
        return [("range", z3.And(V.v.k >= 0, V.v.k <= n3, V.v.j >= Vj.v.j, V.v.j < n3, Vj.v.j >= 0))] + cells(V, V.v.j, V.v.k, Vj)

    def ens(V):
        n3 = 3 * V.p.num_patom
        M = V.a.derivative_dynmat
        return [("Hermitian for direction %d" % d, z3.ForAll([a_, b_], z3.Implies(
            z3.And(a_ >= 0, a_ < n3, b_ >= 0, b_ < n3),
            z3.And(M[d, a_, b_, 0] == M[d, b_, a_, 0], M[d, a_, b_, 1] == -M[d, b_, a_, 1])))) for d in range(3)]

    def gen(rnd):
        import numpy as np
        n_p, N = rnd.randint(1, 2), rnd.randint(1, 2)
        n_s = n_p * N
        multi = np.zeros((n_s, n_p, 2), dtype=np.int64)
        adr = 0
        for k in range(n_s):
            for i in range(n_p):
                m = rnd.randint(1, 2)
                multi[k, i] = (m, adr)
                adr += m
        return {"derivative_dynmat": np.zeros((3, 3 * n_p, 3 * n_p, 2)), "num_patom": n_p, "num_satom": n_s,
                "fc": np.array([rnd.uniform(-1, 1) for _ in range(n_s * n_s * 9)]).reshape(n_s, n_s, 3, 3),
                "q": np.array([rnd.uniform(-0.5, 0.5) for _ in range(3)]),
                "lattice": np.array([rnd.uniform(-3, 3) for _ in range(9)]).reshape(3, 3),
                "reclat": np.array([rnd.uniform(-1, 1) for _ in range(9)]).reshape(3, 3),
                "svecs": np.array([rnd.uniform(-1, 1) for _ in range(3 * max(adr, 1))]).reshape(max(adr, 1), 3), "multi": multi,
                "mass": np.array([rnd.uniform(1, 20) for _ in range(n_p)]),
                "s2p_map": np.array([(k // N) * N for k in range(n_s)]), "p2s_map": np.array([a * N for a in range(n_p)]),
                "nac_factor": 0.0, "born": None, "dielectric": None, "q_direction": None, "is_nac": 0, "use_openmp": 0,
                "fc_dim0": n_s, "n_svecs": max(adr, 1)}
    return Contract(F, "ddm_get_derivative_dynmat_at_q", shapes=DDM_SHAPES, nullable=("born", "dielectric", "q_direction"),
                    macros={"PI": PI}, requires=lambda V: [V.p.num_patom >= 1, V.p.num_satom >= 1],
                    ensures=ens, modifies=("derivative_dynmat",), auto_range=True,
                    loops={4: LoopSpec(inv_j), 5: LoopSpec(inv_k)},
                    local_shapes={"ddnac": lambda V: [3, V.p.num_patom, V.p.num_patom, 3, 3], "dnac": lambda V: [V.p.num_patom, V.p.num_patom, 3, 3]},
                    use_contracts={"get_derivative_dynmat_at_q", "get_derivative_nac"}, gen=gen, lib="derivative_dynmat")


# ------------------------------------------------------------------ NAC derivative helpers: get_A, get_dA, get_C, get_dC
def nac_scalar_lemmas(run):
    """get_dA(atom, cart_i, cart_j) == d/dq_j get_A(atom, cart_i, q) and get_dC(.., cart_k, q) == d/dq_k get_C(q),
    by mechanical differentiation of the extracted terms (get_C is the quadratic form q.eps.q, eps not assumed symmetric)."""
    import sympy as sp
    from pvc import cas
    terms = {}

    def grab(key):
        def after(ex, outs, Vold):
            from pvc.cexec import merge_outcomes
            terms[key] = merge_outcomes(outs)[1]
        return after
    SHQ = {"q": lambda P: [3], "born": lambda P: [Z3N, 3, 3], "dielectric": lambda P: [3, 3]}
    cs = []
    for ci in range(3):
        cs.append(Contract(F, "get_A", fixed={"cart_i": ci}, tag="[cart_i=%d]" % ci, shapes=SHQ,
                           requires=lambda V: [V.p.atom_i >= 0, V.p.atom_i < Z3N], after=grab(("A", ci))))
        for cj in range(3):
            cs.append(Contract(F, "get_dA", fixed={"cart_i": ci, "cart_j": cj}, tag="[cart_i=%d,cart_j=%d]" % (ci, cj), shapes=SHQ,
                               requires=lambda V: [V.p.atom_i >= 0, V.p.atom_i < Z3N], after=grab(("dA", ci, cj))))
    cs.append(Contract(F, "get_C", shapes=SHQ, after=grab(("C",))))
    for ck in range(3):
        cs.append(Contract(F, "get_dC", fixed={"cart_i": 0, "cart_j": 0, "cart_k": ck}, tag="[cart_k=%d]" % ck, shapes=SHQ, after=grab(("dC", ck))))
    run.verify_c(cs)
    qs = [sp.Symbol("q_%d" % k, real=True) for k in range(3)]
    pref = "lemma:C12:nac-derivative"
    for ci in range(3):
        A = cas.to_sympy(terms[("A", ci)])
        for cj in range(3):
            run.lemma(pref, "deriv", "get_dA(cart_i=%d, cart_j=%d) == d get_A(cart_i=%d)/d q_%d" % (ci, cj, ci, cj), [], None, backend="poly",
                      pairs=[(sp.srepr(sp.diff(A, qs[cj])), sp.srepr(cas.to_sympy(terms[("dA", ci, cj)])))])
    C = cas.to_sympy(terms[("C",)])
    for ck in range(3):
        run.lemma(pref, "deriv", "get_dC(cart_k=%d) == d get_C / d q_%d" % (ck, ck), [], None, backend="poly",
                  pairs=[(sp.srepr(sp.diff(C, qs[ck])), sp.srepr(cas.to_sympy(terms[("dC", ck)])))])


Z3N = z3.Int("num_patom")


# ------------------------------------------------------------------ get_derivative_dynmat_at_q: functional contract
from pvc.spec import RecSum      # noqa: E402
from contracts.c_dynmat import wf_maps   # noqa: E402

I = z3.IntSort()
p_, q_, c_ = z3.Ints("p_ q_ c_")


class DSpec:
    """Cartesian q-derivative of the lattice Fourier sum (convention of the code: D ~ exp(2 pi i q.s), the derivative with
    respect to the Cartesian wave vector component c multiplies every image term by 2 pi i (L s)_c, L = lattice, column vectors)."""

    def __init__(self, V):
        q, sv, mu, L = V.a.q, V.a.svecs, V.a.multi, V.a.lattice
        fc, p2s, s2p, mass = V.a.fc, V.a.p2s_map, V.a.s2p_map, V.a.mass
        cos = z3.Function("c_cos", z3.RealSort(), z3.RealSort())
        sin = z3.Function("c_sin", z3.RealSort(), z3.RealSort())
        sq = z3.Function("c_sqrt", z3.RealSort(), z3.RealSort())
        is_nac = V.p.is_nac

        def phase(k, i, l):
            a = mu[k, i, 1] + l
            return (q[0] * sv[a, 0] + q[1] * sv[a, 1] + q[2] * sv[a, 2]) * 2 * PI

        def coef(c, k, i, l):
            a = mu[k, i, 1] + l
            return 2 * PI * L[c, 0] * sv[a, 0] + 2 * PI * L[c, 1] * sv[a, 1] + 2 * PI * L[c, 2] * sv[a, 2]
        self.cP = RecSum("ddm_cP", [I, I], lambda k, i, l: cos(phase(k, i, l)))
        self.sP = RecSum("ddm_sP", [I, I], lambda k, i, l: sin(phase(k, i, l)))
        self.rC = RecSum("ddm_rC", [I, I, I], lambda c, k, i, l: -(coef(c, k, i, l) * sin(phase(k, i, l))))
        self.iC = RecSum("ddm_iC", [I, I, I], lambda c, k, i, l: coef(c, k, i, l) * cos(phase(k, i, l)))
        has_nac = "dnac" in V.a and "ddnac" in V.a

        def term(which):
            def t(i, j, c, a, b, k):
                m = z3.ToReal(mu[k, i, 0])
                ms = sq(mass[i] * mass[j])
                fe = fc[p2s[i], k, a, b] / ms
                C_, P_ = (self.rC, self.cP) if which == "re" else (self.iC, self.sP)
                val = fe * (C_(c, k, i, mu[k, i, 0]) / m)
                if has_nac:
                    fe2 = fe + V.a.dnac[i, j, a, b]
                    val_nac = fe2 * (C_(c, k, i, mu[k, i, 0]) / m) + V.a.ddnac[c, i, j, a, b] * (P_(k, i, mu[k, i, 0]) / m)
                    val = z3.If(is_nac != 0, val_nac, val)
                return z3.If(s2p[k] == p2s[j], val, z3.RealVal(0))
            return t
        self.Tre = RecSum("ddm_Tre", [I, I, I, I, I], term("re"))
        self.Tim = RecSum("ddm_Tim", [I, I, I, I, I], term("im"))


def derivative_block_contract():
    def req(V):
        i, j = V.p.i, V.p.j
        return wf_maps(V) + [i >= 0, i < V.p.num_patom, j >= 0, j < V.p.num_patom, V.a.mass[i] * V.a.mass[j] > 0,
                             z3.Implies(V.p.is_nac != 0, z3.And(z3.Not(V.null.ddnac), z3.Not(V.null.dnac)))]

    def acc(V, k):
        S = DSpec(V.old)
        i, j = V.p.i, V.p.j
        out = []
        for c in range(3):
            for a in range(3):
                for b in range(3):
                    out.append(("re[%d,%d,%d]" % (c, a, b), V.a.ddm_real[c, a, b] == S.Tre(i, j, c, a, b, k)))
                    out.append(("im[%d,%d,%d]" % (c, a, b), V.a.ddm_imag[c, a, b] == S.Tim(i, j, c, a, b, k)))
        return out

    def unfold_T(V, k):
        S = DSpec(V.old)
        i, j = V.p.i, V.p.j
        out = []
        for c in range(3):
            for a in range(3):
                for b in range(3):
                    for Rr in (S.Tre, S.Tim):
                        out += [Rr.zero(i, j, c, a, b), Rr.unfold(i, j, c, a, b, k), Rr.unfold(i, j, c, a, b, k - 1)]
        return out

    def inv_k(V):
        return [("range", z3.And(V.v.k >= 0, V.v.k <= V.p.num_satom))] + acc(V, V.v.k)

    def inv_l(V):
        S = DSpec(V.old)
        k, i, l = V.v.k, V.p.i, V.v.l
        m = V.old.a.multi[k, i, 0]
        out = [("range", z3.And(l >= 0, l <= m, k >= 0, k < V.p.num_satom)),
               ("cP", V.v.real_phase == S.cP(k, i, l)), ("sP", V.v.imag_phase == S.sP(k, i, l))]
        for c in range(3):
            out.append(("rC[%d]" % c, V.a.real_coef[c] == S.rC(c, k, i, l)))
            out.append(("iC[%d]" % c, V.a.imag_coef[c] == S.iC(c, k, i, l)))
        return out + acc(V, k)

    def unfold_l(V):
        S = DSpec(V.old)
        k, i, l = V.v.k, V.p.i, V.v.l
        out = [S.cP.zero(k, i), S.sP.zero(k, i), S.cP.unfold(k, i, l), S.sP.unfold(k, i, l), S.cP.unfold(k, i, l - 1), S.sP.unfold(k, i, l - 1)]
        for c in range(3):
            out += [S.rC.zero(c, k, i), S.iC.zero(c, k, i), S.rC.unfold(c, k, i, l), S.iC.unfold(c, k, i, l),
                    S.rC.unfold(c, k, i, l - 1), S.iC.unfold(c, k, i, l - 1)]
        return out + unfold_T(V, k)

    def ens(V):
        S = DSpec(V.old)
        i, j, n3 = V.p.i, V.p.j, 3 * V.p.num_patom
        M, M0 = V.a.derivative_dynmat, V.old.a.derivative_dynmat
        out = []
        for c in range(3):
            for a in range(3):
                for b in range(3):
                    out.append(("block-re[%d,%d,%d]" % (c, a, b), M[c, 3 * i + a, 3 * j + b, 0] == M0[c, 3 * i + a, 3 * j + b, 0] + S.Tre(i, j, c, a, b, V.p.num_satom)))
                    out.append(("block-im[%d,%d,%d]" % (c, a, b), M[c, 3 * i + a, 3 * j + b, 1] == M0[c, 3 * i + a, 3 * j + b, 1] + S.Tim(i, j, c, a, b, V.p.num_satom)))
        out.append(("frame", z3.ForAll([c_, p_, q_], z3.Implies(
            z3.And(c_ >= 0, c_ < 3, p_ >= 0, p_ < n3, q_ >= 0, q_ < n3, z3.Not(z3.And(p_ >= 3 * i, p_ < 3 * i + 3, q_ >= 3 * j, q_ < 3 * j + 3))),
            z3.And(M[c_, p_, q_, 0] == M0[c_, p_, q_, 0], M[c_, p_, q_, 1] == M0[c_, p_, q_, 1])))))
        return out
    return Contract(F, "get_derivative_dynmat_at_q", replay_fn=RD.replay_ddm, tag="[functional]", shapes=DDM_SHAPES, nullable=("ddnac", "dnac"), macros={"PI": PI},
                    requires=req, ensures=ens, modifies=("derivative_dynmat",),
                    loops={3: LoopSpec(inv_k, unfold=lambda V: unfold_T(V, V.v.k)), 5: LoopSpec(inv_l, unfold=unfold_l)}, abstract_mul=True)
