"""Contracts for c/dynmat.c (C02, C03, C06, C08, C13).

Spec functions (all definitional RecSums over the function's own input arrays):
  cosS(k,i,n), sinS(k,i,n)  = sum_{l<n} cos|sin(2 pi q.svecs[adrs(k,i)+l]) / m(k,i)      (phase average)
  Tre(i,j,a,b,n), Tim(...)  = sum_{k<n} [s2p[k]==p2s[j]] fcel(i,j,k,a,b) * cosS|sinS(k,i,m(k,i))
  Dspec(i,j,a,b)            = T(i,j,a,b,num_satom) / sqrt(m_i m_j)   then  herm(M) = (M + M^H)/2
which is the lattice Fourier sum of the property statement with the multiplicity average.
"""
import z3

from pvc.core import Contract, LoopSpec
from contracts import replay_dynmat as RD
from pvc.cexec import NS, tdiv
from pvc.spec import RecSum

F = "c/dynmat.c"
PI = z3.Real("PI")
I = z3.IntSort()
FC0 = z3.Int("fc_dim0")        # ghost: leading dimension of fc (num_satom for full, num_patom for compact)
NSV = z3.Int("n_svecs")        # ghost: number of rows of svecs
NCELL = z3.Int("n_cells")      # ghost: num_satom == n_cells * num_patom

SHAPES = {
    "dynamical_matrix": lambda P: [3 * P.num_patom, 3 * P.num_patom, 2],
    "fc": lambda P: [FC0, P.num_satom, 3, 3],
    "q": lambda P: [3],
    "svecs": lambda P: [NSV, 3],
    "multi": lambda P: [P.num_satom, P.num_patom, 2],
    "mass": lambda P: [P.num_patom],
    "s2p_map": lambda P: [P.num_satom],
    "p2s_map": lambda P: [P.num_patom],
    "charge_sum": lambda P: [P.num_patom, P.num_patom, 3, 3],
    "dm": lambda P: [3, 3, 2],
}


def wf_maps(V):
    """well-formedness of the index tables the Python layer passes (C04/C05 establish them)"""
    k, i = z3.Ints("k i")
    np_, ns = V.p.num_patom, V.p.num_satom
    mu = V.a.multi
    out = [np_ >= 1, ns >= 1, FC0 >= 1, NSV >= 0,
           z3.ForAll([k, i], z3.Implies(z3.And(k >= 0, k < ns, i >= 0, i < np_),
                                        z3.And(mu[k, i, 0] >= 1, mu[k, i, 1] >= 0, mu[k, i, 1] + mu[k, i, 0] <= NSV)))]
    if "p2s_map" in V.a:
        out.append(z3.ForAll([i], z3.Implies(z3.And(i >= 0, i < np_), z3.And(V.a.p2s_map[i] >= 0, V.a.p2s_map[i] < FC0))))
    return out


def alias(V, **names):
    """view with parameter arrays available under the canonical names used by Spec (q, mass, ...)"""
    a = dict(V.a.__dict__)
    nul = dict(V.null.__dict__) if V.null is not None else {}
    for new, old in names.items():
        if old in a:
            a[new] = a[old]
        if old in nul:
            nul[new] = nul[old]
    d = dict(V.__dict__)
    d["a"] = NS(a)
    d["null"] = NS(nul)
    if d.get("old") is not None:
        d["old"] = alias(d["old"], **names)
    return NS(d)


class Spec:
    """spec functions over a view V (pre-state arrays)"""

    def __init__(self, V, cs=None, cs_null=None):
        self.V = V
        q, sv, mu = V.a.q, V.a.svecs, V.a.multi
        fc, p2s = V.a.fc, V.a.p2s_map
        np_ = V.p.num_patom

        def phase(k, i, l):
            a = mu[k, i, 1] + l
            return (q[0] * sv[a, 0] + q[1] * sv[a, 1] + q[2] * sv[a, 2]) * 2 * PI
        cos = z3.Function("c_cos", z3.RealSort(), z3.RealSort())
        sin = z3.Function("c_sin", z3.RealSort(), z3.RealSort())
        self.cosS = RecSum("cosS", [I, I], lambda k, i, l: cos(phase(k, i, l)) / z3.ToReal(mu[k, i, 0]))
        self.sinS = RecSum("sinS", [I, I], lambda k, i, l: sin(phase(k, i, l)) / z3.ToReal(mu[k, i, 0]))
        if cs is None and "charge_sum" in V.a:
            cs = V.a.charge_sum
        if cs_null is None:
            cs_null = V.null["charge_sum"] if (V.null is not None and "charge_sum" in V.null) else z3.BoolVal(True)
        cs_null = z3.simplify(cs_null) if isinstance(cs_null, z3.ExprRef) else z3.BoolVal(bool(cs_null))

        def fcel(i, j, k, a, b):
            base = fc[p2s[i], k, a, b]
            if cs is None or z3.is_true(cs_null):
                return base
            if z3.is_false(cs_null):
                return base + cs[i, j, a, b]
            return z3.If(cs_null, base, base + cs[i, j, a, b])
        self.fcel = fcel
        if "s2p_map" in V.a:
            s2p = V.a.s2p_map
            self.Tre = RecSum("Tre", [I, I, I, I], lambda i, j, a, b, k: z3.If(
                s2p[k] == p2s[j], fcel(i, j, k, a, b) * self.cosS(k, i, mu[k, i, 0]), z3.RealVal(0)))
            self.Tim = RecSum("Tim", [I, I, I, I], lambda i, j, a, b, k: z3.If(
                s2p[k] == p2s[j], fcel(i, j, k, a, b) * self.sinS(k, i, mu[k, i, 0]), z3.RealVal(0)))


def get_dm_contract():
    def req(V):
        i, j, k = V.p.i, V.p.j, V.p.k
        return wf_maps(V) + [i >= 0, i < V.p.num_patom, j >= 0, j < V.p.num_patom, k >= 0, k < V.p.num_satom]

    def inv0(V):
        S = Spec(V)
        l = V.v.l
        m = V.a.multi[V.p.k, V.p.i, 0]
        return [("range", z3.And(l >= 0, l <= m)),
                ("cos", V.v.cos_phase == S.cosS(V.p.k, V.p.i, l)),
                ("sin", V.v.sin_phase == S.sinS(V.p.k, V.p.i, l))]

    def unfold0(V):
        S = Spec(V)
        l = V.v.l
        k, i = V.p.k, V.p.i
        return [S.cosS.zero(k, i), S.sinS.zero(k, i), S.cosS.unfold(k, i, l), S.sinS.unfold(k, i, l),
                S.cosS.unfold(k, i, l - 1), S.sinS.unfold(k, i, l - 1)]

    def ens(V):
        S = Spec(V.old)
        i, j, k = V.p.i, V.p.j, V.p.k
        m = V.old.a.multi[k, i, 0]
        out = []
        for a in range(3):
            for b in range(3):
                fe = S.fcel(i, j, k, a, b)
                out.append(("re[%d,%d]" % (a, b), V.a.dm[a, b, 0] == V.old.a.dm[a, b, 0] + fe * S.cosS(k, i, m)))
                out.append(("im[%d,%d]" % (a, b), V.a.dm[a, b, 1] == V.old.a.dm[a, b, 1] + fe * S.sinS(k, i, m)))
        return out
    return Contract(F, "get_dm", replay_fn=RD.replay_at_q, shapes=SHAPES, nullable=("charge_sum",), macros={"PI": PI}, requires=req, ensures=ens,
                    modifies=("dm",), loops={0: LoopSpec(inv0, unfold=unfold0)})


def get_dynmat_ij_contract():
    a_, b_, c_ = z3.Ints("a_ b_ c_")

    def req(V):
        i, j = V.p.i, V.p.j
        return wf_maps(V) + [i >= 0, i < V.p.num_patom, j >= 0, j < V.p.num_patom,
                             V.a.mass[i] * V.a.mass[j] > 0]

    def inv_k(V):
        S = Spec(V.old)
        k = V.v.k
        i, j = V.p.i, V.p.j
        out = [("range", z3.And(k >= 0, k <= V.p.num_satom))]
        for a in range(3):
            for b in range(3):
                out.append(("re[%d,%d]" % (a, b), V.a.dm[a, b, 0] == S.Tre(i, j, a, b, k)))
                out.append(("im[%d,%d]" % (a, b), V.a.dm[a, b, 1] == S.Tim(i, j, a, b, k)))
        return out

    def unfold_k(V):
        S = Spec(V.old)
        k = V.v.k
        i, j = V.p.i, V.p.j
        out = []
        for a in range(3):
            for b in range(3):
                for R in (S.Tre, S.Tim):
                    out += [R.zero(i, j, a, b), R.unfold(i, j, a, b, k), R.unfold(i, j, a, b, k - 1)]
        return out

    def ens(V):
        S = Spec(V.old)
        i, j = V.p.i, V.p.j
        sq = z3.Function("c_sqrt", z3.RealSort(), z3.RealSort())
        ms = sq(V.old.a.mass[i] * V.old.a.mass[j])
        D, D0 = V.a.dynamical_matrix, V.old.a.dynamical_matrix
        out = []
        xq, yq = z3.Ints("xq yq")
        inblock = z3.And(xq >= 3 * i, xq < 3 * i + 3, yq >= 3 * j, yq < 3 * j + 3)
        out.append(("block", z3.ForAll([xq, yq], z3.Implies(inblock, z3.And(
            D[xq, yq, 0] == S.Tre(i, j, xq - 3 * i, yq - 3 * j, V.p.num_satom) / ms,
            D[xq, yq, 1] == S.Tim(i, j, xq - 3 * i, yq - 3 * j, V.p.num_satom) / ms)))))
        n3 = 3 * V.p.num_patom
        out.append(("frame", z3.ForAll([a_, b_, c_], z3.Implies(
            z3.And(a_ >= 0, a_ < n3, b_ >= 0, b_ < n3, c_ >= 0, c_ < 2,
                   z3.Not(z3.And(a_ >= 3 * i, a_ < 3 * i + 3, b_ >= 3 * j, b_ < 3 * j + 3))),
            D[a_, b_, c_] == D0[a_, b_, c_]))))
        return out
    return Contract(F, "get_dynmat_ij", replay_fn=RD.replay_at_q, shapes=SHAPES, nullable=("charge_sum",), macros={"PI": PI}, requires=req, ensures=ens,
                    modifies=("dynamical_matrix",), loops={2: LoopSpec(inv_k, unfold=unfold_k)},
                    use_contracts={"get_dm"})


def make_hermitian_contract():
    a_, b_ = z3.Ints("a_ b_")

    def herm_val(old, a, b, c):
        # (M + M^H)/2 : real part symmetric, imaginary part antisymmetric
        return z3.If(c == 0, (old[a, b, 0] + old[b, a, 0]) / 2, (old[a, b, 1] - old[b, a, 1]) / 2)

    def done(i, j, a, b):
        """pair {a,b} already processed when the loops are at (i, j): min(a,b) < i, or min == i and max < j"""
        lo = z3.If(a <= b, a, b)
        hi = z3.If(a <= b, b, a)
        return z3.Or(lo < i, z3.And(lo == i, hi < j))

    def inv_common(V, i, j):
        n = V.p.num_band
        M, M0 = V.a.mat, V.old.a.mat
        out = []
        for c in (0, 1):
            out.append(("cells%d" % c, z3.ForAll([a_, b_], z3.Implies(
                z3.And(a_ >= 0, a_ < n, b_ >= 0, b_ < n),
                M[a_, b_, c] == z3.If(done(i, j, a_, b_), herm_val(M0, a_, b_, z3.IntVal(c)), M0[a_, b_, c])))))
        return out

    def inv_i(V):
        n = V.p.num_band
        return [("range", z3.And(V.v.i >= 0, V.v.i <= n))] + inv_common(V, V.v.i, V.v.i)

    def inv_j(V):
        n = V.p.num_band
        return [("range", z3.And(V.v.i >= 0, V.v.i < n, V.v.j >= V.v.i, V.v.j <= n))] + inv_common(V, V.v.i, V.v.j)

    def ens(V):
        n = V.p.num_band
        M, M0 = V.a.mat, V.old.a.mat
        return [("hermitised", z3.ForAll([a_, b_], z3.Implies(
            z3.And(a_ >= 0, a_ < n, b_ >= 0, b_ < n),
            z3.And(M[a_, b_, 0] == (M0[a_, b_, 0] + M0[b_, a_, 0]) / 2,
                   M[a_, b_, 1] == (M0[a_, b_, 1] - M0[b_, a_, 1]) / 2)))),
                ("hermitian", z3.ForAll([a_, b_], z3.Implies(
                    z3.And(a_ >= 0, a_ < n, b_ >= 0, b_ < n),
                    z3.And(M[a_, b_, 0] == M[b_, a_, 0], M[a_, b_, 1] == -M[b_, a_, 1]))))]

    def gen(rnd):
        import numpy as np
        n = rnd.randint(0, 4)
        return {"mat": np.array([[[rnd.uniform(-2, 2) for _ in range(2)] for _ in range(n)] for _ in range(n)]).reshape(n, n, 2), "num_band": n}
    return Contract(F, "make_Hermitian", shapes={"mat": lambda P: [P.num_band, P.num_band, 2]},
                    requires=lambda V: [V.p.num_band >= 0], ensures=ens, modifies=("mat",),
                    loops={0: LoopSpec(inv_i), 1: LoopSpec(inv_j)}, gen=gen, lib="dynmat")


def _U(S, V, ns):
    sq = z3.Function("c_sqrt", z3.RealSort(), z3.RealSort())
    mass = V.a.mass

    def Ure(x, y):
        return S.Tre(x / 3, y / 3, x % 3, y % 3, ns) / sq(mass[x / 3] * mass[y / 3])

    def Uim(x, y):
        return S.Tim(x / 3, y / 3, x % 3, y % 3, ns) / sq(mass[x / 3] * mass[y / 3])
    return Ure, Uim


def dynmat_at_q_contract():
    """dym_get_dynamical_matrix_at_q: output == herm(Dspec) with Dspec the multiplicity-averaged Fourier sum."""
    x, y = z3.Ints("x y")

    def req(V):
        i = z3.Int("i")
        return wf_maps(V) + [z3.ForAll([i], z3.Implies(z3.And(i >= 0, i < V.p.num_patom), V.a.mass[i] > 0))]

    def blocks(V, cond):
        S = Spec(V.old)
        Ure, Uim = _U(S, V.old, V.p.num_satom)
        n3 = 3 * V.p.num_patom
        D = V.a.dynamical_matrix
        return z3.ForAll([x, y], z3.Implies(z3.And(x >= 0, x < n3, y >= 0, y < n3, cond(x / 3, y / 3)),
                                            z3.And(D[x, y, 0] == Ure(x, y), D[x, y, 1] == Uim(x, y))))

    def inv_ij(V):
        np_ = V.p.num_patom
        ij = V.v.ij
        return [("range", z3.And(ij >= 0, ij <= np_ * np_)),
                # lexicographic form of a*np+b < ij: the quantified part stays linear, the div/mod step
                # (ij -> ij+1) is a ground NIA fact
                ("blocks", blocks(V, lambda a, b: z3.Or(a < ij / np_, z3.And(a == ij / np_, b < ij % np_))))]

    def inv_i(V):
        return [("range", z3.And(V.v.i >= 0, V.v.i <= V.p.num_patom)),
                ("blocks", blocks(V, lambda a, b: a < V.v.i))]

    def inv_j(V):
        return [("range", z3.And(V.v.i >= 0, V.v.i < V.p.num_patom, V.v.j >= 0, V.v.j <= V.p.num_patom)),
                ("blocks", blocks(V, lambda a, b: z3.Or(a < V.v.i, z3.And(a == V.v.i, b < V.v.j))))]

    def ens(V):
        S = Spec(V.old)
        Ure, Uim = _U(S, V.old, V.p.num_satom)
        n3 = 3 * V.p.num_patom
        D = V.a.dynamical_matrix
        return [("herm(Dspec)", z3.ForAll([x, y], z3.Implies(
            z3.And(x >= 0, x < n3, y >= 0, y < n3),
            z3.And(D[x, y, 0] == (Ure(x, y) + Ure(y, x)) / 2, D[x, y, 1] == (Uim(x, y) - Uim(y, x)) / 2)))),
                ("hermitian", z3.ForAll([x, y], z3.Implies(
                    z3.And(x >= 0, x < n3, y >= 0, y < n3),
                    z3.And(D[x, y, 0] == D[y, x, 0], D[x, y, 1] == -D[y, x, 1])))),
                ("ret", V.ret == 0)]
    return Contract(F, "dym_get_dynamical_matrix_at_q", replay_fn=RD.replay_at_q, shapes=SHAPES, nullable=("charge_sum",), macros={"PI": PI},
                    requires=req, ensures=ens, modifies=("dynamical_matrix",),
                    loops={0: LoopSpec(inv_ij), 1: LoopSpec(inv_i), 2: LoopSpec(inv_j)},
                    use_contracts={"get_dynmat_ij", "make_Hermitian"})


# ------------------------------------------------------------------ NAC helpers (C08)
def qZ(q, born, a, x):
    """(q . Z_a)_x = sum_k q_k Z_a[k][x]"""
    return q[0] * born[a, 0, x] + q[1] * born[a, 1, x] + q[2] * born[a, 2, x]


def qeq(q, eps):
    return sum(q[i] * eps[i, j] * q[j] for i in range(3) for j in range(3))


def get_q_cart_contract():
    return Contract(F, "get_q_cart", shapes={"q_cart": lambda P: [3], "q": lambda P: [3], "reciprocal_lattice": lambda P: [3, 3]},
                    modifies=("q_cart",),
                    ensures=lambda V: [("q_cart[%d]" % i, V.a.q_cart[i] == sum(V.old.a.reciprocal_lattice[i, j] * V.old.a.q[j] for j in range(3)))
                                       for i in range(3)])


def get_dielectric_part_contract():
    return Contract(F, "get_dielectric_part", shapes={"q_cart": lambda P: [3], "dielectric": lambda P: [3, 3]},
                    ensures=lambda V: [("q.eps.q", V.ret == qeq(V.a.q_cart, V.a.dielectric))])


def charge_sum_contract():
    a_, b_, x_, y_ = z3.Ints("a_ b_ x_ y_")

    def inv0(V):
        qb = V.a.q_born
        return [("range", z3.And(V.v.i >= 0, V.v.i <= V.p.num_patom)),
                ("zero", z3.ForAll([a_, x_], z3.Implies(z3.And(a_ >= 0, a_ < V.v.i, x_ >= 0, x_ < 3), qb[a_, x_] == 0)))]

    def inv2(V):
        qb = V.a.q_born
        n = V.p.num_patom
        return [("range", z3.And(V.v.i >= 0, V.v.i <= n)),
                ("qb", z3.ForAll([a_, x_], z3.Implies(z3.And(a_ >= 0, a_ < n, x_ >= 0, x_ < 3),
                                                       qb[a_, x_] == z3.If(a_ < V.v.i, qZ(V.a.q_cart, V.a.born, a_, x_), 0))))]

    def cs_val(V, a, b, x, y):
        # in terms of the q_born scratch array (its meaning is the separate invariant 'qb'): keeps the
        # quantified facts free of products of sums
        return V.a.q_born[a, x] * V.a.q_born[b, y] * V.p.factor

    def inv5(V):
        n = V.p.num_patom
        qb = V.a.q_born
        return [("range", z3.And(V.v.i >= 0, V.v.i <= n)),
                ("qb", z3.ForAll([a_, x_], z3.Implies(z3.And(a_ >= 0, a_ < n, x_ >= 0, x_ < 3), qb[a_, x_] == qZ(V.a.q_cart, V.a.born, a_, x_)))),
                ("cs", z3.ForAll([a_, b_, x_, y_], z3.Implies(z3.And(a_ >= 0, a_ < V.v.i, b_ >= 0, b_ < n, x_ >= 0, x_ < 3, y_ >= 0, y_ < 3),
                                                               V.a.charge_sum[a_, b_, x_, y_] == cs_val(V, a_, b_, x_, y_))))]

    def inv6(V):
        n = V.p.num_patom
        i, j = V.v.i, V.v.j
        return [("range", z3.And(i >= 0, i < n, j >= 0, j <= n)),
                ("cs", z3.ForAll([a_, b_, x_, y_], z3.Implies(
                    z3.And(a_ >= 0, b_ >= 0, b_ < n, x_ >= 0, x_ < 3, y_ >= 0, y_ < 3, z3.Or(a_ < i, z3.And(a_ == i, b_ < j))),
                    V.a.charge_sum[a_, b_, x_, y_] == cs_val(V, a_, b_, x_, y_))))]

    def ens(V):
        n = V.p.num_patom
        return [("charge_sum", z3.ForAll([a_, b_, x_, y_], z3.Implies(
            z3.And(a_ >= 0, a_ < n, b_ >= 0, b_ < n, x_ >= 0, x_ < 3, y_ >= 0, y_ < 3),
            V.a.charge_sum[a_, b_, x_, y_] == cs_val(V.old, a_, b_, x_, y_) if False else
            V.a.charge_sum[a_, b_, x_, y_] == qZ(V.old.a.q_cart, V.old.a.born, a_, x_) * qZ(V.old.a.q_cart, V.old.a.born, b_, y_) * V.p.factor)))]

    def gen(rnd):
        import numpy as np
        n = rnd.randint(0, 3)
        return {"charge_sum": np.zeros((n, n, 3, 3)), "num_patom": n, "factor": rnd.uniform(-2, 2),
                "q_cart": np.array([rnd.uniform(-1, 1) for _ in range(3)]),
                "born": np.array([rnd.uniform(-2, 2) for _ in range(9 * n)]).reshape(n, 3, 3)}
    return Contract(F, "dym_get_charge_sum",
                    shapes={"charge_sum": lambda P: [P.num_patom, P.num_patom, 3, 3], "q_cart": lambda P: [3], "born": lambda P: [P.num_patom, 3, 3]},
                    local_shapes={"q_born": lambda V: [V.p.num_patom, 3]},
                    requires=lambda V: [V.p.num_patom >= 0], modifies=("charge_sum",), ensures=ens,
                    loops={0: LoopSpec(inv0), 2: LoopSpec(inv2), 5: LoopSpec(inv5), 6: LoopSpec(inv6)}, gen=gen, lib="dynmat",
                    abstract_mul=True)


WANT_NAMES = dict(q="qpoint", mass="masses", dynamical_matrix="dynamical_matrices")
WANT_SHAPES = dict(SHAPES)
WANT_SHAPES.update({"dynamical_matrices": SHAPES["dynamical_matrix"], "qpoint": lambda P: [3], "masses": SHAPES["mass"],
                    "born": lambda P: [P.num_patom, 3, 3], "dielectric": lambda P: [3, 3], "reciprocal_lattice": lambda P: [3, 3],
                    "q_direction": lambda P: [3], "q_dir_cart": lambda P: [3]})


def herm_post(V, S, D, n3, mass_view):
    x, y = z3.Ints("x y")
    sq = z3.Function("c_sqrt", z3.RealSort(), z3.RealSort())
    ns = V.p.num_satom

    def Ure(a, b):
        return S.Tre(a / 3, b / 3, a % 3, b % 3, ns) / sq(mass_view[a / 3] * mass_view[b / 3])

    def Uim(a, b):
        return S.Tim(a / 3, b / 3, a % 3, b % 3, ns) / sq(mass_view[a / 3] * mass_view[b / 3])
    return z3.ForAll([x, y], z3.Implies(z3.And(x >= 0, x < n3, y >= 0, y < n3),
                                        z3.And(D[x, y, 0] == (Ure(x, y) + Ure(y, x)) / 2, D[x, y, 1] == (Uim(x, y) - Uim(y, x)) / 2)))


def dynmat_want_contract():
    """Wang NAC: the charge-sum term added to every force-constant element is
    (nac_factor / (N_s/N_p)) (n.Z_i)_a (n.Z_j)_b / (n.eps.n), n = q (Cartesian) or the given direction at Gamma."""
    a_, b_, x_, y_ = z3.Ints("a_ b_ x_ y_")
    i_ = z3.Int("i_")
    sq = z3.Function("c_sqrt", z3.RealSort(), z3.RealSort())

    def qcart(V):
        return [sum(V.a.reciprocal_lattice[i, j] * V.a.qpoint[j] for j in range(3)) for i in range(3)]

    def req(V0):
        V = alias(V0, **WANT_NAMES)
        qc = qcart(V0)
        norm = sq(qc[0] * qc[0] + qc[1] * qc[1] + qc[2] * qc[2])
        small = norm < V0.p.q_zero_tolerance
        dn, dcn = V0.null.q_direction, V0.null.q_dir_cart
        return wf_maps(V) + [
            z3.ForAll([i_], z3.Implies(z3.And(i_ >= 0, i_ < V0.p.num_patom), V0.a.masses[i_] > 0)),
            NCELL >= 1, V0.p.num_satom == NCELL * V0.p.num_patom, dn == dcn,
            z3.Implies(z3.Not(small), qeq(qc, V0.a.dielectric) != 0),
            z3.Implies(z3.And(small, z3.Not(dn)), qeq([V0.a.q_dir_cart[k] for k in range(3)], V0.a.dielectric) != 0)]

    def ens(V0):
        V = alias(V0, **WANT_NAMES)
        old = V.old
        qc = qcart(V0.old)
        norm = sq(qc[0] * qc[0] + qc[1] * qc[1] + qc[2] * qc[2])
        small = norm < V0.p.q_zero_tolerance
        dn = V0.null.q_direction
        n3 = 3 * V0.p.num_patom
        D = V0.a.dynamical_matrices
        np_ = V0.p.num_patom
        nn = tdiv(V0.p.num_satom, np_)
        out = []
        S_plain = Spec(old, cs_null=True)
        out.append(("Gamma without direction: plain herm(Dspec)", z3.Implies(z3.And(small, dn), herm_post(V0, S_plain, D, n3, old.a.mass))))
        if "charge_sum" in V0.a:
            cs = V0.a.charge_sum
            S_cs = Spec(old, cs=cs, cs_null=False)
            out.append(("with charge sum: herm(Dspec + charge sum)", z3.Implies(z3.Not(z3.And(small, dn)), herm_post(V0, S_cs, D, n3, old.a.mass))))
            born, eps = V0.old.a.born, V0.old.a.dielectric
            for lab, cond, qq in (("|q| >= tol", z3.Not(small), qc),
                                  ("Gamma with direction", z3.And(small, z3.Not(dn)), [V0.old.a.q_dir_cart[k] for k in range(3)] if "q_dir_cart" in V0.old.a else None)):
                if qq is None:
                    continue
                fac = V0.p.nac_factor / z3.ToReal(nn) / qeq(qq, eps)
                out.append(("charge sum, " + lab, z3.Implies(cond, z3.ForAll([a_, b_, x_, y_], z3.Implies(
                    z3.And(a_ >= 0, a_ < np_, b_ >= 0, b_ < np_, x_ >= 0, x_ < 3, y_ >= 0, y_ < 3),
                    cs[a_, b_, x_, y_] == qZ(qq, born, a_, x_) * qZ(qq, born, b_, y_) * fac)))))
        return out
    return Contract(F, "get_dynmat_want", replay_fn=RD.replay_want, shapes=WANT_SHAPES, nullable=("q_direction", "q_dir_cart"), macros={"PI": PI},
                    local_shapes={"charge_sum": lambda V: [V.p.num_patom, V.p.num_patom, 3, 3]},
                    requires=req, ensures=ens, modifies=("dynamical_matrices",), split=1, abstract_mul=True,
                    derived=lambda V: [("num_satom / num_patom == n_cells", tdiv(V.p.num_satom, V.p.num_patom) == NCELL,
                                        [V.p.num_patom >= 1, NCELL >= 1, V.p.num_satom == NCELL * V.p.num_patom])],
                    use_contracts={"get_q_cart", "dym_get_charge_sum", "get_dielectric_part", "dym_get_dynamical_matrix_at_q"})
