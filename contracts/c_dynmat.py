"""Contracts for c/dynmat.c (C02, C03, C06, C08, C13).

Spec functions (all definitional RecSums over the function's own input arrays):
  cosS(k,i,n), sinS(k,i,n)  = sum_{l<n} cos|sin(2 pi q.svecs[adrs(k,i)+l]) / m(k,i)      (phase average)
  Tre(i,j,a,b,n), Tim(...)  = sum_{k<n} [s2p[k]==p2s[j]] fcel(i,j,k,a,b) * cosS|sinS(k,i,m(k,i))
  Dspec(i,j,a,b)            = T(i,j,a,b,num_satom) / sqrt(m_i m_j)   then  herm(M) = (M + M^H)/2
which is the lattice Fourier sum of the property statement with the multiplicity average.
"""
import z3

from pvc.core import Contract, LoopSpec
from pvc.spec import RecSum

F = "c/dynmat.c"
PI = z3.Real("PI")
I = z3.IntSort()
FC0 = z3.Int("fc_dim0")        # ghost: leading dimension of fc (num_satom for full, num_patom for compact)
NSV = z3.Int("n_svecs")        # ghost: number of rows of svecs

SHAPES = {
    "dynamical_matrix": lambda P: [3 * P.num_patom, 3 * P.num_patom, 2],
    "fc": lambda P: [FC0, P.num_satom, 3, 3],
    "q": lambda P: [3],
    "svecs": lambda P: [NSV, 3],
    "multi": lambda P: [P.num_satom, P.num_patom, 2],
    "mass": lambda P: [P.num_patom],
    "s2p_map": lambda P: [P.num_satom],
    "p2s_map": lambda P: [P.num_patom],
    "charge_sum": lambda P: [P.num_patom, P.num_patom, 3, 3],
    "dm": lambda P: [3, 3, 2],
}


def wf_maps(V):
    """well-formedness of the index tables the Python layer passes (C04/C05 establish them)"""
    k, i = z3.Ints("k i")
    np_, ns = V.p.num_patom, V.p.num_satom
    mu = V.a.multi
    out = [np_ >= 1, ns >= 1, FC0 >= 1, NSV >= 0,
           z3.ForAll([k, i], z3.Implies(z3.And(k >= 0, k < ns, i >= 0, i < np_),
                                        z3.And(mu[k, i, 0] >= 1, mu[k, i, 1] >= 0, mu[k, i, 1] + mu[k, i, 0] <= NSV)))]
    if "p2s_map" in V.a:
        out.append(z3.ForAll([i], z3.Implies(z3.And(i >= 0, i < np_), z3.And(V.a.p2s_map[i] >= 0, V.a.p2s_map[i] < FC0))))
    return out


class Spec:
    """spec functions over a view V (pre-state arrays)"""

    def __init__(self, V, j=None):
        self.V = V
        q, sv, mu = V.a.q, V.a.svecs, V.a.multi
        fc, p2s = V.a.fc, V.a.p2s_map
        np_ = V.p.num_patom

        def phase(k, i, l):
            a = mu[k, i, 1] + l
            return (q[0] * sv[a, 0] + q[1] * sv[a, 1] + q[2] * sv[a, 2]) * 2 * PI
        cos = z3.Function("c_cos", z3.RealSort(), z3.RealSort())
        sin = z3.Function("c_sin", z3.RealSort(), z3.RealSort())
        self.cosS = RecSum("cosS", [I, I], lambda k, i, l: cos(phase(k, i, l)) / z3.ToReal(mu[k, i, 0]))
        self.sinS = RecSum("sinS", [I, I], lambda k, i, l: sin(phase(k, i, l)) / z3.ToReal(mu[k, i, 0]))
        has_cs = "charge_sum" in V.a
        cs_null = V.null["charge_sum"] if "charge_sum" in V.null else z3.BoolVal(True)

        def fcel(i, j, k, a, b):
            base = fc[p2s[i], k, a, b]
            if has_cs:
                return z3.If(cs_null, base, base + V.a.charge_sum[i, j, a, b])
            return base
        self.fcel = fcel
        if "s2p_map" in V.a:
            s2p = V.a.s2p_map
            self.Tre = RecSum("Tre", [I, I, I, I], lambda i, j, a, b, k: z3.If(
                s2p[k] == p2s[j], fcel(i, j, k, a, b) * self.cosS(k, i, mu[k, i, 0]), z3.RealVal(0)))
            self.Tim = RecSum("Tim", [I, I, I, I], lambda i, j, a, b, k: z3.If(
                s2p[k] == p2s[j], fcel(i, j, k, a, b) * self.sinS(k, i, mu[k, i, 0]), z3.RealVal(0)))


def get_dm_contract():
    def req(V):
        i, j, k = V.p.i, V.p.j, V.p.k
        return wf_maps(V) + [i >= 0, i < V.p.num_patom, j >= 0, j < V.p.num_patom, k >= 0, k < V.p.num_satom]

    def inv0(V):
        S = Spec(V)
        l = V.v.l
        m = V.a.multi[V.p.k, V.p.i, 0]
        return [("range", z3.And(l >= 0, l <= m)),
                ("cos", V.v.cos_phase == S.cosS(V.p.k, V.p.i, l)),
                ("sin", V.v.sin_phase == S.sinS(V.p.k, V.p.i, l))]

    def unfold0(V):
        S = Spec(V)
        l = V.v.l
        k, i = V.p.k, V.p.i
        return [S.cosS.zero(k, i), S.sinS.zero(k, i), S.cosS.unfold(k, i, l), S.sinS.unfold(k, i, l),
                S.cosS.unfold(k, i, l - 1), S.sinS.unfold(k, i, l - 1)]

    def ens(V):
        S = Spec(V.old)
        i, j, k = V.p.i, V.p.j, V.p.k
        m = V.old.a.multi[k, i, 0]
        out = []
        for a in range(3):
            for b in range(3):
                fe = S.fcel(i, j, k, a, b)
                out.append(("re[%d,%d]" % (a, b), V.a.dm[a, b, 0] == V.old.a.dm[a, b, 0] + fe * S.cosS(k, i, m)))
                out.append(("im[%d,%d]" % (a, b), V.a.dm[a, b, 1] == V.old.a.dm[a, b, 1] + fe * S.sinS(k, i, m)))
        return out
    return Contract(F, "get_dm", shapes=SHAPES, nullable=("charge_sum",), macros={"PI": PI}, requires=req, ensures=ens,
                    modifies=("dm",), loops={0: LoopSpec(inv0, unfold=unfold0)})


def get_dynmat_ij_contract():
    a_, b_, c_ = z3.Ints("a_ b_ c_")

    def req(V):
        i, j = V.p.i, V.p.j
        return wf_maps(V) + [i >= 0, i < V.p.num_patom, j >= 0, j < V.p.num_patom,
                             V.a.mass[i] * V.a.mass[j] > 0]

    def inv_k(V):
        S = Spec(V.old)
        k = V.v.k
        i, j = V.p.i, V.p.j
        out = [("range", z3.And(k >= 0, k <= V.p.num_satom))]
        for a in range(3):
            for b in range(3):
                out.append(("re[%d,%d]" % (a, b), V.a.dm[a, b, 0] == S.Tre(i, j, a, b, k)))
                out.append(("im[%d,%d]" % (a, b), V.a.dm[a, b, 1] == S.Tim(i, j, a, b, k)))
        return out

    def unfold_k(V):
        S = Spec(V.old)
        k = V.v.k
        i, j = V.p.i, V.p.j
        out = []
        for a in range(3):
            for b in range(3):
                for R in (S.Tre, S.Tim):
                    out += [R.zero(i, j, a, b), R.unfold(i, j, a, b, k), R.unfold(i, j, a, b, k - 1)]
        return out

    def ens(V):
        S = Spec(V.old)
        i, j = V.p.i, V.p.j
        sq = z3.Function("c_sqrt", z3.RealSort(), z3.RealSort())
        ms = sq(V.old.a.mass[i] * V.old.a.mass[j])
        D, D0 = V.a.dynamical_matrix, V.old.a.dynamical_matrix
        out = []
        xq, yq = z3.Ints("xq yq")
        inblock = z3.And(xq >= 3 * i, xq < 3 * i + 3, yq >= 3 * j, yq < 3 * j + 3)
        out.append(("block", z3.ForAll([xq, yq], z3.Implies(inblock, z3.And(
            D[xq, yq, 0] == S.Tre(i, j, xq - 3 * i, yq - 3 * j, V.p.num_satom) / ms,
            D[xq, yq, 1] == S.Tim(i, j, xq - 3 * i, yq - 3 * j, V.p.num_satom) / ms)))))
        n3 = 3 * V.p.num_patom
        out.append(("frame", z3.ForAll([a_, b_, c_], z3.Implies(
            z3.And(a_ >= 0, a_ < n3, b_ >= 0, b_ < n3, c_ >= 0, c_ < 2,
                   z3.Not(z3.And(a_ >= 3 * i, a_ < 3 * i + 3, b_ >= 3 * j, b_ < 3 * j + 3))),
            D[a_, b_, c_] == D0[a_, b_, c_]))))
        return out
    return Contract(F, "get_dynmat_ij", shapes=SHAPES, nullable=("charge_sum",), macros={"PI": PI}, requires=req, ensures=ens,
                    modifies=("dynamical_matrix",), loops={2: LoopSpec(inv_k, unfold=unfold_k)},
                    use_contracts={"get_dm"})


def make_hermitian_contract():
    a_, b_ = z3.Ints("a_ b_")

    def herm_val(old, a, b, c):
        # (M + M^H)/2 : real part symmetric, imaginary part antisymmetric
        return z3.If(c == 0, (old[a, b, 0] + old[b, a, 0]) / 2, (old[a, b, 1] - old[b, a, 1]) / 2)

    def done(i, j, a, b):
        """pair {a,b} already processed when the loops are at (i, j): min(a,b) < i, or min == i and max < j"""
        lo = z3.If(a <= b, a, b)
        hi = z3.If(a <= b, b, a)
        return z3.Or(lo < i, z3.And(lo == i, hi < j))

    def inv_common(V, i, j):
        n = V.p.num_band
        M, M0 = V.a.mat, V.old.a.mat
        out = []
        for c in (0, 1):
            out.append(("cells%d" % c, z3.ForAll([a_, b_], z3.Implies(
                z3.And(a_ >= 0, a_ < n, b_ >= 0, b_ < n),
                M[a_, b_, c] == z3.If(done(i, j, a_, b_), herm_val(M0, a_, b_, z3.IntVal(c)), M0[a_, b_, c])))))
        return out

    def inv_i(V):
        n = V.p.num_band
        return [("range", z3.And(V.v.i >= 0, V.v.i <= n))] + inv_common(V, V.v.i, V.v.i)

    def inv_j(V):
        n = V.p.num_band
        return [("range", z3.And(V.v.i >= 0, V.v.i < n, V.v.j >= V.v.i, V.v.j <= n))] + inv_common(V, V.v.i, V.v.j)

    def ens(V):
        n = V.p.num_band
        M, M0 = V.a.mat, V.old.a.mat
        return [("hermitised", z3.ForAll([a_, b_], z3.Implies(
            z3.And(a_ >= 0, a_ < n, b_ >= 0, b_ < n),
            z3.And(M[a_, b_, 0] == (M0[a_, b_, 0] + M0[b_, a_, 0]) / 2,
                   M[a_, b_, 1] == (M0[a_, b_, 1] - M0[b_, a_, 1]) / 2)))),
                ("hermitian", z3.ForAll([a_, b_], z3.Implies(
                    z3.And(a_ >= 0, a_ < n, b_ >= 0, b_ < n),
                    z3.And(M[a_, b_, 0] == M[b_, a_, 0], M[a_, b_, 1] == -M[b_, a_, 1]))))]

    def gen(rnd):
        import numpy as np
        n = rnd.randint(0, 4)
        return {"mat": np.array([[[rnd.uniform(-2, 2) for _ in range(2)] for _ in range(n)] for _ in range(n)]).reshape(n, n, 2), "num_band": n}
    return Contract(F, "make_Hermitian", shapes={"mat": lambda P: [P.num_band, P.num_band, 2]},
                    requires=lambda V: [V.p.num_band >= 0], ensures=ens, modifies=("mat",),
                    loops={0: LoopSpec(inv_i), 1: LoopSpec(inv_j)}, gen=gen, lib="dynmat")


def _U(S, V, ns):
    sq = z3.Function("c_sqrt", z3.RealSort(), z3.RealSort())
    mass = V.a.mass

    def Ure(x, y):
        return S.Tre(x / 3, y / 3, x % 3, y % 3, ns) / sq(mass[x / 3] * mass[y / 3])

    def Uim(x, y):
        return S.Tim(x / 3, y / 3, x % 3, y % 3, ns) / sq(mass[x / 3] * mass[y / 3])
    return Ure, Uim


def dynmat_at_q_contract():
    """dym_get_dynamical_matrix_at_q: output == herm(Dspec) with Dspec the multiplicity-averaged Fourier sum."""
    x, y = z3.Ints("x y")

    def req(V):
        i = z3.Int("i")
        return wf_maps(V) + [z3.ForAll([i], z3.Implies(z3.And(i >= 0, i < V.p.num_patom), V.a.mass[i] > 0))]

    def blocks(V, cond):
        S = Spec(V.old)
        Ure, Uim = _U(S, V.old, V.p.num_satom)
        n3 = 3 * V.p.num_patom
        D = V.a.dynamical_matrix
        return z3.ForAll([x, y], z3.Implies(z3.And(x >= 0, x < n3, y >= 0, y < n3, cond(x / 3, y / 3)),
                                            z3.And(D[x, y, 0] == Ure(x, y), D[x, y, 1] == Uim(x, y))))

    def inv_ij(V):
        np_ = V.p.num_patom
        ij = V.v.ij
        return [("range", z3.And(ij >= 0, ij <= np_ * np_)),
                # lexicographic form of a*np+b < ij: the quantified part stays linear, the div/mod step
                # (ij -> ij+1) is a ground NIA fact
                ("blocks", blocks(V, lambda a, b: z3.Or(a < ij / np_, z3.And(a == ij / np_, b < ij % np_))))]

    def inv_i(V):
        return [("range", z3.And(V.v.i >= 0, V.v.i <= V.p.num_patom)),
                ("blocks", blocks(V, lambda a, b: a < V.v.i))]

    def inv_j(V):
        return [("range", z3.And(V.v.i >= 0, V.v.i < V.p.num_patom, V.v.j >= 0, V.v.j <= V.p.num_patom)),
                ("blocks", blocks(V, lambda a, b: z3.Or(a < V.v.i, z3.And(a == V.v.i, b < V.v.j))))]

    def ens(V):
        S = Spec(V.old)
        Ure, Uim = _U(S, V.old, V.p.num_satom)
        n3 = 3 * V.p.num_patom
        D = V.a.dynamical_matrix
        return [("herm(Dspec)", z3.ForAll([x, y], z3.Implies(
            z3.And(x >= 0, x < n3, y >= 0, y < n3),
            z3.And(D[x, y, 0] == (Ure(x, y) + Ure(y, x)) / 2, D[x, y, 1] == (Uim(x, y) - Uim(y, x)) / 2)))),
                ("hermitian", z3.ForAll([x, y], z3.Implies(
                    z3.And(x >= 0, x < n3, y >= 0, y < n3),
                    z3.And(D[x, y, 0] == D[y, x, 0], D[x, y, 1] == -D[y, x, 1])))),
                ("ret", V.ret == 0)]
    return Contract(F, "dym_get_dynamical_matrix_at_q", shapes=SHAPES, nullable=("charge_sum",), macros={"PI": PI},
                    requires=req, ensures=ens, modifies=("dynamical_matrix",),
                    loops={0: LoopSpec(inv_ij), 1: LoopSpec(inv_i), 2: LoopSpec(inv_j)},
                    use_contracts={"get_dynmat_ij", "make_Hermitian"})
