"""C09 — what GridPoints hands to spglib's mesh reduction (phonopy/structure/grid_points.py) and Phonopy.init_mesh hands
to Mesh/IterMesh (phonopy/api_phonopy.py).  spglib.get_stabilized_reciprocal_mesh is an external with the assumed contract
  "for direct-space rotations R of the cell whose reciprocal mesh is sampled, zero/half shifts is_shift and the time-reversal
   flag, the mapping table sends every grid point to a representative equivalent to it under {R} (and q -> -q if the flag is set)".
Its preconditions are obligations at the call sites."""
import z3

from pvc import pyexec
from pvc.core import CheckerError
from pvc.pyexec import PyExec, PState, Record, NDArr, Opaque, Ref

GF = "phonopy/structure/grid_points.py"


def gridpoints_spglib_call(run):
    mod = pyexec.load(GF)
    m = mod.method("GridPoints", "__init__")
    pref0 = GF + ":GridPoints.__init__"
    n_total = 0
    for shift_kind in ("none", "zero-or-half", "arbitrary"):
        pref = pref0 + "[shift=%s]" % shift_kind
        st = PState()
        R0 = Opaque("direct-space rotations given by the caller")
        calls = []

        def spg(ex, st_, args, kwargs, calls=calls):
            calls.append((st_.clone(), list(args), dict(kwargs)))
            return (Opaque("grid mapping table"), Opaque("grid address"))

        def s2b(ex, st_, args, kwargs, shift_kind=shift_kind):
            # contract of GridPoints._shift2boolean (checked separately below): None exactly for a shift that is neither
            # zero nor half (2*shift not integral), else a list of 0/1 flags
            given = args[0] if args else kwargs.get("q_mesh_shift")
            if given is None or shift_kind != "arbitrary":
                return Opaque("is_shift flags (zero or half shift)")
            return None
        hooks = {"get_stabilized_reciprocal_mesh": spg, "GridPoints._shift2boolean": s2b,
                 "relocate_BZ_grid_address": lambda ex, st_, a, k: (Opaque("relocated grid address"), Opaque("bz map")),
                 "extract_ir_grid_points": lambda ex, st_, a, k: (Opaque("ir grid points"), Opaque("ir weights")),
                 "get_lattice_vector_equivalence": lambda ex, st_, a, k: Opaque("lattice equivalence"),
                 "get_qpoints_in_Brillouin_zone": lambda ex, st_, a, k: Opaque("q-points in BZ")}
        for k_ in list(hooks):
            if "." not in k_:
                hooks["new:" + k_] = hooks[k_]
                hooks["spglib." + k_] = hooks[k_]
        self_ref = st.new(Record("GridPoints", {}))
        ex = PyExec(mod, run.sink, pref, hooks=hooks, opaque_unknown=True, split=True)
        shift = None if shift_kind == "none" else Opaque("q_mesh_shift")
        kwargs = {"q_mesh_shift": shift, "is_gamma_center": z3.Bool("is_gamma_center"), "is_time_reversal": z3.Bool("is_time_reversal"),
                  "fit_in_BZ": z3.Bool("fit_in_BZ"), "rotations": R0, "is_mesh_symmetry": z3.Bool("is_mesh_symmetry")}
        n0 = len(run.sink.obls)
        ex.call_function(st, m, [Opaque("mesh numbers"), Opaque("reciprocal lattice")], kwargs, self_ref=self_ref, cls="GridPoints")
        if not calls:
            raise CheckerError("%s: spglib's mesh reduction is never called" % pref)
        for (s2, args, kw) in calls:
            rot = args[1] if len(args) > 1 else kw.get("rotations")
            tr = kw.get("is_time_reversal", args[3] if len(args) > 3 else True)
            is_identity_list = isinstance(rot, Ref) and isinstance(s2.heap[rot.id], pyexec.PList) and len(s2.heap[rot.id].items) == 1
            ok_rot = (rot is R0) or is_identity_list
            run.sink.add(pref, "call-pre", list(s2.pc), z3.BoolVal(bool(ok_rot)), replay=lambda model: replay_gridpoints(), meta={
                "label": "rotations: spglib receives the caller's direct-space rotations unchanged, or the identity alone (got %r)" % (rot,)})
            trb = pyexec.truth(tr) if not isinstance(tr, Opaque) else None
            if shift_kind == "arbitrary":
                goal = z3.Not(trb) if trb is not None else z3.BoolVal(False)
            else:
                goal = z3.BoolVal(True)
            run.sink.add(pref, "call-pre", list(s2.pc), goal, replay=lambda model: replay_gridpoints(), meta={
                "label": "time reversal: q -> -q is used only when the shifted grid is mapped onto itself by it (zero or half shift); shift kind: %s" % shift_kind})
        n_total += len(run.sink.obls) - n0
    run.functions.append({"file": GF, "function": "GridPoints.__init__", "line": m.lineno, "sha1": mod.sha(m), "obligations": n_total})
    run.assumed_contracts += ["spglib.get_stabilized_reciprocal_mesh: mapping table sends every grid point to a symmetry-equivalent representative "
                              "(for direct-space rotations, zero/half shifts, optional time reversal)"]


def replay_gridpoints():
    """real GridPoints (spglib is available to the repository's interpreter): arbitrary shift with time reversal, and a
    hexagonal cell where R^T is not a group element"""
    from pvc import creplay
    import json
    code = r'''
import json
import numpy as np
from phonopy.structure.grid_points import GridPoints
import spglib
bad = []
# 1. arbitrary shift: every shifted grid point must be its own representative (no operation maps the grid onto itself)
gp = GridPoints([4, 4, 4], np.eye(3), q_mesh_shift=[0.1, 0.2, 0.3], is_time_reversal=True, rotations=[np.eye(3, dtype=int)])
if len(gp.ir_grid_points) != 64:
    bad.append("time reversal applied to an arbitrarily shifted grid: %d irreducible points for 64 inequivalent grid points" % len(gp.ir_grid_points))
# 2. hexagonal lattice: representatives must be images under the reciprocal operations (R^-1)^T
a, c = 3.0, 5.0
lat = np.array([[a, 0, 0], [-a / 2, a * np.sqrt(3) / 2, 0], [0, 0, c]])
ds = spglib.get_symmetry((lat, [[0, 0, 0]], [1]))
rots = np.unique(ds["rotations"], axis=0)
rec = np.linalg.inv(lat)
gp = GridPoints([3, 3, 3], rec, rotations=rots, is_time_reversal=False, is_gamma_center=True)
addr = gp.grid_address
m = gp.grid_mapping_table
qs = addr / 3.0
recops = [np.linalg.inv(r).T for r in rots]
for i in range(len(m)):
    ok = False
    for r in recops:
        d = r @ qs[m[i]] - qs[i]
        if np.abs(d - np.rint(d)).max() < 1e-8:
            ok = True; break
    if not ok:
        bad.append("grid point %d is not an image of its representative" % i); break
print(json.dumps({"violated": bad}))
'''
    rc, out, err = creplay.py_eval(code)
    if rc != 0:
        return {"reproduced": False, "reason": err[-500:]}
    r = json.loads(out.strip().splitlines()[-1])
    return {"reproduced": bool(r["violated"]), "real_code": r, "expected": "every grid point is an image of its representative; no reduction for arbitrary shifts"}


MF = "phonopy/phonon/mesh.py"


def meshbase_gridpoints_call(run):
    """MeshBase.__init__ (phonopy/phonon/mesh.py): GridPoints gets the caller's rotations unchanged, the mesh numbers, and the
    reciprocal basis as columns (cell . reciprocal == identity)."""
    from contracts.py_cells import mat3, vals
    mod = pyexec.load(MF)
    m = mod.method("MeshBase", "__init__")
    pref = MF + ":MeshBase.__init__"
    st = PState()
    cell = mat3(st, "cell")
    cv = list(vals(st, cell))
    R0 = Opaque("rotations given to the mesh object")
    cap = {}

    def gp(ex, st_, args, kwargs):
        cap["args"], cap["kw"], cap["st"] = list(args), dict(kwargs), st_.clone()
        return st_.new(Record("GridPoints", {"qpoints": Opaque("qpoints"), "weights": Opaque("weights")}))
    prim = st.new(Record("Primitive", {"cell": cell}))
    dm = st.new(Record("DynamicalMatrix", {"primitive": prim}))
    self_ref = st.new(Record("MeshBase", {}))
    ex = PyExec(mod, run.sink, pref, hooks={"new:GridPoints": gp}, opaque_unknown=True, split=True)
    n0 = len(run.sink.obls)
    kw = {"shift": Opaque("shift"), "is_time_reversal": z3.Bool("is_time_reversal"), "is_mesh_symmetry": z3.Bool("is_mesh_symmetry"),
          "with_eigenvectors": False, "is_gamma_center": z3.Bool("is_gamma_center"), "rotations": R0, "factor": z3.Real("factor")}
    ex.call_function(st, m, [dm, Opaque("mesh numbers")], kw, self_ref=self_ref, cls="MeshBase")
    if "kw" not in cap:
        raise CheckerError("MeshBase.__init__: GridPoints is never constructed")
    s2 = cap["st"]
    run.sink.add(pref, "call-pre", list(s2.pc), z3.BoolVal(cap["kw"].get("rotations") is R0),
                 meta={"label": "GridPoints receives the rotations given to the mesh object, unchanged (got %r)" % (cap["kw"].get("rotations"),)})
    rec = cap["args"][1] if len(cap["args"]) > 1 else cap["kw"].get("reciprocal_lattice")
    if not (isinstance(rec, Ref) and isinstance(s2.heap[rec.id], NDArr)):
        raise CheckerError("MeshBase.__init__: reciprocal lattice was abstracted: %r" % (rec,))
    rv = [pyexec.num(x) for x in s2.heap[rec.id].flat]
    for i in range(3):
        for j in range(3):
            ob = run.sink.add(pref, "call-pre", list(s2.pc), sum(cv[i * 3 + k] * rv[k * 3 + j] for k in range(3)) == (1 if i == j else 0),
                              meta={"label": "reciprocal lattice passed as columns: a_%d . b_%d == %d" % (i, j, 1 if i == j else 0)})
            ob.backend = "poly"
    tr = cap["kw"].get("is_time_reversal")
    run.sink.add(pref, "call-pre", list(s2.pc), z3.Implies(pyexec.truth(tr), z3.Bool("is_time_reversal")),
                 meta={"label": "time reversal is used only if the caller allows it"})
    run.functions.append({"file": MF, "function": "MeshBase.__init__", "line": m.lineno, "sha1": mod.sha(m), "obligations": len(run.sink.obls) - n0})


def shift2boolean_contract(run):
    """GridPoints._shift2boolean returns None exactly when some component of the shift is farther than 0.005 from every
    multiple of 1/2 (neither a zero nor a half shift), else three flags -- the contract assumed in gridpoints_spglib_call."""
    mod = pyexec.load(GF)
    m = mod.method("GridPoints", "_shift2boolean")
    pref = GF + ":GridPoints._shift2boolean"
    st = PState()
    mesh = st.new(NDArr((3,), [z3.Int("mesh_%d" % i) for i in range(3)], "intc"))
    s = [z3.Real("s_%d" % i) for i in range(3)]
    sh = st.new(NDArr((3,), list(s)))
    self_ref = st.new(Record("GridPoints", {"_mesh": mesh}))
    ex = PyExec(mod, run.sink, pref, split=True)
    n0 = len(run.sink.obls)
    outs = ex.call_function(st, m, [sh], {"is_gamma_center": z3.Bool("is_gamma_center")}, self_ref=self_ref, cls="GridPoints")
    x = z3.Real("x!fabs")
    fabs = pyexec.FABS if hasattr(pyexec, "FABS") else z3.Function("c_fabs", z3.RealSort(), z3.RealSort())
    ax = z3.ForAll([x], fabs(x) == z3.If(x >= 0, x, -x), patterns=[fabs(x)])

    def dist_to_int(t):
        fl = z3.ToReal(z3.ToInt(t))
        return z3.If(t - fl <= fl + 1 - t, t - fl, fl + 1 - t)
    arbitrary = z3.Or(*[dist_to_int(2 * si) >= z3.RealVal("1/100") for si in s])
    nret = 0
    for (s2, fl, v) in outs:
        if fl != "return":
            continue
        nret += 1
        if v is None:
            run.sink.add(pref, "post", list(s2.pc) + [ax], arbitrary, meta={"label": "None is returned only for a shift that is neither zero nor half"})
        else:
            run.sink.add(pref, "post", list(s2.pc) + [ax], z3.Not(arbitrary), meta={"label": "flags are returned only for zero or half shifts"})
    if nret < 2:
        raise CheckerError("_shift2boolean: %d returning paths" % nret)
    run.functions.append({"file": GF, "function": "GridPoints._shift2boolean", "line": m.lineno, "sha1": mod.sha(m), "obligations": len(run.sink.obls) - n0})


def extract_ir_grid_points_contract(run):
    """extract_ir_grid_points(table): ir points = np.unique(table) (assumed library contract: the distinct values of the table,
    each once), weights = histogram of the table (syntactic *histogram schema*: `w = np.zeros_like(t)`; `for gp in t: w[gp] += 1`,
    nothing else touching w), result weights = w[ir points].
    Lemma (three inductions, z3):  sum_j cnt(U[j], N) == N  for every table T of length N and every duplicate-free list U that
    covers its values, with cnt(g, k) = #{i < k : T[i] == g}  --  i.e. the weights sum to the number of grid points and every grid
    point is counted exactly once."""
    import ast as _ast
    from pvc.spec import RecSum, induction
    mod = pyexec.load(GF)
    fn = mod.funcs["extract_ir_grid_points"]
    pref = GF + ":extract_ir_grid_points"
    n0 = len(run.sink.obls)
    # ---- schema match on the current text
    body = [s_ for s_ in fn.body if not (isinstance(s_, _ast.Expr) and isinstance(s_.value, _ast.Constant))]
    src = [_ast.unparse(s_) for s_ in body]
    arg = fn.args.args[0].arg
    ok = False
    why = "statement list does not have the expected shape"
    try:
        loops = [s_ for s_ in body if isinstance(s_, _ast.For)]
        assert len(loops) == 1, "exactly one loop"
        lp = loops[0]
        assert isinstance(lp.iter, _ast.Name) and lp.iter.id == arg and isinstance(lp.target, _ast.Name), "loop over the table itself"
        assert len(lp.body) == 1 and isinstance(lp.body[0], _ast.AugAssign) and isinstance(lp.body[0].op, _ast.Add), "body is one +="
        tgt = lp.body[0].target
        assert isinstance(tgt, _ast.Subscript) and isinstance(tgt.slice, _ast.Name) and tgt.slice.id == lp.target.id, "w[gp]"
        assert isinstance(lp.body[0].value, _ast.Constant) and lp.body[0].value.value == 1, "+= 1"
        w = tgt.value.id
        init = [s_ for s_ in body if isinstance(s_, _ast.Assign) and isinstance(s_.targets[0], _ast.Name) and s_.targets[0].id == w]
        assert len(init) == 1 and _ast.unparse(init[0].value) == "np.zeros_like(%s)" % arg, "w = np.zeros_like(table)"
        uniq = [s_ for s_ in body if isinstance(s_, _ast.Assign) and "np.unique(%s)" % arg in _ast.unparse(s_.value)]
        assert len(uniq) == 1, "ir points = np.unique(table)"
        u = uniq[0].targets[0].id
        ret = [s_ for s_ in body if isinstance(s_, _ast.Return)][0]
        names = [e.id for e in ret.value.elts]
        assert names[0] == u, "first result is the unique values"
        rw = [s_ for s_ in body if isinstance(s_, _ast.Assign) and isinstance(s_.targets[0], _ast.Name) and s_.targets[0].id == names[1]]
        assert len(rw) == 1 and "%s[%s]" % (w, u) in _ast.unparse(rw[0].value), "weights result is w[ir points]"
        def _root(t_):
            while isinstance(t_, _ast.Subscript):
                t_ = t_.value
            return t_.id if isinstance(t_, _ast.Name) else None
        writes_w = [s_ for s_ in _ast.walk(fn) if isinstance(s_, (_ast.Assign, _ast.AugAssign))
                    and _root(s_.targets[0] if isinstance(s_, _ast.Assign) else s_.target) == w]
        assert len(writes_w) == 2, "w is written only by its initialisation and the += 1"
        ok = True
        why = "matches"
    except (AssertionError, IndexError, AttributeError) as e:
        why = str(e) or why
    ob = run.sink.add(pref, "schema", [], z3.BoolVal(ok), replay=lambda model: replay_extract(),
                      meta={"label": "histogram schema: weights[g] = number of table entries equal to g, ir points = np.unique(table), result = weights[ir points] (%s)" % why})
    # ---- lemma
    I = z3.IntSort()
    T = z3.Function("gm_table", I, I)
    U = z3.Function("gm_unique", I, I)
    J = z3.Function("gm_slot", I, I)           # Skolem function of "np.unique covers every value"
    N, nu = z3.Ints("gm_N gm_nu")
    i_, j_, k_ = z3.Ints("i!g j!g k!g")
    hy = [N >= 0, nu >= 0,
          z3.ForAll([i_], z3.Implies(z3.And(i_ >= 0, i_ < N), z3.And(J(i_) >= 0, J(i_) < nu, U[J(i_)] if False else U(J(i_)) == T(i_))), patterns=[J(i_)]),
          z3.ForAll([j_, k_], z3.Implies(z3.And(j_ >= 0, j_ < nu, k_ >= 0, k_ < nu, j_ != k_), U(j_) != U(k_)))]
    cnt = RecSum("gm_cnt", [I], lambda g, i: z3.If(T(i) == g, 1, 0), sort=I)                 # cnt(g, k)
    W = RecSum("gm_W", [I], lambda k, j: cnt(U(j), k), sort=I)                                # W(k, j) = sum_{j'<j} cnt(U[j'], k)
    E = RecSum("gm_E", [I], lambda k, j: z3.If(U(j) == T(k), 1, 0), sort=I)                   # E(k, j) = #{j'<j : U[j'] == T[k]}
    # R: E(k, j) = [J(k) < j]   for 0 <= k < N, 0 <= j <= nu
    fR = induction(run.sink, pref, "exactly one slot of the unique list holds the value of grid point k", [I],
                   lambda k, j: z3.Implies(z3.And(k >= 0, k < N, j <= nu), E(k, j) == z3.If(J(k) < j, 1, 0)),
                   lambda k, j: [E.zero(k), E.unfold(k, j)], hyps=hy)
    # Q: W(k+1, j) = W(k, j) + E(k, j)   for k >= 0, 0 <= j
    fQ = induction(run.sink, pref, "adding grid point k raises the partial weight sum by the number of matching slots", [I],
                   lambda k, j: z3.Implies(k >= 0, W(k + 1, j) == W(k, j) + E(k, j)),
                   lambda k, j: [W.zero(k), W.zero(k + 1), W.unfold(k, j), W.unfold(k + 1, j), E.zero(k), E.unfold(k, j), cnt.unfold(U(j), k)], hyps=hy)
    # P: W(k, nu) = k  for 0 <= k <= N
    fP = induction(run.sink, pref, "the weights of the unique values sum to the number of grid points seen so far", [],
                   lambda k: z3.Implies(k <= N, W(k, nu) == k),
                   lambda k: [fR, fQ, z3.ForAll([j_], z3.Implies(j_ >= 0, W(0, j_) == 0))], hyps=hy)
    # base fact used above: W(0, j) = 0 (all counts of zero entries are zero)
    induction(run.sink, pref, "no grid point seen: all partial weight sums are zero", [],
              lambda j: W(0, j) == 0, lambda j: [W.zero(0), W.unfold(0, j), cnt.zero(U(j))], hyps=hy)
    run.sink.add(pref, "lemma", hy + [fP], W(N, nu) == N, meta={"label": "sum of the irreducible weights == number of grid points"})
    run.functions.append({"file": GF, "function": "extract_ir_grid_points", "line": fn.lineno, "sha1": mod.sha(fn), "obligations": len(run.sink.obls) - n0})
    run.assumed_contracts += ["numpy.unique(t): the distinct values of t, each exactly once", "histogram schema (syntactic): after `w = zeros_like(t); for g in t: w[g] += 1`, w[g] == #{i : t[i] == g}"]


def replay_extract():
    from pvc import creplay
    import json
    code = r'''
import json
import numpy as np
from phonopy.structure.grid_points import extract_ir_grid_points
rng = np.random.default_rng(0)
bad = None
for trial in range(50):
    n = int(rng.integers(1, 30))
    t = rng.integers(0, n, size=n)
    t = np.minimum(t, np.arange(n)).astype("int64")
    ir, w = extract_ir_grid_points(t)
    cnt = np.array([(t == g).sum() for g in ir])
    if int(np.sum(w)) != n or not np.array_equal(np.sort(np.unique(t)), np.sort(ir)) or not np.array_equal(cnt, w):
        bad = {"table": t.tolist(), "ir": np.array(ir).tolist(), "weights": np.array(w).tolist()}
        break
print(json.dumps({"counterexample": bad}))
'''
    rc, out, err = creplay.py_eval(code)
    if rc != 0:
        return {"reproduced": False, "reason": err[-400:]}
    r = json.loads(out.strip().splitlines()[-1])
    return {"reproduced": r["counterexample"] is not None, "real_code": r, "expected": "weights are the histogram of the table over its distinct values and sum to len(table)"}
