"""C08 — non-analytical term correction: Gonze-Lee Born-charge contraction kernels (c/dynmat.c) and lemmas over the Wang
contract of contracts/c_dynmat.py (get_dynmat_want: charge sum (n.Z_i)_a (n.Z_j)_b f / (N n.eps.n) added to every element)."""
import z3

from pvc.core import Contract, LoopSpec
from pvc.cexec import NS
from pvc.spec import RecSum, induction
from contracts import c_dynmat as D
from contracts.lemmas_dynmat import Arr, _view

F = "c/dynmat.c"
I = z3.IntSort()
R = z3.RealSort()
a_, b_, x_, y_, c_ = z3.Ints("a_ b_ x_ y_ c_")
DDS = {"dd": lambda P: [P.num_patom, 3, P.num_patom, 3, 2], "dd_in": lambda P: [P.num_patom, 3, P.num_patom, 3, 2],
       "born": lambda P: [P.num_patom, 3, 3]}


def contracted(V, i, j, k, l, c):
    """sum_{m,n} Z_i[m][k] dd_in[i,m,j,n] Z_j[n][l]  -- the contraction (n.Z_i)_k (n.Z_j)_l of a dyadic n_m n_n"""
    born, din = V.a.born, V.a.dd_in
    return sum(din[i, m, j, n, c] * (born[i, m, k] * born[j, n, l]) for m in range(3) for n in range(3))


def multiply_borns_at_ij_contract():
    def req(V):
        n = V.p.num_patom
        return [n >= 1, V.p.i >= 0, V.p.i < n, V.p.j >= 0, V.p.j < n]

    def ens(V):
        i, j, n = V.p.i, V.p.j, V.p.num_patom
        dd, old = V.a.dd, V.old.a.dd
        out = []
        for k in range(3):
            for l in range(3):
                for c in range(2):
                    out.append(("dd[i,%d,j,%d,%s]" % (k, l, "re" if c == 0 else "im"),
                                dd[i, k, j, l, c] == old[i, k, j, l, c] + contracted(V.old, i, j, k, l, c)))
        out.append(("frame", z3.ForAll([a_, x_, b_, y_, c_], z3.Implies(
            z3.And(a_ >= 0, a_ < n, b_ >= 0, b_ < n, x_ >= 0, x_ < 3, y_ >= 0, y_ < 3, c_ >= 0, c_ < 2, z3.Or(a_ != i, b_ != j)),
            dd[a_, x_, b_, y_, c_] == old[a_, x_, b_, y_, c_]))))
        return out

    def gen(rnd):
        import numpy as np
        n = rnd.randint(1, 3)
        return {"dd": np.array([rnd.uniform(-1, 1) for _ in range(n * n * 18)]).reshape(n, 3, n, 3, 2), "i": rnd.randrange(n), "j": rnd.randrange(n),
                "dd_in": np.array([rnd.uniform(-1, 1) for _ in range(n * n * 18)]).reshape(n, 3, n, 3, 2), "num_patom": n,
                "born": np.array([rnd.uniform(-2, 2) for _ in range(9 * n)]).reshape(n, 3, 3)}
    return Contract(F, "multiply_borns_at_ij", shapes=DDS, requires=req, ensures=ens, modifies=("dd",), gen=gen, lib="dynmat", abstract_mul=True)


def multiply_borns_contract():
    def req(V):
        return [V.p.num_patom >= 1]

    def state(V, done):
        n = V.p.num_patom
        dd, old = V.a.dd, V.old.a.dd
        out = []
        for k in range(3):
            for l in range(3):
                for c in range(2):
                    out.append(("dd[.,%d,.,%d,%d]" % (k, l, c), z3.ForAll([a_, b_], z3.Implies(
                        z3.And(a_ >= 0, a_ < n, b_ >= 0, b_ < n),
                        dd[a_, k, b_, l, c] == old[a_, k, b_, l, c] + z3.If(done(a_, b_), contracted(V.old, a_, b_, k, l, c), 0)))))
        return out

    def inv_ij(V):
        n, ij = V.p.num_patom, V.v.ij
        return [("range", z3.And(ij >= 0, ij <= n * n))] + state(V, lambda a, b: z3.Or(a < ij / n, z3.And(a == ij / n, b < ij % n)))

    def inv_i(V):
        return [("range", z3.And(V.v.i >= 0, V.v.i <= V.p.num_patom))] + state(V, lambda a, b: a < V.v.i)

    def inv_j(V):
        n = V.p.num_patom
        return [("range", z3.And(V.v.i >= 0, V.v.i < n, V.v.j >= 0, V.v.j <= n))] + state(V, lambda a, b: z3.Or(a < V.v.i, z3.And(a == V.v.i, b < V.v.j)))

    def ens(V):
        return state(V, lambda a, b: z3.BoolVal(True))
    return Contract(F, "multiply_borns", shapes=DDS, requires=req, ensures=ens, modifies=("dd",),
                    loops={0: LoopSpec(inv_ij), 1: LoopSpec(inv_i), 2: LoopSpec(inv_j)}, use_contracts={"multiply_borns_at_ij"},
                    abstract_mul=True)


def multiply_borns_safety_contract():
    """callee inlined: every subscript in range, and under `omp parallel for` the writes of different iterations are disjoint"""
    return Contract(F, "multiply_borns", tag="[safety]", shapes=DDS, requires=lambda V: [V.p.num_patom >= 1], modifies=("dd",),
                    auto_range=True, race=True,
                    loops={0: LoopSpec(lambda V: [("range", z3.And(V.v.ij >= 0, V.v.ij <= V.p.num_patom * V.p.num_patom))]),
                           1: LoopSpec(lambda V: [("range", z3.And(V.v.i >= 0, V.v.i <= V.p.num_patom))]),
                           2: LoopSpec(lambda V: [("range", z3.And(V.v.i >= 0, V.v.i < V.p.num_patom, V.v.j >= 0, V.v.j <= V.p.num_patom))])})


# ------------------------------------------------------------------ lemmas over the Wang contract
def wang_lemmas(run):
    pref = F + ":get_dynmat_want[lemmas]"
    n = [z3.Real("n_%d" % i) for i in range(3)]
    lam = z3.Real("lambda")
    born, eps = Arr("born", 3), Arr("dielectric", 2)
    f, N = z3.Real("nac_factor"), z3.Real("n_cells")
    i, j = z3.Ints("i j")

    def cs(q, a, b):
        return D.qZ(q, born, i, a) * D.qZ(q, born, j, b) * (f / N / D.qeq(q, eps))
    ln = [lam * x for x in n]
    for a in range(3):
        for b in range(3):
            ob = run.sink.add(pref, "lemma", [lam != 0, D.qeq(n, eps) != 0, N != 0], cs(ln, a, b) == cs(n, a, b),
                              meta={"label": "the charge-sum term does not depend on the length of the direction n (element %d,%d)" % (a, b)})
            ob.backend = "poly"
    # zero Born charges: the term vanishes, so the corrected force-constant element is the uncorrected one
    z = [z3.ForAll([a_, x_, y_], born[a_, x_, y_] == 0)]
    for a in range(3):
        for b in range(3):
            run.sink.add(pref, "lemma", z, cs(n, a, b) == 0, meta={"label": "zero Born effective charges make the charge-sum term zero (element %d,%d)" % (a, b)})
    # zone centre: with q = 0 every phase factor is 1, so the term enters D as  N_images(j) * cs / sqrt(m_i m_j)
    V = _view()
    S0 = D.Spec(V, cs_null=True)
    csarr = Arr("charge_sum", 4)
    Sc = D.Spec(V, cs=csarr, cs_null=False)
    cos = z3.Function("c_cos", R, R)
    sin = z3.Function("c_sin", R, R)
    kk, dd = z3.Ints("k!w d!w")
    hy = [z3.ForAll([c_], V.a.q[c_] == 0), cos(0) == 1, sin(0) == 0, z3.ForAll([kk, dd], V.a.multi[kk, dd, 0] >= 1)]

    def P1(k, i_, m):
        return z3.And(S0.cosS(k, i_, m) * z3.ToReal(V.a.multi[k, i_, 0]) == z3.ToReal(m), S0.sinS(k, i_, m) == 0)

    def U1(k, i_, m):
        return [S0.cosS.zero(k, i_), S0.sinS.zero(k, i_), S0.cosS.unfold(k, i_, m), S0.sinS.unfold(k, i_, m)]
    f1 = induction(run.sink, pref, "zone centre: the phase average of l images is l / multiplicity (cos 0 = 1, sin 0 = 0)", [I, I], P1, U1, hyps=hy)
    cnt = RecSum("images_of_j", [I], lambda j_, k: z3.If(V.a.s2p_map[k] == V.a.p2s_map[j_], z3.RealVal(1), z3.RealVal(0)))

    def P2(i_, j_, a, b, m):
        return z3.And(Sc.Tre(i_, j_, a, b, m) == S0.Tre(i_, j_, a, b, m) + csarr[i_, j_, a, b] * cnt(j_, m),
                      Sc.Tim(i_, j_, a, b, m) == 0, S0.Tim(i_, j_, a, b, m) == 0)

    def U2(i_, j_, a, b, m):
        return [Sc.Tre.zero(i_, j_, a, b), S0.Tre.zero(i_, j_, a, b), Sc.Tim.zero(i_, j_, a, b), S0.Tim.zero(i_, j_, a, b), cnt.zero(j_),
                Sc.Tre.unfold(i_, j_, a, b, m), S0.Tre.unfold(i_, j_, a, b, m), Sc.Tim.unfold(i_, j_, a, b, m), S0.Tim.unfold(i_, j_, a, b, m),
                cnt.unfold(j_, m)]
    induction(run.sink, pref, "zone centre: Fourier sum with the charge-sum term == uncorrected sum + (number of images of j) * term, imaginary parts 0",
              [I, I, I, I], P2, U2, hyps=hy + [f1])
    run.axioms += ["cos(0) = 1, sin(0) = 0 for the uninterpreted c_cos / c_sin"]
    run.not_decided += ["that the phase sum over the images of an atom vanishes at non-zero commensurate q (finite geometric sum), i.e. the Wang correction is a no-op there",
                        "Gonze-Lee reciprocal-space sum (get_dd, dym_get_recip_dipole_dipole) beyond the Born-charge contraction", "symmetrize_borns_and_epsilon"]


# ------------------------------------------------------------------ Gonze-Lee reciprocal-space sum (get_dd, get_dd_at_g)
GDS = {"dd_part": lambda P: [P.num_patom, 3, P.num_patom, 3, 2], "G_list": lambda P: [P.num_G, 3], "q_cart": lambda P: [3],
       "q_direction_cart": lambda P: [3], "dielectric": lambda P: [3, 3], "pos": lambda P: [P.num_patom, 3], "G": lambda P: [3], "KK": lambda P: [3, 3]}
PI = D.PI
g_ = z3.Int("g_")


def _kk_spec(V, g, a, b):
    """K = G_g + q.  |K| < tolerance: 0 without a direction, n_a n_b / (n.eps.n) with a direction n; otherwise
    K_a K_b / (K.eps.K) exp(-K.eps.K / (4 lambda^2))"""
    sq = z3.Function("c_sqrt", R, R)
    ex = z3.Function("c_exp", R, R)
    G, q, eps = V.a.G_list, V.a.q_cart, V.a.dielectric
    K = [G[g, x] + q[x] for x in range(3)]
    norm = K[0] * K[0] + K[1] * K[1] + K[2] * K[2]
    small = sq(norm) < V.p.tolerance
    keK = D.qeq(K, eps)
    L2 = 4 * V.p["lambda"] * V.p["lambda"] if hasattr(V.p, "__getitem__") else 4 * getattr(V.p, "lambda") * getattr(V.p, "lambda")
    far = K[a] * K[b] / keK * ex(-keK / L2)
    if "q_direction_cart" in V.a:
        n = [V.a.q_direction_cart[x] for x in range(3)]
        near = z3.If(V.null.q_direction_cart, z3.RealVal(0), n[a] * n[b] / D.qeq(n, eps))
    else:
        near = z3.RealVal(0)
    return z3.If(small, near, far)


def get_dd_at_g_contract():
    cos = z3.Function("c_cos", R, R)
    sin = z3.Function("c_sin", R, R)

    def req(V):
        n = V.p.num_patom
        return [n >= 1, V.p.i >= 0, V.p.i < n, V.p.j >= 0, V.p.j < n]

    def phase(V):
        i, j = V.p.i, V.p.j
        return ((V.a.pos[i, 0] - V.a.pos[j, 0]) * V.a.G[0] + (V.a.pos[i, 1] - V.a.pos[j, 1]) * V.a.G[1] + (V.a.pos[i, 2] - V.a.pos[j, 2]) * V.a.G[2]) * 2 * PI

    def ens(V):
        i, j, n = V.p.i, V.p.j, V.p.num_patom
        dd, old = V.a.dd_part, V.old.a.dd_part
        ph = phase(V.old)
        out = []
        for k in range(3):
            for l in range(3):
                out.append(("re[%d,%d]" % (k, l), dd[i, k, j, l, 0] == old[i, k, j, l, 0] + V.old.a.KK[k, l] * cos(ph)))
                out.append(("im[%d,%d]" % (k, l), dd[i, k, j, l, 1] == old[i, k, j, l, 1] + V.old.a.KK[k, l] * sin(ph)))
        out.append(("frame", z3.ForAll([a_, x_, b_, y_, c_], z3.Implies(
            z3.And(a_ >= 0, a_ < n, b_ >= 0, b_ < n, x_ >= 0, x_ < 3, y_ >= 0, y_ < 3, c_ >= 0, c_ < 2, z3.Or(a_ != i, b_ != j)),
            dd[a_, x_, b_, y_, c_] == old[a_, x_, b_, y_, c_]))))
        return out
    return Contract(F, "get_dd_at_g", shapes=GDS, macros={"PI": PI}, requires=req, ensures=ens, modifies=("dd_part",), abstract_mul=True)


def get_dd_contract():
    """get_dd: (1) first loop (OpenMP): KK[g][a][b] == kk_spec(g, a, b) for every g, race free;
    (2) dd_part[i,a,j,b] += sum_g kk_spec(g,a,b) * exp(2 pi i (pos_i - pos_j) . G_g)  (real and imaginary parts), frame."""
    cos = z3.Function("c_cos", R, R)
    sin = z3.Function("c_sin", R, R)

    def req(V):
        eps = V.a.dielectric
        lam = getattr(V.p, "lambda")
        G, q = V.a.G_list, V.a.q_cart
        K = lambda g: [G[g, x] + q[x] for x in range(3)]      # noqa: E731
        # the dielectric tensor is non-degenerate along every K that is used and along the direction (it is positive
        # definite for a physical crystal; symmetrize_borns_and_epsilon is not verified)
        return [V.p.num_G >= 0, V.p.num_patom >= 1, lam > 0, 4 * lam * lam != 0, V.p.tolerance > 0,
                z3.ForAll([g_], z3.Implies(z3.And(g_ >= 0, g_ < V.p.num_G), D.qeq(K(g_), eps) != 0)),
                z3.Implies(z3.Not(V.null.q_direction_cart), D.qeq([V.a.q_direction_cart[x] for x in range(3)], eps) != 0)]

    def S(V, a, b, c):
        Vo = V.old if V.old is not None else V
        pos, G = Vo.a.pos, Vo.a.G_list

        def term(i, j, g):
            ph = ((pos[i, 0] - pos[j, 0]) * G[g, 0] + (pos[i, 1] - pos[j, 1]) * G[g, 1] + (pos[i, 2] - pos[j, 2]) * G[g, 2]) * 2 * PI
            return _kk_spec(Vo, g, a, b) * (cos(ph) if c == 0 else sin(ph))
        return RecSum("gl_dd_%d%d%d" % (a, b, c), [I, I], term)

    def inv_g(V):
        g = V.v.g
        out = [("range", z3.And(g >= 0, g <= V.p.num_G))]
        for a in range(3):
            for b in range(3):
                out.append(("KK[%d,%d]" % (a, b), z3.ForAll([g_], z3.Implies(z3.And(g_ >= 0, g_ < g), V.a.KK[g_, a, b] == _kk_spec(V, g_, a, b)))))
        return out

    def acc(V, g, extra):
        n = V.p.num_patom
        dd, old = V.a.dd_part, V.old.a.dd_part
        out = []
        for a in range(3):
            for b in range(3):
                for c in range(2):
                    s = S(V, a, b, c)
                    out.append(("dd[.,%d,.,%d,%d]" % (a, b, c), z3.ForAll([a_, b_], z3.Implies(
                        z3.And(a_ >= 0, a_ < n, b_ >= 0, b_ < n),
                        dd[a_, a, b_, b, c] == old[a_, a, b_, b, c] + s(a_, b_, g) + z3.If(extra(a_, b_), s.term(a_, b_, g), 0)))))
        return out

    def inv_g2(V):
        g = V.v.g
        return [("range", z3.And(g >= 0, g <= V.p.num_G))] + acc(V, g, lambda x, y: z3.BoolVal(False))

    def inv_i2(V):
        g, i = V.v.g, V.v.i
        return [("range", z3.And(g >= 0, g < V.p.num_G, i >= 0, i <= V.p.num_patom))] + acc(V, g, lambda x, y: x < i)

    def inv_j2(V):
        g, i, j = V.v.g, V.v.i, V.v.j
        n = V.p.num_patom
        return [("range", z3.And(g >= 0, g < V.p.num_G, i >= 0, i < n, j >= 0, j <= n))] + acc(V, g, lambda x, y: z3.Or(x < i, z3.And(x == i, y < j)))

    def unf(V):
        g = V.v.g
        x, y = z3.Ints("x!u y!u")
        out = []
        for a in range(3):
            for b in range(3):
                for c in range(2):
                    s = S(V, a, b, c)
                    out += [z3.ForAll([x, y], s.unfold(x, y, g), patterns=[s(x, y, g)]),
                            z3.ForAll([x, y], s.unfold(x, y, g - 1), patterns=[s(x, y, g)]),
                            z3.ForAll([x, y], s.zero(x, y), patterns=[s(x, y, 0)])]
        return out

    def ens(V):
        return acc(V, V.p.num_G, lambda x, y: z3.BoolVal(False))
    from contracts import replay_dynmat as RD
    return Contract(F, "get_dd", replay_fn=RD.replay_get_dd, shapes={k: v for k, v in GDS.items() if k not in ("KK", "G")}, nullable=("q_direction_cart",),
                    local_shapes={"KK": lambda V: [V.p.num_G, 3, 3]}, macros={"PI": PI},
                    requires=req, ensures=ens, modifies=("dd_part",), race=True, auto_range=True, use_contracts={"get_dielectric_part", "get_dd_at_g"},
                    loops={0: LoopSpec(inv_g), 8: LoopSpec(inv_g2, unfold=unf), 9: LoopSpec(inv_i2, unfold=unf), 10: LoopSpec(inv_j2, unfold=unf)},
                    abstract_mul=True, split=True)

