"""C01 — symmetry expansion of solved force-constant rows (c/phonopy.c: distribute_fc2) and the atom
matching kernel phpy_compute_permutation."""
import z3

from pvc.core import Contract, LoopSpec

F = "c/phonopy.c"
NFC = z3.Int("n_fc_rows")
i_, k_, p_, q_, a_, b_ = z3.Ints("i_ k_ p_ q_ a_ b_")
G = z3.Function("done_index", z3.IntSort(), z3.IntSort())     # ghost: position in atom_list of a 'done' atom

SH = {"fc2": lambda P: [NFC, P.num_pos, 3, 3], "atom_list": lambda P: [P.len_atom_list], "fc_indices_of_atom_list": lambda P: [P.len_atom_list],
      "r_carts": lambda P: [P.num_rot, 3, 3], "permutations": lambda P: [P.num_rot, P.num_pos], "map_atoms": lambda P: [P.num_pos],
      "map_syms": lambda P: [P.num_pos]}


def distribute_fc2_contract():
    def req(V):
        n, L, nr = V.p.num_pos, V.p.len_atom_list, V.p.num_rot
        al, fi, ma, ms, pm = V.a.atom_list, V.a.fc_indices_of_atom_list, V.a.map_atoms, V.a.map_syms, V.a.permutations
        return [n >= 1, L >= 0, nr >= 1, NFC >= 1,
                z3.ForAll([i_], z3.Implies(z3.And(i_ >= 0, i_ < L), z3.And(al[i_] >= 0, al[i_] < n, fi[i_] >= 0, fi[i_] < NFC))),
                z3.ForAll([i_, k_], z3.Implies(z3.And(i_ >= 0, i_ < L, k_ >= 0, k_ < L, i_ != k_), z3.And(al[i_] != al[k_], fi[i_] != fi[k_]))),
                z3.ForAll([i_], z3.Implies(z3.And(i_ >= 0, i_ < n), z3.And(ma[i_] >= 0, ma[i_] < n, ms[i_] >= 0, ms[i_] < nr))),
                z3.ForAll([k_, i_], z3.Implies(z3.And(k_ >= 0, k_ < nr, i_ >= 0, i_ < n), z3.And(pm[k_, i_] >= 0, pm[k_, i_] < n))),
                # every atom of the list maps onto a 'done' atom that is itself in the list (the Python layer passes all atoms)
                z3.ForAll([i_], z3.Implies(z3.And(i_ >= 0, i_ < L), z3.And(
                    G(ma[al[i_]]) >= 0, G(ma[al[i_]]) < L, al[G(ma[al[i_]])] == ma[al[i_]], ma[ma[al[i_]]] == ma[al[i_]])))]

    def todo(V, i):
        al, ma = V.old.a.atom_list, V.old.a.map_atoms
        return ma[al[i]] != al[i]

    def rotated(V, i, other, j, k):
        """sum_{l,m} R[l][j] R[m][k] fc_old[row(done(i))][perm(other)][l][m]"""
        al, fi, ma, ms, pm, r = (V.old.a.atom_list, V.old.a.fc_indices_of_atom_list, V.old.a.map_atoms, V.old.a.map_syms,
                                  V.old.a.permutations, V.old.a.r_carts)
        s = ms[al[i]]
        drow = fi[G(ma[al[i]])]
        tot = z3.RealVal(0)
        for l in range(3):
            for m in range(3):
                tot = tot + r[s, l, j] * r[s, m, k] * V.old.a.fc2[drow, pm[s, other], l, m]
        return tot

    def rows(V, upto_i, upto_other=None):
        n, L = V.p.num_pos, V.p.len_atom_list
        fc, old, fi = V.a.fc2, V.old.a.fc2, V.old.a.fc_indices_of_atom_list
        out = []
        for j in range(3):
            for k in range(3):
                if upto_other is None:
                    done = i_ < upto_i
                else:
                    done = z3.Or(i_ < upto_i, z3.And(i_ == upto_i, q_ < upto_other))
                out.append(("row[%d,%d]" % (j, k), z3.ForAll([i_, q_], z3.Implies(
                    z3.And(i_ >= 0, i_ < L, q_ >= 0, q_ < n),
                    fc[fi[i_], q_, j, k] == z3.If(z3.And(todo(V, i_), done), old[fi[i_], q_, j, k] + rotated(V, i_, q_, j, k), old[fi[i_], q_, j, k])))))
        out.append(("other rows", z3.ForAll([p_, q_, a_, b_], z3.Implies(
            z3.And(p_ >= 0, p_ < NFC, q_ >= 0, q_ < n, a_ >= 0, a_ < 3, b_ >= 0, b_ < 3,
                   z3.ForAll([i_], z3.Implies(z3.And(i_ >= 0, i_ < L), fi[i_] != p_))),
            fc[p_, q_, a_, b_] == old[p_, q_, a_, b_]))))
        return out

    def inv0(V):
        L = V.p.len_atom_list
        al, ma = V.a.atom_list, V.a.map_atoms
        rev = V.a.atom_list_reverse
        return [("range", z3.And(V.v.i >= 0, V.v.i <= L)),
                ("reverse", z3.ForAll([k_], z3.Implies(z3.And(k_ >= 0, k_ < V.v.i, ma[al[k_]] == al[k_]), rev[al[k_]] == k_)))]

    def rev_fact(V):
        L = V.p.len_atom_list
        al, ma = V.a.atom_list, V.a.map_atoms
        rev = V.a.atom_list_reverse
        return ("reverse", z3.ForAll([k_], z3.Implies(z3.And(k_ >= 0, k_ < L, ma[al[k_]] == al[k_]), rev[al[k_]] == k_)))

    def inv1(V):
        return [("range", z3.And(V.v.i >= 0, V.v.i <= V.p.len_atom_list)), rev_fact(V)] + rows(V, V.v.i)

    def inv2(V):
        return [("range", z3.And(V.v.i >= 0, V.v.i < V.p.len_atom_list, V.v.atom_other >= 0, V.v.atom_other <= V.p.num_pos,
                                 todo(V, V.v.i))), rev_fact(V)] + rows(V, V.v.i, V.v.atom_other)

    def ens(V):
        return rows(V, V.p.len_atom_list)

    def gen(rnd):
        import numpy as np
        n, nr = rnd.randint(1, 4), rnd.randint(1, 3)
        perms = np.array([rnd.sample(range(n), n) for _ in range(nr)]).reshape(nr, n)
        ndone = rnd.randint(1, n)
        done = sorted(rnd.sample(range(n), ndone))
        ma = np.array([a if a in done else rnd.choice(done) for a in range(n)])
        ms = np.array([rnd.randrange(nr) for _ in range(n)])
        fc = np.zeros((n, n, 3, 3))
        for d in done:
            fc[d] = np.array([rnd.uniform(-1, 1) for _ in range(n * 9)]).reshape(n, 3, 3)
        def rot():
            # half of the draws are crystallographic point operations in Cartesian axes (signed permutation matrices,
            # in particular the two-folds diag(-1,-1,1) and mirrors), the others arbitrary matrices
            if rnd.random() < 0.5:
                p_ = rnd.sample(range(3), 3)
                m_ = np.zeros((3, 3))
                for a_ in range(3):
                    m_[a_, p_[a_]] = rnd.choice([-1.0, 1.0])
                if rnd.random() < 0.6:
                    m_ = np.diag([rnd.choice([-1.0, 1.0]) for _ in range(3)])
                return m_
            return np.array([rnd.uniform(-1, 1) for _ in range(9)]).reshape(3, 3)
        return {"fc2": fc, "atom_list": np.arange(n), "len_atom_list": n, "fc_indices_of_atom_list": np.arange(n),
                "r_carts": np.array([rot() for _ in range(nr)]).reshape(nr, 3, 3), "permutations": perms,
                "map_atoms": ma, "map_syms": ms, "num_rot": nr, "num_pos": n, "n_fc_rows": n}

    def interp(h, ev, env):
        ma = env["map_atoms"]
        return {"done_index": lambda d: int(d)}     # atom_list == arange in the generator
    return Contract(F, "distribute_fc2", shapes=SH, local_shapes={"atom_list_reverse": lambda V: [V.p.num_pos]},
                    requires=req, ensures=ens, modifies=("fc2",),
                    loops={0: LoopSpec(inv0), 1: LoopSpec(inv1), 2: LoopSpec(inv2)}, abstract_mul=True, gen=gen, interp=interp)
