"""C08 — DynamicalMatrixNAC (phonopy/harmonic/dynamical_matrix.py): the unit factor handed to the solver and the
zone-centre switch of run()."""
import z3

from pvc import pyexec
from pvc.core import CheckerError
from pvc.pyexec import PyExec, PState, Record, NDArr, Opaque, Ref

DF = "phonopy/harmonic/dynamical_matrix.py"
PI = z3.Real("pi")


def nac_factor_contract(run):
    """For an object in ANY state (every attribute the code may have cached is unknown), after _set_basic_nac_params(p)
    the property nac_factor is p['factor'] * 4 pi / primitive-cell volume."""
    mod = pyexec.load(DF)
    pref = DF + ":DynamicalMatrixNAC.nac_factor"
    st = PState()
    vol = z3.Real("volume")
    fac = z3.Real("factor")
    st.pc.append(vol > 0)             # a cell volume
    pcell = st.new(Record("Primitive", {"volume": vol}))
    self_ref = st.new(Record("DynamicalMatrixNAC", {"_pcell": pcell}))
    ex = PyExec(mod, run.sink, pref, hooks={"numpy.pi": lambda *a: PI}, opaque_unknown=True, split=True)
    ex.globals["np.pi"] = PI
    n0 = len(run.sink.obls)
    d = {"born": Opaque("born"), "dielectric": Opaque("dielectric"), "factor": fac}
    outs = ex.call_function(st, mod.method("DynamicalMatrixNAC", "_set_basic_nac_params"), [d], self_ref=self_ref, cls="DynamicalMatrixNAC")
    nret = 0
    for (s1, fl, _) in outs:
        if fl != "return":
            continue
        prop = [n for n in mod.classes["DynamicalMatrixNAC"].body if getattr(n, "name", None) == "nac_factor"][0]
        outs2 = ex.call_function(s1.clone(), prop, [], self_ref=self_ref, cls="DynamicalMatrixNAC")
        for (s2, fl2, v) in outs2:
            if fl2 != "return":
                continue
            nret += 1
            if isinstance(v, Opaque):
                goal = z3.BoolVal(False)
                lab = "nac_factor after setting NAC parameters is the new factor * 4 pi / volume (it is a value unrelated to the new parameters: %s)" % v.why
            else:
                goal = pyexec.num(v) == fac * 4 * PI / vol
                lab = "nac_factor after setting NAC parameters is the new factor * 4 pi / volume"
            ob = run.sink.add(pref, "post", list(s2.pc) + [vol != 0], goal, meta={"label": lab}, replay=lambda model: replay_nac_factor())
            if not isinstance(v, Opaque):
                ob.backend = "poly"
    if nret == 0:
        raise CheckerError("nac_factor: no returning path")
    run.functions.append({"file": DF, "function": "DynamicalMatrixNAC._set_basic_nac_params/nac_factor", "line": 0,
                          "sha1": mod.sha(mod.method("DynamicalMatrixNAC", "_set_basic_nac_params")), "obligations": len(run.sink.obls) - n0})


def replay_nac_factor():
    from pvc import creplay
    import json
    code = r'''
import json
import numpy as np
import phonopy.harmonic.dynamical_matrix as dmm
class P: volume = 10.0
o = dmm.DynamicalMatrixNAC.__new__(dmm.DynamicalMatrixNAC)
o._pcell = P()
for k in ("_nac_factor",):
    setattr(o, k, None)
p1 = {"born": np.zeros((1, 3, 3)), "dielectric": np.eye(3), "factor": 2.0}
o._set_basic_nac_params(p1); f1 = o.nac_factor
p2 = dict(p1, factor=5.0)
o._set_basic_nac_params(p2); f2 = o.nac_factor
print(json.dumps({"first": f1, "after_reassignment": f2, "expected_after": 5.0 * 4 * np.pi / 10.0}))
'''
    rc, out, err = creplay.py_eval(code)
    if rc != 0:
        return {"reproduced": False, "reason": err[-400:]}
    r = json.loads(out.strip().splitlines()[-1])
    return {"reproduced": abs(r["after_reassignment"] - r["expected_after"]) > 1e-12, "real_code": r,
            "history": "set NAC parameters (factor 2), read nac_factor, set NAC parameters again (factor 5), read nac_factor"}


def nac_params_not_modified(run):
    """DynamicalMatrixGL._set_nac_params / DynamicalMatrixWang._set_nac_params: the dictionary handed in by the caller
    (Phonopy passes its own _nac_params, or the user's dict when is_symmetry=False) is only read."""
    mod = pyexec.load(DF)
    n_total = 0
    for cls in ("DynamicalMatrixGL", "DynamicalMatrixWang"):
        m = mod.method(cls, "_set_nac_params")
        pref = DF + ":%s._set_nac_params" % cls
        st = PState()
        arg = Opaque("NAC parameter dictionary of the caller")
        self_ref = st.new(Record(cls, {"_pcell": st.new(Record("Primitive", {"volume": z3.Real("volume")})), "_num_G_points": z3.Int("num_G_points"),
                                       "_dielectric": Opaque("dielectric")}))
        st.pc.append(z3.Real("volume") > 0)
        st.pc.append(PI > 0)
        clog = z3.Function("c_log", z3.RealSort(), z3.RealSort())
        st.pc.append(clog(z3.RealVal("1/10000000000")) < 0)            # log(1e-10) < 0 (A-LIBM: log x < 0 for 0 < x < 1)
        hooks = {"%s._get_G_list" % cls: lambda ex, st_, a, k: Opaque("G list"), "DynamicalMatrixNAC._set_basic_nac_params": lambda ex, st_, a, k: None,
                 "%s._set_basic_nac_params" % cls: lambda ex, st_, a, k: None}
        ex = PyExec(mod, run.sink, pref, hooks=hooks, opaque_unknown=True, split=True)
        n0 = len(run.sink.obls)
        outs = ex.call_function(st, m, [arg], self_ref=self_ref, cls=cls)
        nret = 0
        for (s2, fl, v) in outs:
            if fl != "return":
                continue
            nret += 1
            hits = sorted({str(ln) for (b, ln) in s2.writes if b == arg.buf})
            run.sink.add(pref, "ownership", list(s2.pc), z3.BoolVal(not hits), replay=(lambda model, c=cls: replay_nac_dict(c)),
                         meta={"label": "the caller's NAC parameter dictionary is not written" + (" (written at line(s) %s)" % ", ".join(hits) if hits else "")})
        if nret == 0:
            raise CheckerError("%s._set_nac_params: no returning path" % cls)
        n_total += len(run.sink.obls) - n0
        run.functions.append({"file": DF, "function": "%s._set_nac_params" % cls, "line": m.lineno, "sha1": mod.sha(m), "obligations": len(run.sink.obls) - n0})


def replay_nac_dict(cls):
    from pvc import creplay
    import json
    code = r'''
import json
import numpy as np
import phonopy.harmonic.dynamical_matrix as dmm
C = getattr(dmm, CLS)
class P: volume = 40.0
o = C.__new__(C)
o._pcell = P(); o._num_G_points = 300; o._log_level = 0
o._get_G_list = lambda *a, **k: np.zeros((1, 3))
p = {"born": np.zeros((2, 3, 3)), "dielectric": np.eye(3), "factor": 14.4}
keys = sorted(p)
o._set_nac_params(p)
print(json.dumps({"keys_before": keys, "keys_after": sorted(p)}))
'''.replace("CLS", repr(cls))
    rc, out, err = creplay.py_eval(code)
    if rc != 0:
        return {"reproduced": False, "reason": err[-400:]}
    r = json.loads(out.strip().splitlines()[-1])
    return {"reproduced": r["keys_before"] != r["keys_after"], "real_code": r, "expected": "the dictionary passed in is unchanged"}


def gl_cartesian_q(run):
    """DynamicalMatrixGL._get_Gonze_dipole_dipole: the Cartesian q-point (and direction) handed to the reciprocal-space
    dipole-dipole kernel is rec_lat . q with rec_lat the reciprocal basis as column vectors -- the same conversion the C solver
    uses (get_q_cart, C02), so that what is subtracted at the commensurate points is what is added back."""
    from contracts.py_cells import mat3, vals
    mod = pyexec.load(DF)
    m = mod.method("DynamicalMatrixGL", "_get_Gonze_dipole_dipole")
    pref = DF + ":DynamicalMatrixGL._get_Gonze_dipole_dipole"
    st = PState()
    rec = mat3(st, "rec")
    rv = list(vals(st, rec))
    q = st.new(NDArr((3,), [z3.Real("q_%d" % i) for i in range(3)]))
    qd = st.new(NDArr((3,), [z3.Real("n_%d" % i) for i in range(3)]))
    qv, nv = list(st.heap[q.id].flat), list(st.heap[qd.id].flat)
    cap = []

    def crecip(ex, st_, args, kwargs):
        cap.append((st_.clone(), args[0], args[1] if len(args) > 1 else None))
        return Opaque("C_recip")
    pcell = st.new(Record("Primitive", {"masses": Opaque("masses")}))
    self_ref = st.new(Record("DynamicalMatrixGL", {"_rec_lat": rec, "_pcell": pcell, "_with_full_terms": False}))
    hooks = {"DynamicalMatrixGL._get_c_recip_dipole_dipole": crecip, "len": lambda ex, st_, a, k: 1}
    ex = PyExec(mod, run.sink, pref, hooks=hooks, opaque_unknown=True, split=True)
    n0 = len(run.sink.obls)
    try:
        ex.call_function(st, m, [q, qd], self_ref=self_ref, cls="DynamicalMatrixGL")
    except CheckerError:
        if not cap:
            raise
    if not cap:
        raise CheckerError("_get_Gonze_dipole_dipole: the reciprocal dipole-dipole routine is never called")
    s2, qc, qdc = cap[0]
    for nm, got, src in (("q", qc, qv), ("q_direction", qdc, nv)):
        if not (isinstance(got, Ref) and isinstance(s2.heap[got.id], NDArr)):
            raise CheckerError("_get_Gonze_dipole_dipole: Cartesian %s was abstracted: %r" % (nm, got))
        gv = [pyexec.num(x) for x in s2.heap[got.id].flat]
        for i in range(3):
            ob = run.sink.add(pref, "call-pre", list(s2.pc), gv[i] == sum(rv[i * 3 + j] * src[j] for j in range(3)), replay=lambda model: replay_gl_q(),
                              meta={"label": "Cartesian %s component %d == (rec_lat . %s)[%d]" % (nm, i, nm, i)})
            ob.backend = "poly"
    run.functions.append({"file": DF, "function": "DynamicalMatrixGL._get_Gonze_dipole_dipole", "line": m.lineno, "sha1": mod.sha(m), "obligations": len(run.sink.obls) - n0})


def replay_gl_q():
    from pvc import creplay
    import json
    code = r'''
import json, sys, types
import numpy as np
stub = types.ModuleType("phonopy._phonopy")
sys.modules["phonopy._phonopy"] = stub
import phonopy
phonopy._phonopy = stub
import phonopy.harmonic.dynamical_matrix as dmm
got = {}
class P:
    masses = np.array([1.0])
    def __len__(self): return 1
o = dmm.DynamicalMatrixGL.__new__(dmm.DynamicalMatrixGL)
o._pcell = P(); o._with_full_terms = False
lat = np.array([[3.0, 0, 0], [-1.5, 2.6, 0], [0.3, 0.2, 5.0]])          # rows; reciprocal basis as columns:
o._rec_lat = np.linalg.inv(lat)
def fake(q_cart, q_dir_cart):
    got["q_cart"] = np.array(q_cart); return np.zeros((1, 3, 1, 3), dtype=complex)
o._get_c_recip_dipole_dipole = fake
q = np.array([0.1, 0.25, -0.3])
o._get_Gonze_dipole_dipole(q, None)
print(json.dumps({"max_abs_deviation": float(np.abs(got["q_cart"] - o._rec_lat @ q).max())}))
'''
    rc, out, err = creplay.py_eval(code)
    if rc != 0:
        return {"reproduced": False, "reason": err[-400:]}
    r = json.loads(out.strip().splitlines()[-1])
    return {"reproduced": r["max_abs_deviation"] > 1e-12, "real_code": r, "input": "triclinic lattice, q = (0.1, 0.25, -0.3)", "expected": "q_cart == rec_lat @ q"}
