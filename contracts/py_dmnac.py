"""C08 — DynamicalMatrixNAC (phonopy/harmonic/dynamical_matrix.py): the unit factor handed to the solver and the
zone-centre switch of run()."""
import z3

from pvc import pyexec
from pvc.core import CheckerError
from pvc.pyexec import PyExec, PState, Record, NDArr, Opaque, Ref

DF = "phonopy/harmonic/dynamical_matrix.py"
PI = z3.Real("pi")


def nac_factor_contract(run):
    """For an object in ANY state (every attribute the code may have cached is unknown), after _set_basic_nac_params(p)
    the property nac_factor is p['factor'] * 4 pi / primitive-cell volume."""
    mod = pyexec.load(DF)
    pref = DF + ":DynamicalMatrixNAC.nac_factor"
    st = PState()
    vol = z3.Real("volume")
    fac = z3.Real("factor")
    st.pc.append(vol > 0)             # a cell volume
    pcell = st.new(Record("Primitive", {"volume": vol}))
    self_ref = st.new(Record("DynamicalMatrixNAC", {"_pcell": pcell}))
    ex = PyExec(mod, run.sink, pref, hooks={"numpy.pi": lambda *a: PI}, opaque_unknown=True, split=True)
    ex.globals["np.pi"] = PI
    n0 = len(run.sink.obls)
    d = {"born": Opaque("born"), "dielectric": Opaque("dielectric"), "factor": fac}
    outs = ex.call_function(st, mod.method("DynamicalMatrixNAC", "_set_basic_nac_params"), [d], self_ref=self_ref, cls="DynamicalMatrixNAC")
    nret = 0
    for (s1, fl, _) in outs:
        if fl != "return":
            continue
        prop = [n for n in mod.classes["DynamicalMatrixNAC"].body if getattr(n, "name", None) == "nac_factor"][0]
        outs2 = ex.call_function(s1.clone(), prop, [], self_ref=self_ref, cls="DynamicalMatrixNAC")
        for (s2, fl2, v) in outs2:
            if fl2 != "return":
                continue
            nret += 1
            if isinstance(v, Opaque):
                goal = z3.BoolVal(False)
                lab = "nac_factor after setting NAC parameters is the new factor * 4 pi / volume (it is a value unrelated to the new parameters: %s)" % v.why
            else:
                goal = pyexec.num(v) == fac * 4 * PI / vol
                lab = "nac_factor after setting NAC parameters is the new factor * 4 pi / volume"
            ob = run.sink.add(pref, "post", list(s2.pc) + [vol != 0], goal, meta={"label": lab}, replay=lambda model: replay_nac_factor())
            if not isinstance(v, Opaque):
                ob.backend = "poly"
    if nret == 0:
        raise CheckerError("nac_factor: no returning path")
    run.functions.append({"file": DF, "function": "DynamicalMatrixNAC._set_basic_nac_params/nac_factor", "line": 0,
                          "sha1": mod.sha(mod.method("DynamicalMatrixNAC", "_set_basic_nac_params")), "obligations": len(run.sink.obls) - n0})


def replay_nac_factor():
    from pvc import creplay
    import json
    code = r'''
import json
import numpy as np
import phonopy.harmonic.dynamical_matrix as dmm
class P: volume = 10.0
o = dmm.DynamicalMatrixNAC.__new__(dmm.DynamicalMatrixNAC)
o._pcell = P()
for k in ("_nac_factor",):
    setattr(o, k, None)
p1 = {"born": np.zeros((1, 3, 3)), "dielectric": np.eye(3), "factor": 2.0}
o._set_basic_nac_params(p1); f1 = o.nac_factor
p2 = dict(p1, factor=5.0)
o._set_basic_nac_params(p2); f2 = o.nac_factor
print(json.dumps({"first": f1, "after_reassignment": f2, "expected_after": 5.0 * 4 * np.pi / 10.0}))
'''
    rc, out, err = creplay.py_eval(code)
    if rc != 0:
        return {"reproduced": False, "reason": err[-400:]}
    r = json.loads(out.strip().splitlines()[-1])
    return {"reproduced": abs(r["after_reassignment"] - r["expected_after"]) > 1e-12, "real_code": r,
            "history": "set NAC parameters (factor 2), read nac_factor, set NAC parameters again (factor 5), read nac_factor"}
