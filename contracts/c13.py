"""C13 — memory safety and schedule independence of the compiled kernels.

One "safety contract" per exported kernel: shapes and index-table ranges exactly as the Python call sites
establish them (cited per kernel), every callee inlined, every symbolic for-loop with the automatic range
invariant (v >= init) unless a schema is named.  Obligations generated: bounds (every subscript, through
index de-flattening), div (no division by zero), nonnull, and for every `omp parallel for`: race (private
scalars, pairwise disjointness of write/read and write/write accesses of different iterations).
"""
import z3

from pvc.core import Contract, LoopSpec
from contracts.c_dynmat import wf_maps, SHAPES, FC0, NSV, NCELL, PI, alias

DF = "c/dynmat.c"
i_, k_ = z3.Ints("i_ k_")


def _pos_masses(V, name):
    return z3.ForAll([i_], z3.Implies(z3.And(i_ >= 0, i_ < V.p.num_patom), V.a[name][i_] > 0))


def _range_tab(arr, n, lo, hi):
    return z3.ForAll([i_], z3.Implies(z3.And(i_ >= 0, i_ < n), z3.And(arr[i_] >= lo, arr[i_] < hi)))


def dynmat_at_q_safety():
    """call site: dym_dynamical_matrices_with_dd_openmp_over_qpoints (use_openmp = 0) — both branches checked"""
    def req(V):
        return wf_maps(V) + [_pos_masses(V, "mass")]
    return Contract(DF, "dym_get_dynamical_matrix_at_q", tag="[safety]", shapes=SHAPES, nullable=("charge_sum",), macros={"PI": PI},
                    requires=req, modifies=("dynamical_matrix",), auto_range=True, race=True)


def transform_dynmat_to_fc_safety():
    """call site: DynmatToForceConstants._c_inverse_transformation (dynmat_to_fc.py):
    fc (n_fc_rows, num_satom, 3, 3) zeros, dm (N, 3np, 3np) complex, comm_points (N, 3), svecs/multi of the primitive cell,
    masses (np), s2pp_map (ns) values in [0, np), fc_index_map (np) values in [0, n_fc_rows), N = ns / np."""
    def req(V):
        np_, ns = V.p.num_patom, V.p.num_satom
        mu = V.a.multi
        return [np_ >= 1, NCELL >= 1, ns == NCELL * np_, FC0 >= np_, NSV >= 0,
                z3.ForAll([k_, i_], z3.Implies(z3.And(k_ >= 0, k_ < ns, i_ >= 0, i_ < np_),
                                               z3.And(mu[k_, i_, 0] >= 1, mu[k_, i_, 1] >= 0, mu[k_, i_, 1] + mu[k_, i_, 0] <= NSV))),
                _range_tab(V.a.s2pp_map, ns, 0, np_), _range_tab(V.a.fc_index_map, np_, 0, FC0),
                # fc_index_map is p2s_map or arange: injective (different (i, j) write different rows)
                z3.ForAll([i_, k_], z3.Implies(z3.And(i_ >= 0, i_ < np_, k_ >= 0, k_ < np_, i_ != k_),
                                               V.a.fc_index_map[i_] != V.a.fc_index_map[k_])),
                _pos_masses(V, "masses")]
    from pvc.cexec import tdiv
    return Contract(DF, "dym_transform_dynmat_to_fc", tag="[safety]", macros={"PI": PI},
                    shapes={"fc": lambda P: [FC0, P.num_satom, 3, 3], "dm": lambda P: [NCELL, 3 * P.num_patom, 3 * P.num_patom, 2],
                            "comm_points": lambda P: [NCELL, 3], "svecs": lambda P: [NSV, 3], "multi": lambda P: [P.num_satom, P.num_patom, 2],
                            "masses": lambda P: [P.num_patom], "s2pp_map": lambda P: [P.num_satom], "fc_index_map": lambda P: [P.num_patom]},
                    requires=req, modifies=("fc",), auto_range=True, race=True,
                    derived=lambda V: [("num_satom / num_patom == n_cells", tdiv(V.p.num_satom, V.p.num_patom) == NCELL,
                                        [V.p.num_patom >= 1, NCELL >= 1, V.p.num_satom == NCELL * V.p.num_patom])],
                    loops={0: LoopSpec(fill=True)})


def all_contracts():
    return [dynmat_at_q_safety(), transform_dynmat_to_fc_safety()]
