"""C13 — memory safety and schedule independence of the compiled kernels.

One "safety contract" per exported kernel: shapes and index-table ranges exactly as the Python call sites
establish them (cited per kernel), every callee inlined, every symbolic for-loop with the automatic range
invariant (v >= init) unless a schema is named.  Obligations generated: bounds (every subscript, through
index de-flattening), div (no division by zero), nonnull, and for every `omp parallel for`: race (private
scalars, pairwise disjointness of write/read and write/write accesses of different iterations).
"""
import z3

from pvc.core import Contract, LoopSpec
from contracts.c_dynmat import wf_maps, SHAPES, FC0, NSV, NCELL, PI, alias

DF = "c/dynmat.c"
i_, k_ = z3.Ints("i_ k_")


def _pos_masses(V, name):
    return z3.ForAll([i_], z3.Implies(z3.And(i_ >= 0, i_ < V.p.num_patom), V.a[name][i_] > 0))


def _range_tab(arr, n, lo, hi):
    return z3.ForAll([i_], z3.Implies(z3.And(i_ >= 0, i_ < n), z3.And(arr[i_] >= lo, arr[i_] < hi)))


def dynmat_at_q_safety():
    """call site: dym_dynamical_matrices_with_dd_openmp_over_qpoints (use_openmp = 0) — both branches checked"""
    def req(V):
        return wf_maps(V) + [_pos_masses(V, "mass")]
    return Contract(DF, "dym_get_dynamical_matrix_at_q", tag="[safety]", shapes=SHAPES, nullable=("charge_sum",), macros={"PI": PI},
                    requires=req, modifies=("dynamical_matrix",), auto_range=True, race=True)


def transform_dynmat_to_fc_safety():
    """call site: DynmatToForceConstants._c_inverse_transformation (dynmat_to_fc.py):
    fc (n_fc_rows, num_satom, 3, 3) zeros, dm (N, 3np, 3np) complex, comm_points (N, 3), svecs/multi of the primitive cell,
    masses (np), s2pp_map (ns) values in [0, np), fc_index_map (np) values in [0, n_fc_rows), N = ns / np."""
    def req(V):
        np_, ns = V.p.num_patom, V.p.num_satom
        mu = V.a.multi
        return [np_ >= 1, NCELL >= 1, ns == NCELL * np_, FC0 >= np_, NSV >= 0,
                z3.ForAll([k_, i_], z3.Implies(z3.And(k_ >= 0, k_ < ns, i_ >= 0, i_ < np_),
                                               z3.And(mu[k_, i_, 0] >= 1, mu[k_, i_, 1] >= 0, mu[k_, i_, 1] + mu[k_, i_, 0] <= NSV))),
                _range_tab(V.a.s2pp_map, ns, 0, np_), _range_tab(V.a.fc_index_map, np_, 0, FC0),
                # fc_index_map is p2s_map or arange: injective (different (i, j) write different rows)
                z3.ForAll([i_, k_], z3.Implies(z3.And(i_ >= 0, i_ < np_, k_ >= 0, k_ < np_, i_ != k_),
                                               V.a.fc_index_map[i_] != V.a.fc_index_map[k_])),
                _pos_masses(V, "masses")]
    from pvc.cexec import tdiv
    return Contract(DF, "dym_transform_dynmat_to_fc", tag="[safety]", macros={"PI": PI},
                    shapes={"fc": lambda P: [FC0, P.num_satom, 3, 3], "dm": lambda P: [NCELL, 3 * P.num_patom, 3 * P.num_patom, 2],
                            "comm_points": lambda P: [NCELL, 3], "svecs": lambda P: [NSV, 3], "multi": lambda P: [P.num_satom, P.num_patom, 2],
                            "masses": lambda P: [P.num_patom], "s2pp_map": lambda P: [P.num_satom], "fc_index_map": lambda P: [P.num_patom]},
                    requires=req, modifies=("fc",), auto_range=True, race=True,
                    derived=lambda V: [("num_satom / num_patom == n_cells", tdiv(V.p.num_satom, V.p.num_patom) == NCELL,
                                        [V.p.num_patom >= 1, NCELL >= 1, V.p.num_satom == NCELL * V.p.num_patom])],
                    loops={0: LoopSpec(fill=True)})


def all_contracts():
    return [dynmat_at_q_safety(), transform_dynmat_to_fc_safety()]


# ------------------------------------------------------------------ tetrahedron DOS kernels (c/phonopy.c)
from pvc.spec import RecSum, monotone_lemma     # noqa: E402

PF = "c/phonopy.c"


def _mesh_req(V):
    m = V.a.mesh
    return [m[0] >= 1, m[1] >= 1, m[2] >= 1, V.p.num_gp == m[0] * m[1] * m[2]]


def tetrahedron_dos_safety(run_sink):
    """call site: phonopy/phonon/dos.py run_tetrahedron_method_dos: mesh (3), grid_address (num_gp, 3), relative_grid_address
    (24, 4, 3), grid_mapping_table (num_gp) with table[i] <= i, table[table[i]] == table[i] (spglib), frequencies (num_ir, num_band),
    coef (num_ir, num_coef, num_band), dos (num_ir, num_band, num_freq_points, num_coef), num_ir == number of fixed points."""
    from contracts import c_rgrid as RG

    def cnt(V):
        tab = V.a.grid_mapping_table
        return RecSum("n_fixed", [], lambda i: z3.If(tab[i] == i, z3.IntVal(1), z3.IntVal(0)), sort=z3.IntSort())

    def req(V):
        ng, nir = V.p.num_gp, V.p.num_ir_gp
        tab = V.a.grid_mapping_table
        return _mesh_req(V) + [nir >= 1, V.p.num_band >= 0, V.p.num_freq_points >= 0, V.p.num_coef >= 0,
                               z3.ForAll([i_], z3.Implies(z3.And(i_ >= 0, i_ < ng), z3.And(tab[i_] >= 0, tab[i_] <= i_, tab[tab[i_]] == tab[i_]))),
                               cnt(V)(ng) == nir]

    def inv0(V):
        ng, nir = V.p.num_gp, V.p.num_ir_gp
        i, count = V.v.i, V.v.count
        c = cnt(V.old)
        return [("range", z3.And(i >= 0, i <= ng)), ("count", count == c(i)), ("count-range", z3.And(count >= 0, count <= nir)),
                ("gp2ir", z3.ForAll([k_], z3.Implies(z3.And(k_ >= 0, k_ < i), z3.And(V.a.gp2ir[k_] >= 0, V.a.gp2ir[k_] < count)))),
                ("irgp", z3.ForAll([k_], z3.Implies(z3.And(k_ >= 0, k_ < count), z3.And(V.a.ir_grid_points[k_] >= 0, V.a.ir_grid_points[k_] < ng))))]

    def unfold0(V):
        c = cnt(V.old)
        return [c.zero(), c.unfold(V.v.i), c.unfold(V.v.i - 1), MONO["fact"]]
    MONO = {}
    l_, q_ = z3.Ints("l_ q_")

    def irgps_ok(V, cond):
        # the 24 x 4 vertex table of this grid point (loops kept symbolic instead of being unrolled 96 times)
        return z3.ForAll([l_, q_], z3.Implies(z3.And(l_ >= 0, l_ < 24, q_ >= 0, q_ < 4, cond(l_, q_)),
                                              z3.And(V.a.ir_gps[l_, q_] >= 0, V.a.ir_gps[l_, q_] < V.p.num_ir_gp)))

    def inv_l(V):
        return [("range", z3.And(V.v.l >= 0, V.v.l <= 24)), ("ir_gps", irgps_ok(V, lambda a, b: a < V.v.l))]

    def inv_q(V):
        return [("range", z3.And(V.v.q >= 0, V.v.q <= 4, V.v.l >= 0, V.v.l < 24)),
                ("ir_gps", irgps_ok(V, lambda a, b: z3.Or(a < V.v.l, z3.And(a == V.v.l, b < V.v.q))))]

    def derived(V):
        # monotonicity of the fixed-point count (induction lemma) -> count never exceeds num_ir_gp
        MONO["fact"] = monotone_lemma(run_sink, PF + ":phpy_tetrahedron_method_dos[safety]", cnt(V), V.p.num_gp)
        return []

    def facts(V):
        return [MONO["fact"]]
    mm, sm = RG.mat_modulo_contract(), RG.single_mesh_contract()
    reg = {"rgd_get_double_grid_address": RG.double_grid_address_contract(), "rgd_get_double_grid_index": _rgd_index_contract(),
           "thm_get_integration_weight": Contract("c/tetrahedron_method.c", "thm_get_integration_weight",
                                                  shapes={"tetrahedra_omegas": lambda P: [24, 4]}, requires=lambda V: [], ensures=lambda V: [])}
    c = Contract(PF, "phpy_tetrahedron_method_dos", tag="[safety]",
                 shapes={"dos": lambda P: [P.num_ir_gp, P.num_band, P.num_freq_points, P.num_coef], "mesh": lambda P: [3],
                         "grid_address": lambda P: [P.num_gp, 3], "relative_grid_address": lambda P: [24, 4, 3],
                         "grid_mapping_table": lambda P: [P.num_gp], "freq_points": lambda P: [P.num_freq_points],
                         "frequencies": lambda P: [P.num_ir_gp, P.num_band], "coef": lambda P: [P.num_ir_gp, P.num_coef, P.num_band]},
                 local_shapes={"gp2ir": lambda V: [V.p.num_gp], "ir_grid_points": lambda V: [V.p.num_ir_gp], "weights": lambda V: [V.p.num_ir_gp]},
                 requires=req, modifies=("dos",), derived=derived, auto_range=True, race=True,
                 loops={0: LoopSpec(inv0, unfold=unfold0), 2: LoopSpec(inv_l), 3: LoopSpec(inv_q),
                        6: LoopSpec(lambda V: [("range", z3.And(V.v.l >= 0, V.v.l <= 24))]),
                        7: LoopSpec(lambda V: [("range", z3.And(V.v.q >= 0, V.v.q <= 4, V.v.l >= 0, V.v.l < 24))])},
                 use_contracts={"rgd_get_double_grid_address", "rgd_get_double_grid_index", "thm_get_integration_weight"})
    return c, reg


def _rgd_index_contract():
    from contracts import c_rgrid as RG
    c = RG.double_grid_index_contract()
    import copy
    c2 = copy.copy(c)
    c2.func = "rgd_get_double_grid_index"
    return c2


def tetrahedra_frequencies_safety():
    """phpy_get_tetrahedra_frequenies.  Call site: phonopy/phonon/tetrahedron_mesh.py (TetrahedronMesh._set_tetrahedra_frequencies):
    freq_tetras (num_gp, num_band * 96), mesh (3), grid_points (num_gp) with values in [0, prod(mesh)), grid_address (prod(mesh), 3),
    relative_grid_address (24, 4, 3) viewed as (96, 3), gp_ir_index (prod(mesh)) with values in [0, num_ir), frequencies (num_ir, num_band).
    Obligations: every subscript in range; the `omp parallel for` over j inside the sequential loop over i is race free
    (private list of the pragma, writes freq_tetras[i][j] disjoint for different j)."""
    from contracts import c_rgrid as RG
    NG, NIR = z3.Int("n_grid"), z3.Int("n_ir")

    def req(V):
        m = V.a.mesh
        return [m[0] >= 1, m[1] >= 1, m[2] >= 1, NG == m[0] * m[1] * m[2], NIR >= 1, V.p.num_band >= 0, V.p.num_gp >= 0,
                _range_tab(V.a.grid_points, V.p.num_gp, 0, NG), _range_tab(V.a.gp_ir_index, NG, 0, NIR)]
    reg = {"rgd_get_double_grid_address": RG.double_grid_address_contract(), "rgd_get_double_grid_index": _rgd_index_contract()}
    c = Contract(PF, "phpy_get_tetrahedra_frequenies", tag="[safety]",
                 shapes={"freq_tetras": lambda P: [P.num_gp, P.num_band * 96], "mesh": lambda P: [3], "grid_points": lambda P: [P.num_gp],
                         "grid_address": lambda P: [NG, 3], "relative_grid_address": lambda P: [96, 3], "gp_ir_index": lambda P: [NG],
                         "frequencies": lambda P: [NIR, P.num_band]},
                 requires=req, modifies=("freq_tetras",), auto_range=True, race=True,
                 use_contracts={"rgd_get_double_grid_address", "rgd_get_double_grid_index"})
    return c, reg


def derivative_dynmat_safety():
    """ddm_get_derivative_dynmat_at_q with every callee inlined (get_derivative_dynmat_at_q, get_derivative_nac, get_dA, get_dC, ...).
    Call site: phonopy/harmonic/derivative_dynmat.py (DerivativeOfDynamicalMatrix._run_c): derivative_dynmat (3, 3np, 3np) complex,
    fc full or compact, svecs/multi/mass/maps of the primitive cell, born/dielectric/q_direction None unless NAC.
    Obligations: every subscript in range, no division by zero, and the `omp parallel for private(i, j)` over the atom pairs is
    race free (every pair writes its own 3x3 blocks)."""
    from contracts import c_ddm as DDM
    F2 = "c/derivative_dynmat.c"

    def req(V):
        np_, ns = V.p.num_patom, V.p.num_satom
        out = wf_maps(V) + [_pos_masses(V, "mass"), _range_tab(V.a.s2p_map, ns, 0, FC0)]
        # with NAC the three NAC arrays are present, and q.eps.q != 0 for the q used
        out.append(z3.Implies(V.p.is_nac != 0, z3.And(z3.Not(V.null.born), z3.Not(V.null.dielectric))))
        return out
    # instance without NAC (is_nac == 0): the NAC branch divides by q.eps.q, whose non-vanishing is a precondition the Python layer
    # establishes by choosing q / q_direction; that branch's subscripts are covered functionally in C12 (get_dA, get_dC lemmas) only
    return Contract(F2, "ddm_get_derivative_dynmat_at_q", tag="[safety,is_nac=0]", shapes=DDM.DDM_SHAPES, nullable=("born", "dielectric", "q_direction"),
                    macros={"PI": PI}, requires=req, modifies=("derivative_dynmat",), auto_range=True, race=True, fixed={"is_nac": 0})


def qpoints_driver_safety():
    """dym_dynamical_matrices_with_dd_openmp_over_qpoints, no-NAC configuration (use_Wang_NAC == 0, dd_q0 == NULL): the
    `omp parallel for` loop over the q-points calls dym_get_dynamical_matrix_at_q by contract; its
    preconditions are established for every q-point (call-pre obligations) and their accesses stay inside the callee's view
    dynamical_matrices[i] resp. qpoints[i], hence different iterations touch disjoint memory.
    Call site: phonopy/harmonic/dynamical_matrix.py run_dynamical_matrix_solver_c."""
    from contracts import c_dynmat as DM
    sq = z3.Function("c_sqrt", z3.RealSort(), z3.RealSort())
    ii = z3.Int("ii!q")
    SH = dict(DM.WANT_SHAPES)
    SH.update({"dynamical_matrices": lambda P: [P.n_qpoints, 3 * P.num_patom, 3 * P.num_patom, 2], "qpoints": lambda P: [P.n_qpoints, 3],
               "positions": lambda P: [P.num_patom, 3], "dd_q0": lambda P: [P.num_patom, 3, 3, 2], "G_list": lambda P: [P.num_G_points, 3]})

    def req(V0):
        V = DM.alias(V0, mass="masses")
        rec, eps = V0.a.reciprocal_lattice, V0.a.dielectric
        qc = [sum(rec[a, b] * V0.a.qpoints[ii, b] for b in range(3)) for a in range(3)]
        small = sq(qc[0] * qc[0] + qc[1] * qc[1] + qc[2] * qc[2]) < z3.RealVal("1/100000")
        nd = [sum(rec[a, b] * V0.a.q_direction[b] for b in range(3)) for a in range(3)]
        return DM.wf_maps(V) + [
            _pos_masses(V0, "masses"), DM.NCELL >= 1, V0.p.num_satom == DM.NCELL * V0.p.num_patom, V0.p.n_qpoints >= 0,
            V0.null.dd_q0,                                        # Gonze-Lee configuration excluded from this instance
            z3.ForAll([ii], z3.Implies(z3.And(ii >= 0, ii < V0.p.n_qpoints, z3.Not(small)), DM.qeq(qc, eps) != 0)),
            z3.Implies(z3.Not(V0.null.q_direction), DM.qeq(nd, eps) != 0)]
    qcart, dp, cs = DM.get_q_cart_contract(), DM.get_dielectric_part_contract(), DM.charge_sum_contract()
    reg = {"get_q_cart": qcart, "get_dynmat_want": DM.dynmat_want_contract(), "dym_get_dynamical_matrix_at_q": DM.dynmat_at_q_contract()}
    # The Wang configuration is generated but its last call-pre (n.eps.n != 0 for the Cartesian direction computed by get_q_cart)
    # is a degree-5 polynomial inequation that z3 does not decide in the budget; the instance claimed is the no-NAC one.
    c = Contract(DF, "dym_dynamical_matrices_with_dd_openmp_over_qpoints", tag="[safety,no NAC]", fixed={"use_Wang_NAC": 0}, shapes=SH,
                 nullable=("q_direction", "dd_q0", "born", "G_list"), macros={"PI": PI}, requires=req, modifies=("dynamical_matrices",),
                 auto_range=True, race=True, prune=True, abstract_mul=True, use_contracts={"get_q_cart", "get_dynmat_want", "dym_get_dynamical_matrix_at_q"})
    return c, reg
