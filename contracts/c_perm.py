"""C01 / C07 / C13 — phpy_compute_permutation (c/phonopy.c): atom matching under a symmetry operation.

Spec:  close(i, j)  :=  sqrt(|lat . (d - nint(d))|^2) < symprec,  d = pos[i] - rot_pos[j]   (periodic distance).
On return, for every j with rot_atom[j] >= 0:  0 <= rot_atom[j] < num_pos and close(rot_atom[j], j); no atom i is assigned to
two different j; the return value is 1 exactly when every j is assigned (then rot_atom is a tolerance matching that is a
permutation).  Memory safety of the `while (rot_atom[search_start] >= 0)` scan needs a counting argument: in round i at
most i entries are assigned, so an unassigned entry exists below num_pos."""
import z3

from pvc.cexec import MATH_FUNS, trunc
from pvc.core import Contract, LoopSpec
from pvc.spec import RecSum, induction, step_monotone_lemma

F = "c/phonopy.c"
I = z3.IntSort()
a_, b_, c_ = z3.Ints("a_ b_ c_")


def nint_spec(a):
    return z3.If(a < 0, trunc(a - z3.RealVal("1/2")), trunc(a + z3.RealVal("1/2")))


def nint_contract():
    return Contract(F, "nint", requires=lambda V: [], ensures=lambda V: [
        ("def", V.ret == nint_spec(V.p.a)),
        ("nearest", z3.And(V.p.a - z3.ToReal(V.ret) <= z3.RealVal("1/2"), z3.ToReal(V.ret) - V.p.a <= z3.RealVal("1/2")))])


def close(V, i, j):
    pos, rp, lat = V.a.pos, V.a.rot_pos, V.a.lat
    d = [pos[i, k] - rp[j, k] - z3.ToReal(nint_spec(pos[i, k] - rp[j, k])) for k in range(3)]
    tot = z3.RealVal(0)
    for k in range(3):
        dc = lat[k, 0] * d[0] + lat[k, 1] * d[1] + lat[k, 2] * d[2]
        tot = tot + dc * dc
    return MATH_FUNS["sqrt"](tot) < V.p.symprec


CLOSE = z3.Function("cp_close", I, I, z3.BoolSort())        # CLOSE(i, j) := close(i, j), kept opaque outside the assignment site


def compute_permutation_contract(run_sink):
    SH = {"rot_atom": lambda P: [P.num_pos], "lat": lambda P: [3, 3], "pos": lambda P: [P.num_pos, 3], "rot_pos": lambda P: [P.num_pos, 3]}
    pref = F + ":phpy_compute_permutation"
    ARR = z3.ArraySort(I, I)

    def cnt_of(arr):
        return RecSum("cp_cnt", [], lambda j: z3.If(z3.Select(arr, j) >= 0, 1, 0), sort=I)

    def facts(V):
        A = z3.Const("cp!A", ARR)
        j0, v0, m0 = z3.Ints("cp!j cp!v cp!m")
        cA = cnt_of(A)
        # lemma 1 (induction on m): assigning a non-negative value to an unassigned slot j raises the count of assigned
        # entries below m by [j < m]
        B = z3.Store(A, j0, v0)
        cB = cnt_of(B)
        hy1 = [z3.Select(A, j0) < 0, v0 >= 0, j0 >= 0]
        l1 = induction(run_sink, pref, "counting: one more assigned slot raises the prefix count by [j < m]", [],
                       lambda m: cB(m) == cA(m) + z3.If(j0 < m, 1, 0), lambda m: [cA.zero(), cB.zero(), cA.unfold(m), cB.unfold(m)], hyps=hy1)
        l1q = z3.ForAll([A, j0, v0], z3.Implies(z3.And(*hy1), z3.ForAll([m0], z3.Implies(m0 >= 0, cnt_of(z3.Store(A, j0, v0))(m0) == cnt_of(A)(m0) + z3.If(j0 < m0, 1, 0)))))
        # lemma 2 (induction on s): if every slot below s is assigned, the prefix count at s is s
        s0 = z3.Int("cp!s")
        l2 = induction(run_sink, pref, "counting: a fully assigned prefix of length s has count s", [],
                       lambda s: z3.Implies(z3.ForAll([b_], z3.Implies(z3.And(b_ >= 0, b_ < s), z3.Select(A, b_) >= 0)), cA(s) == s),
                       lambda s: [cA.zero(), cA.unfold(s)])
        l2q = z3.ForAll([A, s0], z3.Implies(z3.And(s0 >= 0, z3.ForAll([b_], z3.Implies(z3.And(b_ >= 0, b_ < s0), z3.Select(A, b_) >= 0))), cnt_of(A)(s0) == s0))
        # lemma 3 (induction on s): no assigned slot below s gives count 0
        l3 = induction(run_sink, pref, "counting: a prefix without assigned slots has count 0", [],
                       lambda s: z3.Implies(z3.ForAll([b_], z3.Implies(z3.And(b_ >= 0, b_ < s), z3.Select(A, b_) < 0)), cA(s) == 0),
                       lambda s: [cA.zero(), cA.unfold(s)])
        l3q = z3.ForAll([A, s0], z3.Implies(z3.And(s0 >= 0, z3.ForAll([b_], z3.Implies(z3.And(b_ >= 0, b_ < s0), z3.Select(A, b_) < 0))), cnt_of(A)(s0) == 0))
        mono = step_monotone_lemma(run_sink, pref, cA)
        monoq = [z3.ForAll([A], f_) for f_ in mono]
        i0 = z3.Int("cp!i")
        cdef = z3.ForAll([i0, j0], CLOSE(i0, j0) == close(V, i0, j0), patterns=[CLOSE(i0, j0)])      # explicit definition (conservative)
        return [l1q, l2q, l3q, cdef] + monoq

    def rot(V):
        return V.a.rot_atom

    def arr_of(V):
        # the z3 array value behind the view (1-D)
        return V.a.rot_atom.arr if hasattr(V.a.rot_atom, "arr") else V.a.rot_atom.term

    def common(V, i):
        n = V.p.num_pos
        r = rot(V)
        return [("values", z3.ForAll([b_], z3.Implies(z3.And(b_ >= 0, b_ < n), z3.And(r[b_] >= -1, r[b_] < i)))),
                ("match", z3.ForAll([b_], z3.Implies(z3.And(b_ >= 0, b_ < n, r[b_] >= 0), CLOSE(r[b_], b_)))),
                ("injective", z3.ForAll([b_, c_], z3.Implies(z3.And(b_ >= 0, b_ < n, c_ >= 0, c_ < n, b_ != c_, r[b_] >= 0, r[c_] >= 0), r[b_] != r[c_]))),
                ("count", cnt_of(arr_of(V))(n) <= i)]

    def inv_i(V):
        n, i, s = V.p.num_pos, V.v.i, V.v.search_start
        return [("range", z3.And(i >= 0, i <= n, s >= 0, s <= i)),
                ("prefix", z3.ForAll([b_], z3.Implies(z3.And(b_ >= 0, b_ < s), rot(V)[b_] >= 0)))] + common(V, i)

    def inv_while(V):
        n, i, s = V.p.num_pos, V.v.i, V.v.search_start
        return [("range", z3.And(i >= 0, i < n, s >= 0, s < n)),
                ("prefix", z3.ForAll([b_], z3.Implies(z3.And(b_ >= 0, b_ < s), rot(V)[b_] >= 0)))] + common(V, i)

    def inv_j(V):
        n, i, s, j = V.p.num_pos, V.v.i, V.v.search_start, V.v.j
        return [("range", z3.And(i >= 0, i < n, s >= 0, s < n, j >= s, j <= n)),
                ("prefix", z3.ForAll([b_], z3.Implies(z3.And(b_ >= 0, b_ < s), rot(V)[b_] >= 0)))] + common(V, i)

    def inv_last(V):
        n, i = V.p.num_pos, V.v.i
        return [("range", z3.And(i >= 0, i <= n)), ("all", z3.ForAll([b_], z3.Implies(z3.And(b_ >= 0, b_ < i), rot(V)[b_] >= 0)))] + common(V, n)[:3]

    def ens(V):
        n = V.p.num_pos
        r = rot(V)
        return common(V, n)[:3] + [("ret", (V.ret == 1) == z3.ForAll([b_], z3.Implies(z3.And(b_ >= 0, b_ < n), r[b_] >= 0))),
                                   ("ret01", z3.Or(V.ret == 0, V.ret == 1))]
    def gen(rnd):
        import numpy as np
        n = rnd.randint(0, 5)
        lat = np.array([[rnd.uniform(-1, 1) for _ in range(3)] for _ in range(3)]) + 3 * np.eye(3)
        pos = np.array([[rnd.uniform(0, 1) for _ in range(3)] for _ in range(n)]).reshape(n, 3)
        perm = rnd.sample(range(n), n)
        rp = pos[perm] + np.array([[rnd.randint(-2, 2) for _ in range(3)] for _ in range(n)]).reshape(n, 3)
        if n and rnd.random() < 0.3:
            rp[rnd.randrange(n)] += 0.2                 # one atom without a partner
        if n > 1 and rnd.random() < 0.2:
            rp[0] = rp[1]                               # two images on top of each other
        return {"rot_atom": np.full(n, 7, dtype="int32"), "lat": lat, "pos": pos, "rot_pos": rp, "num_pos": n, "symprec": 1e-5}

    def replay_py(env):
        import numpy as np
        r, n = env["rot_atom__post"], env["num_pos"]
        bad = []

        def is_close(i, j):
            d = env["pos"][i] - env["rot_pos"][j]
            d = d - np.where(d < 0, np.trunc(d - 0.5), np.trunc(d + 0.5))
            return np.sqrt(((env["lat"] @ d) ** 2).sum()) < env["symprec"]
        if any(v < -1 or v >= n for v in r):
            bad.append("values")
        if any(v >= 0 and not is_close(int(v), j) for j, v in enumerate(r)):
            bad.append("match")
        as_ = [int(v) for v in r if v >= 0]
        if len(as_) != len(set(as_)):
            bad.append("injective")
        if (env["__ret"] == 1) != all(v >= 0 for v in r) or env["__ret"] not in (0, 1):
            bad.append("ret")
        return bad
    return Contract(F, "phpy_compute_permutation", gen=gen, replay_py=replay_py, shapes=SH, requires=lambda V: [V.p.num_pos >= 0], ensures=ens, modifies=("rot_atom",), facts=facts,
                    loops={0: LoopSpec(fill=True), 1: LoopSpec(inv_i), 2: LoopSpec(inv_while), 3: LoopSpec(inv_j), 7: LoopSpec(inv_last)},
                    use_contracts={"nint"}, abstract_mul=True)
