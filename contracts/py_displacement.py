"""C01 — choice of displacement directions (phonopy/harmonic/displacement.py).

_get_displacement_one / _get_displacement_two search directions whose site-symmetry images span R^3.  Contract, from
the property statement ("the displacement set spans R^3 under the site symmetry"): on every returning path with a
result (i, dirs) the three vectors the solver will actually have -- dirs[0], its image R_i . dirs[0] under the site-symmetry
operation number i (x' = R x), and the third vector (R_j . dirs[0] resp. dirs[1]) -- have a non-zero determinant.
The functions treat the elements of `site_symmetry` and `directions` uniformly and return from inside the search loops
right behind the guard, so two generic operations and two generic directions stand for lists of any length."""
import z3

from pvc import pyexec
from pvc.core import CheckerError
from pvc.pyexec import PyExec, PState, NDArr, PList, Ref

DF = "phonopy/harmonic/displacement.py"


def _det(a, b, c):
    return (a[0] * b[1] * c[2] - a[0] * b[2] * c[1] + a[1] * b[2] * c[0] - a[1] * b[0] * c[2] + a[2] * b[0] * c[1] - a[2] * b[1] * c[0])


def _apply(r, d):
    return [sum(r[x * 3 + k] * d[k] for k in range(3)) for x in range(3)]


def displacement_search(run):
    mod = pyexec.load(DF)
    for name in ("_get_displacement_one", "_get_displacement_two"):
        fn = mod.funcs[name]
        pref = DF + ":" + name
        st = PState()
        rots = [st.new(NDArr((3, 3), [z3.Int("R%d_%d%d" % (j, a, b)) for a in range(3) for b in range(3)], "intc")) for j in range(2)]
        rv = [list(st.heap[r.id].flat) for r in rots]
        dirs = [st.new(NDArr((3,), [z3.Int("d%d_%d" % (j, a)) for a in range(3)], "intc")) for j in range(2)]
        dv = [list(st.heap[d.id].flat) for d in dirs]
        ss = st.new(PList(list(rots)))
        dl = st.new(PList(list(dirs)))
        ex = PyExec(mod, run.sink, pref, split=True)
        n0 = len(run.sink.obls)
        outs = ex.call_function(st, fn, [ss], {"directions": dl})
        nres = 0
        for (s2, fl, v) in outs:
            if fl != "return" or v[0] is None:
                continue
            nres += 1
            i = pyexec.concrete_int(v[0])
            got = s2.heap[v[1].id].items
            d1 = [pyexec.num(x) for x in s2.heap[got[0].id].flat]
            img = _apply(rv[i], d1)
            if name == "_get_displacement_two":
                d2 = [pyexec.num(x) for x in s2.heap[got[1].id].flat]
                goal = _det(d1, img, d2) != 0
                lab = "returned (i, [d, d2]): d, R_i d and d2 are linearly independent"
            else:
                # some later operation j > i completes the triple
                goal = z3.Or(*[_det(d1, img, _apply(rv[j], d1)) != 0 for j in range(i + 1, 2)]) if i + 1 < 2 else z3.BoolVal(False)
                lab = "returned (i, [d]): d, R_i d and R_j d (some j > i) are linearly independent"
            run.sink.add(pref, "post", list(s2.pc), goal, meta={"label": lab}, replay=lambda model, nm=name: replay_search(nm))
        if nres == 0:
            raise CheckerError("%s: no path returns a result" % name)
        run.functions.append({"file": DF, "function": name, "line": fn.lineno, "sha1": mod.sha(fn), "obligations": len(run.sink.obls) - n0})


def replay_search(name):
    from pvc import creplay
    import json
    code = r'''
import json, itertools
import numpy as np
import phonopy.harmonic.displacement as dm
name = NAME
bad = None
# site symmetries m and 2 in oblique (hexagonal-type) axes: integer matrices that are not symmetric
ops = [np.array([[1, -1, 0], [0, -1, 0], [0, 0, 1]]), np.array([[-1, 0, 0], [-1, 1, 0], [0, 0, 1]]), np.array([[0, -1, 0], [1, -1, 0], [0, 0, 1]]),
       np.array([[1, 0, 0], [1, -1, 0], [0, 0, -1]])]
for k in range(1, 3):
    for combo in itertools.combinations(ops, k):
        ss = [np.eye(3, dtype=int)] + list(combo)
        i, dirs = getattr(dm, name)(ss)
        if i is None:
            continue
        d = np.array(dirs[0])
        img = ss[i] @ d
        if name == "_get_displacement_two":
            ok = abs(np.linalg.det(np.array([d, img, np.array(dirs[1])]))) > 1e-9
        else:
            ok = any(abs(np.linalg.det(np.array([d, img, ss[j] @ d]))) > 1e-9 for j in range(i + 1, len(ss)))
        if not ok:
            bad = {"site_symmetry": [s.tolist() for s in ss], "returned": [int(i), [np.array(x).tolist() for x in dirs]]}
            break
    if bad: break
print(json.dumps({"counterexample": bad}))
'''.replace("NAME", repr(name))
    rc, out, err = creplay.py_eval(code)
    if rc != 0:
        return {"reproduced": False, "reason": err[-400:]}
    r = json.loads(out.strip().splitlines()[-1])
    return {"reproduced": r["counterexample"] is not None, "real_code": r,
            "expected": "the returned directions and their site-symmetry images span R^3"}
