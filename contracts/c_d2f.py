"""C06 — dynamical matrices at commensurate points -> force constants (c/dynmat.c)."""
import z3

from pvc.core import Contract, LoopSpec
from contracts import replay_dynmat as RD
from pvc.cexec import tdiv
from pvc.spec import RecSum
from contracts.c_dynmat import FC0, NSV, NCELL, PI

F = "c/dynmat.c"
I = z3.IntSort()
i_, k_, p_, q_, a_, b_ = z3.Ints("i_ k_ p_ q_ a_ b_")

SH = {"fc": lambda P: [FC0, P.num_satom, 3, 3], "dm": lambda P: [NCELL, 3 * P.num_patom, 3 * P.num_patom, 2],
      "comm_points": lambda P: [NCELL, 3], "svecs": lambda P: [NSV, 3], "multi": lambda P: [P.num_satom, P.num_patom, 2],
      "masses": lambda P: [P.num_patom], "s2pp_map": lambda P: [P.num_satom], "fc_index_map": lambda P: [P.num_patom]}


def _tab(arr, n, lo, hi):
    return z3.ForAll([i_], z3.Implies(z3.And(i_ >= 0, i_ < n), z3.And(arr[i_] >= lo, arr[i_] < hi)))


def wf(V):
    np_, ns = V.p.num_patom, V.p.num_satom
    mu = V.a.multi
    return [np_ >= 1, NCELL >= 1, ns == NCELL * np_, FC0 >= np_, NSV >= 0,
            z3.ForAll([k_, i_], z3.Implies(z3.And(k_ >= 0, k_ < ns, i_ >= 0, i_ < np_),
                                           z3.And(mu[k_, i_, 0] >= 1, mu[k_, i_, 1] >= 0, mu[k_, i_, 1] + mu[k_, i_, 0] <= NSV))),
            _tab(V.a.s2pp_map, ns, 0, np_), _tab(V.a.fc_index_map, np_, 0, FC0),
            z3.ForAll([i_, k_], z3.Implies(z3.And(i_ >= 0, i_ < np_, k_ >= 0, k_ < np_, i_ != k_), V.a.fc_index_map[i_] != V.a.fc_index_map[k_])),
            z3.ForAll([i_], z3.Implies(z3.And(i_ >= 0, i_ < np_), V.a.masses[i_] > 0))]


DERIVED = lambda V: [("num_satom / num_patom == n_cells", tdiv(V.p.num_satom, V.p.num_patom) == NCELL,   # noqa: E731
                      [V.p.num_patom >= 1, NCELL >= 1, V.p.num_satom == NCELL * V.p.num_patom])]


class Spec:
    """X(i,j,a,b,n) = sum_{k<n} Re( dm_k[3i+a, 3 s2pp[j]+b] * (1/m) sum_{l<m} exp(-2 pi i q_k . svecs[adr+l]) ) * sqrt(m_i m_s2pp[j]) / N"""

    def __init__(self, V):
        cp, sv, mu, dm = V.a.comm_points, V.a.svecs, V.a.multi, V.a.dm
        mass, s2pp = V.a.masses, V.a.s2pp_map
        cos = z3.Function("c_cos", z3.RealSort(), z3.RealSort())
        sin = z3.Function("c_sin", z3.RealSort(), z3.RealSort())
        sq = z3.Function("c_sqrt", z3.RealSort(), z3.RealSort())

        def phase(k, j, i, l):
            a = mu[j, i, 1] + l
            return (((0 - cp[k, 0] * sv[a, 0]) - cp[k, 1] * sv[a, 1]) - cp[k, 2] * sv[a, 2]) * 2 * PI
        self.cosQ = RecSum("cosQ", [I, I, I], lambda k, j, i, l: cos(phase(k, j, i, l)))
        self.sinQ = RecSum("sinQ", [I, I, I], lambda k, j, i, l: sin(phase(k, j, i, l)))

        def coef(i, j):
            return sq(mass[i] * mass[s2pp[j]]) / z3.ToReal(NCELL)
        self.coef = coef

        def term(i, j, a, b, k):
            m = mu[j, i, 0]
            c = self.cosQ(k, j, i, m) / z3.ToReal(m)
            s = self.sinQ(k, j, i, m) / z3.ToReal(m)
            return (dm[k, 3 * i + a, 3 * s2pp[j] + b, 0] * c - dm[k, 3 * i + a, 3 * s2pp[j] + b, 1] * s) * coef(i, j)
        self.X = RecSum("Xd2f", [I, I, I, I], term)


def ij_contract():
    def req(V):
        return wf(V) + [V.p.i >= 0, V.p.i < V.p.num_patom, V.p.j >= 0, V.p.j < V.p.num_satom]

    def cells(V, k):
        S = Spec(V.old)
        i, j = V.p.i, V.p.j
        fc, old, fim = V.a.fc, V.old.a.fc, V.old.a.fc_index_map
        out = []
        for a in range(3):
            for b in range(3):
                out.append(("acc[%d,%d]" % (a, b), fc[fim[i], j, a, b] == old[fim[i], j, a, b] + S.X(i, j, a, b, k)))
        out.append(("frame", z3.ForAll([p_, q_, a_, b_], z3.Implies(
            z3.And(p_ >= 0, p_ < FC0, q_ >= 0, q_ < V.p.num_satom, a_ >= 0, a_ < 3, b_ >= 0, b_ < 3, z3.Not(z3.And(p_ == fim[i], q_ == j))),
            fc[p_, q_, a_, b_] == old[p_, q_, a_, b_]))))
        return out

    def inv_k(V):
        return [("range", z3.And(V.v.k >= 0, V.v.k <= NCELL))] + cells(V, V.v.k)

    def unfold_k(V):
        S = Spec(V.old)
        i, j = V.p.i, V.p.j
        out = []
        for a in range(3):
            for b in range(3):
                out += [S.X.zero(i, j, a, b), S.X.unfold(i, j, a, b, V.v.k), S.X.unfold(i, j, a, b, V.v.k - 1)]
        return out

    def inv_l(V):
        S = Spec(V.old)
        i, j, k, l = V.p.i, V.p.j, V.v.k, V.v.l
        m = V.old.a.multi[j, i, 0]
        return [("range", z3.And(l >= 0, l <= m, k >= 0, k < NCELL)),
                ("cos", V.v.cos_phase == S.cosQ(k, j, i, l)), ("sin", V.v.sin_phase == S.sinQ(k, j, i, l))] + cells(V, k)

    def unfold_l(V):
        S = Spec(V.old)
        i, j, k, l = V.p.i, V.p.j, V.v.k, V.v.l
        return [S.cosQ.zero(k, j, i), S.sinQ.zero(k, j, i), S.cosQ.unfold(k, j, i, l), S.sinQ.unfold(k, j, i, l),
                S.cosQ.unfold(k, j, i, l - 1), S.sinQ.unfold(k, j, i, l - 1)] + unfold_k(V)

    def ens(V):
        return cells(V, NCELL)
    return Contract(F, "transform_dynmat_to_fc_ij", replay_fn=RD.replay_d2f, shapes=SH, macros={"PI": PI}, requires=req, ensures=ens, modifies=("fc",),
                    derived=DERIVED, loops={0: LoopSpec(inv_k, unfold=unfold_k), 1: LoopSpec(inv_l, unfold=unfold_l)}, abstract_mul=True)


def driver_contract():
    """dym_transform_dynmat_to_fc: fc[fc_index_map[i], j] == X(i, j, ., ., N) for every primitive atom i and supercell
    atom j (rows not addressed by fc_index_map keep their values; the first num_patom rows are zeroed first)."""
    def req(V):
        np_, ns = V.p.num_patom, V.p.num_satom
        # the Python layer passes a freshly zeroed array (DynmatToForceConstants.run)
        return wf(V) + [z3.ForAll([p_, q_, a_, b_], z3.Implies(
            z3.And(p_ >= 0, p_ < FC0, q_ >= 0, q_ < ns, a_ >= 0, a_ < 3, b_ >= 0, b_ < 3), V.a.fc[p_, q_, a_, b_] == 0))]

    def cells(V, done):
        S = Spec(V.old)
        np_, ns = V.p.num_patom, V.p.num_satom
        fc, fim = V.a.fc, V.old.a.fc_index_map
        return [("rows", z3.ForAll([i_, q_, a_, b_], z3.Implies(
            z3.And(i_ >= 0, i_ < np_, q_ >= 0, q_ < ns, a_ >= 0, a_ < 3, b_ >= 0, b_ < 3),
            fc[fim[i_], q_, a_, b_] == z3.If(done(i_, q_), S.X(i_, q_, a_, b_, NCELL), 0)))),
                ("other rows", z3.ForAll([p_, q_, a_, b_], z3.Implies(
                    z3.And(p_ >= 0, p_ < FC0, q_ >= 0, q_ < ns, a_ >= 0, a_ < 3, b_ >= 0, b_ < 3,
                           z3.ForAll([i_], z3.Implies(z3.And(i_ >= 0, i_ < np_), fim[i_] != p_))),
                    fc[p_, q_, a_, b_] == 0)))]

    def inv_ij(V):
        ns = V.p.num_satom
        ij = V.v.ij
        return [("range", z3.And(ij >= 0, ij <= V.p.num_patom * ns))] + cells(V, lambda a, b: z3.Or(a < ij / ns, z3.And(a == ij / ns, b < ij % ns)))

    def inv_i(V):
        return [("range", z3.And(V.v.i >= 0, V.v.i <= V.p.num_patom))] + cells(V, lambda a, b: a < V.v.i)

    def inv_j(V):
        return [("range", z3.And(V.v.i >= 0, V.v.i < V.p.num_patom, V.v.j >= 0, V.v.j <= V.p.num_satom))] + \
            cells(V, lambda a, b: z3.Or(a < V.v.i, z3.And(a == V.v.i, b < V.v.j)))

    def ens(V):
        return cells(V, lambda a, b: z3.BoolVal(True))
    return Contract(F, "dym_transform_dynmat_to_fc", replay_fn=RD.replay_d2f, shapes=SH, macros={"PI": PI}, requires=req, ensures=ens, modifies=("fc",),
                    derived=DERIVED, loops={0: LoopSpec(fill=True), 1: LoopSpec(inv_ij), 2: LoopSpec(inv_i), 3: LoopSpec(inv_j)},
                    use_contracts={"transform_dynmat_to_fc_ij"}, abstract_mul=True)
