"""C04 — supercell / trimmed-cell lattice bookkeeping in phonopy/structure/cells.py (Python front end with
the 3x3 numpy mini-model; per-atom arrays are abstracted and listed in the evidence)."""
import z3

from pvc import pyexec
from pvc.core import CheckerError
from pvc.pyexec import PyExec, PState, Record, NDArr, Opaque, Ref

CF = "phonopy/structure/cells.py"


def mat3(st, name, sort=z3.Real):
    return st.new(NDArr((3, 3), [sort("%s_%d%d" % (name, i, j)) for i in range(3) for j in range(3)]))


def vals(st, ref):
    return st.heap[ref.id].flat


def _atoms_hook(ex, st, args, kwargs):
    return st.new(Record("PhonopyAtoms", dict(kwargs)))


def _super_init(ex, st, args, kwargs):
    self_ref = args[0]
    st.heap[self_ref.id].attrs.update(kwargs)
    st.heap[self_ref.id].attrs["__initialised__"] = True
    return None


def supercell_lattice(run):
    """Supercell._create_supercell: the lattice handed to PhonopyAtoms.__init__ must be S^T L (rows = basis vectors)."""
    mod = pyexec.load(CF)
    pref = CF + ":Supercell._create_supercell"
    for old_style in (True, False):
        for diag in ((False,) if old_style else (False, True)):
            tag = "[is_old_style=%s%s]" % (old_style, ",diagonal" if diag else "")
            hooks = {"new:PhonopyAtoms": _atoms_hook, "super.__init__": _super_init}
            st = PState()
            Sm = mat3(st, "S", z3.Int)
            if diag:
                f = st.heap[Sm.id].flat
                st.heap[Sm.id].flat = [f[i * 3 + j] if i == j else z3.IntVal(0) for i in range(3) for j in range(3)]
            L = mat3(st, "L")
            Svals, Lvals = list(vals(st, Sm)), list(vals(st, L))
            if True:
                # Smith normal form object: D = P S Q with integer unimodular P, Q (assumed contract of SNF3x3)
                Pm = mat3(st, "P", z3.Int)
                Dm = st.new(NDArr((3, 3), [z3.Int("D_%d" % i) if i == j else z3.IntVal(0) for i in range(3) for j in range(3)]))
                hooks["new:SNF3x3"] = lambda ex, st_, args, kwargs: st_.new(Record("SNF3x3", {"P": Pm, "D": Dm}))
            ucell = st.new(Record("PhonopyAtoms", {"cell": L, "scaled_positions": Opaque("positions"), "symbols": Opaque("symbols"),
                                                   "masses": Opaque("masses"), "magnetic_moments": Opaque("magmoms")}))
            self_ref = st.new(Record("Supercell", {"_is_old_style": old_style, "_supercell_matrix": Sm}))
            hooks["Supercell._get_surrounding_frame"] = lambda ex, st_, args, kwargs: tuple(z3.Int("multi_%d" % i) for i in range(3))
            hooks["_trim_cell"] = None
            ex = PyExec(mod, run.sink, pref + tag, hooks={k: v for k, v in hooks.items() if v is not None}, opaque_unknown=True, split=True)
            ex.assert_as_assume = True     # the code's own runtime asserts abort the construction (refusal)
            ex.hooks["SNF3x3.run"] = lambda ex_, st_, args, kwargs: None
            # per-atom bookkeeping of TrimmedCell is abstracted here (its own contract is separate)
            ex.hooks["TrimmedCell._extract"] = lambda ex_, st_, args, kwargs: tuple(Opaque("TrimmedCell._extract[%d]" % k) for k in range(6))
            ex.hooks["TrimmedCell._get_reorder_indices"] = lambda ex_, st_, args, kwargs: Opaque("reorder indices")
            ex.hooks["TrimmedCell.copy"] = lambda ex_, st_, args, kwargs: args[0]
            st.pc.extend([z3.Int("multi_%d" % i) >= 1 for i in range(3)])

            def det3(f):
                return (f[0] * (f[4] * f[8] - f[5] * f[7]) - f[1] * (f[3] * f[8] - f[5] * f[6]) + f[2] * (f[3] * f[7] - f[4] * f[6]))
            # preconditions: the supercell matrix is non-singular; SNF3x3 returns a unimodular P (its contract)
            st.pc.append(det3(list(vals(st, Sm))) != 0)
            st.pc.append(det3(list(vals(st, Pm))) == 1)
            # non-diagonal branch of the new style is the interesting one; the diagonal one is also executed
            m = mod.method("Supercell", "_create_supercell")
            n0 = len(run.sink.obls)
            outs = ex.call_function(st, m, [ucell, z3.RealVal("1/100000")], self_ref=self_ref, cls="Supercell")
            ok = 0
            for (s2, fl, v) in outs:
                rec = s2.heap[self_ref.id]
                if not rec.attrs.get("__initialised__") or "cell" not in rec.attrs:
                    continue          # the "Supercell creation failed" path builds an empty cell
                cell = rec.attrs["cell"]
                if isinstance(cell, Opaque):
                    raise CheckerError("supercell lattice was abstracted: %s" % cell)
                got = s2.heap[cell.id].flat
                hyps = list(s2.pc)
                for i in range(3):
                    for j in range(3):
                        want = sum(z3.ToReal(Svals[k * 3 + i]) * Lvals[k * 3 + j] for k in range(3))   # (S^T L)[i][j]
                        ob = run.sink.add(pref + tag, "post", hyps, pyexec.num(got[i * 3 + j]) == want,
                                          meta={"label": "supercell lattice == S^T L, element [%d][%d]" % (i, j)})
                        ob.meta["witness"] = {"S%d%d" % (a, b): Svals[a * 3 + b] for a in range(3) for b in range(3)}
                        ob.meta["finding_candidate"] = "E3"
                        ob.backend = "poly"        # exact rational-function identity in the entries of S, L, multi
                        ob.replay = replay_supercell(old_style)
                ok += 1
            if ok == 0:
                raise CheckerError("no successful construction path explored for %s" % tag)
            run.functions.append({"file": CF, "function": "Supercell._create_supercell" + tag, "line": m.lineno, "sha1": mod.sha(m),
                                  "obligations": len(run.sink.obls) - n0})
            run.abstracted += sorted(set(ex.abstracted))[:40]


def replay_supercell(old_style):
    def rp(model):
        import json
        from pvc import creplay
        S = [[int(creplay.num(model.get("pvc!w!S%d%d" % (i, j), "0"))) for j in range(3)] for i in range(3)]
        import numpy as np
        if abs(round(np.linalg.det(np.array(S)))) < 1 or old_style:
            S = [[1, 1, 0], [0, 1, 0], [0, 0, 2]]
        code = (
            "import numpy as np, json\n"
            "from phonopy.structure.atoms import PhonopyAtoms\n"
            "from phonopy.structure.cells import get_supercell\n"
            "L = np.array([[3.0,0.1,0.2],[0.3,4.0,0.1],[0.2,0.1,5.0]])\n"
            "u = PhonopyAtoms(symbols=['H'], cell=L, scaled_positions=[[0.1,0.2,0.3]])\n"
            "S = np.array(%r)\n"
            "sc = get_supercell(u, S, is_old_style=%r)\n"
            "print(json.dumps({'got': sc.cell.tolist(), 'expected': (S.T @ L).tolist()}))\n" % (S, old_style))
        rc, out, err = creplay.py_eval(code)
        if rc != 0:
            return {"reproduced": False, "reason": err[-400:]}
        r = json.loads(out)
        bad = not np.allclose(np.array(r["got"]), np.array(r["expected"]), atol=1e-9)
        return {"reproduced": bool(bad), "input": {"supercell_matrix": S, "is_old_style": old_style}, "real_code": r,
                "expected": "supercell lattice rows == S^T L"}
    return rp
