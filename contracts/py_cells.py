"""C04 — supercell / trimmed-cell lattice bookkeeping in phonopy/structure/cells.py (Python front end with
the 3x3 numpy mini-model; per-atom arrays are abstracted and listed in the evidence)."""
import z3

from pvc import pyexec
from pvc.core import CheckerError
from pvc.pyexec import PyExec, PState, Record, NDArr, Opaque, Ref

CF = "phonopy/structure/cells.py"


def mat3(st, name, sort=z3.Real):
    return st.new(NDArr((3, 3), [sort("%s_%d%d" % (name, i, j)) for i in range(3) for j in range(3)]))


def vals(st, ref):
    return st.heap[ref.id].flat


def _atoms_hook(ex, st, args, kwargs):
    return st.new(Record("PhonopyAtoms", dict(kwargs)))


def _super_init(ex, st, args, kwargs):
    self_ref = args[0]
    st.heap[self_ref.id].attrs.update(kwargs)
    st.heap[self_ref.id].attrs["__initialised__"] = True
    return None


def supercell_lattice(run):
    """Supercell._create_supercell: the lattice handed to PhonopyAtoms.__init__ must be S^T L (rows = basis vectors)."""
    mod = pyexec.load(CF)
    pref = CF + ":Supercell._create_supercell"
    for old_style in (True, False):
        for diag in ((False,) if old_style else (False, True)):
            tag = "[is_old_style=%s%s]" % (old_style, ",diagonal" if diag else "")
            hooks = {"new:PhonopyAtoms": _atoms_hook, "super.__init__": _super_init}
            st = PState()
            Sm = mat3(st, "S", z3.Int)
            if diag:
                f = st.heap[Sm.id].flat
                st.heap[Sm.id].flat = [f[i * 3 + j] if i == j else z3.IntVal(0) for i in range(3) for j in range(3)]
            L = mat3(st, "L")
            Svals, Lvals = list(vals(st, Sm)), list(vals(st, L))
            if True:
                # Smith normal form object: D = P S Q with integer unimodular P, Q (assumed contract of SNF3x3)
                Pm = mat3(st, "P", z3.Int)
                Dm = st.new(NDArr((3, 3), [z3.Int("D_%d" % i) if i == j else z3.IntVal(0) for i in range(3) for j in range(3)]))
                hooks["new:SNF3x3"] = lambda ex, st_, args, kwargs: st_.new(Record("SNF3x3", {"P": Pm, "D": Dm}))
            ucell = st.new(Record("PhonopyAtoms", {"cell": L, "scaled_positions": Opaque("positions"), "symbols": Opaque("symbols"),
                                                   "masses": Opaque("masses"), "magnetic_moments": Opaque("magmoms")}))
            self_ref = st.new(Record("Supercell", {"_is_old_style": old_style, "_supercell_matrix": Sm}))
            hooks["Supercell._get_surrounding_frame"] = lambda ex, st_, args, kwargs: tuple(z3.Int("multi_%d" % i) for i in range(3))
            hooks["_trim_cell"] = None
            ex = PyExec(mod, run.sink, pref + tag, hooks={k: v for k, v in hooks.items() if v is not None}, opaque_unknown=True, split=True)
            ex.assert_as_assume = True     # the code's own runtime asserts abort the construction (refusal)
            ex.hooks["SNF3x3.run"] = lambda ex_, st_, args, kwargs: None
            # per-atom bookkeeping of TrimmedCell is abstracted here (its own contract is separate)
            ex.hooks["TrimmedCell._extract"] = lambda ex_, st_, args, kwargs: tuple(Opaque("TrimmedCell._extract[%d]" % k) for k in range(6))
            ex.hooks["TrimmedCell._get_reorder_indices"] = lambda ex_, st_, args, kwargs: Opaque("reorder indices")
            ex.hooks["TrimmedCell.copy"] = lambda ex_, st_, args, kwargs: args[0]
            st.pc.extend([z3.Int("multi_%d" % i) >= 1 for i in range(3)])

            def det3(f):
                return (f[0] * (f[4] * f[8] - f[5] * f[7]) - f[1] * (f[3] * f[8] - f[5] * f[6]) + f[2] * (f[3] * f[7] - f[4] * f[6]))
            # preconditions: the supercell matrix is non-singular; SNF3x3 returns a unimodular P (its contract)
            st.pc.append(det3(list(vals(st, Sm))) != 0)
            st.pc.append(det3(list(vals(st, Pm))) == 1)
            # non-diagonal branch of the new style is the interesting one; the diagonal one is also executed
            m = mod.method("Supercell", "_create_supercell")
            n0 = len(run.sink.obls)
            outs = ex.call_function(st, m, [ucell, z3.RealVal("1/100000")], self_ref=self_ref, cls="Supercell")
            ok = 0
            for (s2, fl, v) in outs:
                rec = s2.heap[self_ref.id]
                if not rec.attrs.get("__initialised__") or "cell" not in rec.attrs:
                    continue          # the "Supercell creation failed" path builds an empty cell
                cell = rec.attrs["cell"]
                if isinstance(cell, Opaque):
                    raise CheckerError("supercell lattice was abstracted: %s" % cell)
                got = s2.heap[cell.id].flat
                hyps = list(s2.pc)
                for i in range(3):
                    for j in range(3):
                        want = sum(z3.ToReal(Svals[k * 3 + i]) * Lvals[k * 3 + j] for k in range(3))   # (S^T L)[i][j]
                        ob = run.sink.add(pref + tag, "post", hyps, pyexec.num(got[i * 3 + j]) == want,
                                          meta={"label": "supercell lattice == S^T L, element [%d][%d]" % (i, j)})
                        ob.meta["witness"] = {"S%d%d" % (a, b): Svals[a * 3 + b] for a in range(3) for b in range(3)}
                        ob.meta["finding_candidate"] = "E3"
                        ob.backend = "poly"        # exact rational-function identity in the entries of S, L, multi
                        ob.replay = replay_supercell(old_style)
                ok += 1
            if ok == 0:
                raise CheckerError("no successful construction path explored for %s" % tag)
            run.functions.append({"file": CF, "function": "Supercell._create_supercell" + tag, "line": m.lineno, "sha1": mod.sha(m),
                                  "obligations": len(run.sink.obls) - n0})
            run.abstracted += sorted(set(ex.abstracted))[:40]


def replay_supercell(old_style):
    def rp(model):
        import json
        from pvc import creplay
        S = [[int(creplay.num(model.get("pvc!w!S%d%d" % (i, j), "0"))) for j in range(3)] for i in range(3)]
        import numpy as np
        if abs(round(np.linalg.det(np.array(S)))) < 1 or old_style:
            S = [[1, 1, 0], [0, 1, 0], [0, 0, 2]]
        code = (
            "import numpy as np, json\n"
            "from phonopy.structure.atoms import PhonopyAtoms\n"
            "from phonopy.structure.cells import get_supercell\n"
            "L = np.array([[3.0,0.1,0.2],[0.3,4.0,0.1],[0.2,0.1,5.0]])\n"
            "u = PhonopyAtoms(symbols=['H'], cell=L, scaled_positions=[[0.1,0.2,0.3]])\n"
            "S = np.array(%r)\n"
            "sc = get_supercell(u, S, is_old_style=%r)\n"
            "print(json.dumps({'got': sc.cell.tolist(), 'expected': (S.T @ L).tolist()}))\n" % (S, old_style))
        rc, out, err = creplay.py_eval(code)
        if rc != 0:
            return {"reproduced": False, "reason": err[-400:]}
        r = json.loads(out)
        bad = not np.allclose(np.array(r["got"]), np.array(r["expected"]), atol=1e-9)
        return {"reproduced": bool(bad), "input": {"supercell_matrix": S, "is_old_style": old_style}, "real_code": r,
                "expected": "supercell lattice rows == S^T L"}
    return rp


# ------------------------------------------------------------------ per-atom data: the same index function on every list
def simple_supercell_replication(run):
    """Supercell._get_simple_supercell: symbols, masses, magnetic moments and the atom map handed to PhonopyAtoms are all the
    unit-cell lists with every element repeated len(lattice_points) times (the same index function), and a list that is
    present in the unit cell is present in the supercell."""
    mod = pyexec.load(CF)
    m = mod.method("Supercell", "_get_simple_supercell")
    for masses_given in (True, False):
        for mag in ("none", "collinear", "noncollinear"):
            tag = "[masses=%s,magmoms=%s]" % ("given" if masses_given else "None", mag)
            pref = CF + ":Supercell._get_simple_supercell" + tag
            captured = {}

            def atoms_hook(ex, st, args, kwargs):
                captured.update(kwargs)
                return st.new(Record("PhonopyAtoms", dict(kwargs)))
            ex = PyExec(mod, run.sink, pref, hooks={"new:PhonopyAtoms": atoms_hook}, opaque_unknown=True, split=True)
            st = PState()
            sym = Opaque("unitcell.symbols", idx=("base", "symbols"))
            mas = Opaque("unitcell.masses", idx=("base", "masses")) if masses_given else None
            if mag == "none":
                mg = None
            else:
                mg = st.new(Record("ndarray", {"ndim": 1 if mag == "collinear" else 2}))
                mg = Opaque("unitcell.magnetic_moments", idx=("base", "magmoms"))
            ucell = st.new(Record("PhonopyAtoms", {"cell": mat3(st, "L"), "scaled_positions": Opaque("positions", idx=("base", "positions")),
                                                   "symbols": sym, "masses": mas, "magnetic_moments": mg}))
            Sm = mat3(st, "S", z3.Int)
            self_ref = st.new(Record("Supercell", {"_is_old_style": True, "_supercell_matrix": Sm}))
            multi = tuple(z3.Int("multi_%d" % i) for i in range(3))
            n0 = len(run.sink.obls)
            outs = ex.call_function(st, m, [ucell, multi, None], self_ref=self_ref, cls="Supercell")
            if not captured:
                raise CheckerError("_get_simple_supercell: PhonopyAtoms constructor call not found")
            s_idx = getattr(captured.get("symbols"), "idx", None)
            ok_sym = isinstance(s_idx, tuple) and s_idx[0] == "repeat" and s_idx[1] == ("base", "symbols")
            run.sink.add(pref, "replication", [], z3.BoolVal(bool(ok_sym)), meta={"label": "symbols: every unit-cell entry repeated n_l times"})
            cnt = s_idx[2] if ok_sym else None

            def same(name, val, base, present):
                if not present:
                    good = val is None
                    lab = "%s stays None" % name
                else:
                    i_ = getattr(val, "idx", None)
                    good = isinstance(val, Opaque) and isinstance(i_, tuple) and i_[0] == "repeat" and i_[1] == ("base", base) and i_[2] == cnt
                    lab = "%s: present and replicated with the same index function as the symbols" % name
                run.sink.add(pref, "replication", [], z3.BoolVal(bool(good)), meta={"label": lab})
            same("masses", captured.get("masses"), "masses", masses_given)
            same("magnetic_moments", captured.get("magnetic_moments"), "magmoms", mag != "none")
            am = outs[0][2][1] if outs and isinstance(outs[0][2], tuple) else None
            ai = getattr(am, "idx", None)
            run.sink.add(pref, "replication", [], z3.BoolVal(isinstance(ai, tuple) and ai[0] == "repeat" and isinstance(ai[1], tuple) and ai[1][0] == "arange" and ai[2] == cnt),
                         meta={"label": "atom map == repeat(arange(n), n_l): same index function"})
            run.functions.append({"file": CF, "function": "Supercell._get_simple_supercell" + tag, "line": m.lineno, "sha1": mod.sha(m),
                                  "obligations": len(run.sink.obls) - n0})


def trimmed_cell_reorder(run):
    """TrimmedCell._run with positions_to_reorder: positions, symbols, masses, magnetic moments and extracted_atoms are all
    reordered by the same index array (so the primitive/supercell maps built from extracted_atoms stay consistent)."""
    mod = pyexec.load(CF)
    m = mod.method("TrimmedCell", "_run")
    for masses_given in (True, False):
        for mag_given in (True, False):
            tag = "[masses=%s,magmoms=%s]" % ("given" if masses_given else "None", "given" if mag_given else "None")
            pref = CF + ":TrimmedCell._run" + tag
            ids = Opaque("reorder indices")
            base = {"pos": Opaque("trimmed_positions", idx=("base", "pos")), "sym": Opaque("trimmed_symbols", idx=("base", "sym")),
                    "mas": Opaque("trimmed_masses", idx=("base", "mas")) if masses_given else None,
                    "mag": Opaque("trimmed_magmoms", idx=("base", "mag")) if mag_given else None,
                    "ext": Opaque("extracted_atoms", idx=("base", "ext")), "tab": Opaque("mapping_table")}
            hooks = {"TrimmedCell._extract": lambda ex, st, args, kwargs: (base["pos"], base["sym"], base["mas"], base["mag"], base["ext"], base["tab"]),
                     "TrimmedCell._get_reorder_indices": lambda ex, st, args, kwargs: ids,
                     "super.__init__": _super_init}
            ex = PyExec(mod, run.sink, pref, hooks=hooks, opaque_unknown=True, split=True)
            st = PState()
            cell = st.new(Record("PhonopyAtoms", {"cell": mat3(st, "L"), "scaled_positions": Opaque("positions"), "symbols": Opaque("symbols"),
                                                  "masses": Opaque("masses"), "magnetic_moments": Opaque("magmoms")}))
            self_ref = st.new(Record("TrimmedCell", {}))
            n0 = len(run.sink.obls)
            outs = ex.call_function(st, m, [cell, mat3(st, "A"), Opaque("positions_to_reorder"), True, z3.RealVal("1/100000")], self_ref=self_ref, cls="TrimmedCell")
            done = 0
            for (s2, fl, v) in outs:
                rec = s2.heap[self_ref.id].attrs
                if not rec.get("__initialised__"):
                    continue
                done += 1
                want = lambda b: ("take", ("base", b), ids.id)    # noqa: E731
                checks = [("scaled_positions", rec.get("scaled_positions"), "pos", True), ("symbols", rec.get("symbols"), "sym", True),
                          ("masses", rec.get("masses"), "mas", masses_given), ("magnetic_moments", rec.get("magnetic_moments"), "mag", mag_given),
                          ("extracted_atoms", rec.get("_extracted_atoms"), "ext", True)]
                for name, val, b, present in checks:
                    if not present:
                        good = val is None
                    else:
                        # np.array(x) of the reordered value keeps its index function
                        good = isinstance(val, Opaque) and (val.idx == want(b))
                    run.sink.add(pref, "reorder", list(s2.pc), z3.BoolVal(bool(good)),
                                 meta={"label": "%s reordered by the same index array as every other per-atom list" % name if present else "%s stays None" % name})
            if not done:
                raise CheckerError("TrimmedCell._run: no successful path")
            run.functions.append({"file": CF, "function": "TrimmedCell._run" + tag, "line": m.lineno, "sha1": mod.sha(m),
                                  "obligations": len(run.sink.obls) - n0})


# ------------------------------------------------------------------ Smith-normal-form path: lattice points -> coset representatives
def _adj3(f):
    c = lambda a, b, c_, d: f[a] * f[d] - f[b] * f[c_]
    return [c(4, 5, 7, 8), -c(1, 2, 7, 8), c(1, 2, 4, 5),
            -c(3, 5, 6, 8), c(0, 2, 6, 8), -c(0, 2, 3, 5),
            c(3, 4, 6, 7), -c(0, 1, 6, 7), c(0, 1, 3, 4)]


def _det3(f):
    return f[0] * (f[4] * f[8] - f[5] * f[7]) - f[1] * (f[3] * f[8] - f[5] * f[6]) + f[2] * (f[3] * f[7] - f[4] * f[6])


def snf_lattice_points(run):
    """Supercell._get_simple_supercell on the Smith-normal-form path (D = P S Q): for two generic lattice points l1, l2 of the
    D-box and one generic unit-cell atom x, the scaled positions handed to PhonopyAtoms satisfy
        P . S . (pos(l2) - pos(l1)) == det(P) . (l2 - l1)          (exact polynomial identity, 3 components)
    i.e. with det P = 1 (contract of SNF3x3) pos(l2) - pos(l1) = S^-1 P^-1 (l2 - l1), and pos(l1) = S^-1 (P^-1 l1 + x).
    Together with lemma `snf-coset` below this gives: two atoms of the simple supercell coincide modulo the supercell
    lattice iff l1 == l2 modulo D, so the D-box enumerates every coset of Z^3 / S Z^3 exactly once."""
    mod = pyexec.load(CF)
    m = mod.method("Supercell", "_get_simple_supercell")
    pref = CF + ":Supercell._get_simple_supercell[SNF lattice points]"
    st = PState()
    Sm, Pm = mat3(st, "S", z3.Int), mat3(st, "P", z3.Int)
    Sv, Pv = list(vals(st, Sm)), list(vals(st, Pm))
    L = mat3(st, "L")
    l1 = [z3.Int("l1_%d" % i) for i in range(3)]
    l2 = [z3.Int("l2_%d" % i) for i in range(3)]
    x = [z3.Real("x_%d" % i) for i in range(3)]
    pos = st.new(NDArr((1, 3), x))
    captured = {}

    def atoms_hook(ex, st_, args, kwargs):
        captured.setdefault("calls", []).append((dict(kwargs), st_))
        return st_.new(Record("PhonopyAtoms", dict(kwargs)))

    def inv_hook(ex, st_, args, kwargs):
        a = args[0]
        if isinstance(a, Ref) and a.id == Pm.id:
            # inverse of the integer matrix P with det P == 1 (on the path: contract of SNF3x3) is its adjugate
            return st_.new(NDArr((3, 3), _adj3(Pv), "int"))
        f = [pyexec.num(v) for v in st_.heap[a.id].flat]
        f = [z3.ToReal(v) if v.sort() == z3.IntSort() else v for v in f]
        d = _det3(f)
        return st_.new(NDArr((3, 3), [v / d for v in _adj3(f)]))

    def rint_hook(ex, st_, args, kwargs):
        a = args[0]
        if isinstance(a, Ref) and all(z3.is_expr(v) and v.sort() == z3.IntSort() for v in st_.heap[a.id].flat):
            return a        # rint of integers
        raise CheckerError("np.rint on a non-integer matrix in _get_simple_supercell (contract needs maintenance)")

    def tile_hook(ex, st_, args, kwargs):
        a = st_.heap[args[0].id]
        if tuple(pyexec.concrete_int(v) for v in args[1]) != (1, 1):
            raise CheckerError("np.tile: expected (n, 1) with n == 1 generic atom")
        return st_.new(a.clone())

    def repeat_hook(ex, st_, args, kwargs):
        if isinstance(args[0], Opaque):
            return Opaque("repeat(" + args[0].why + ")")
        a = st_.heap[args[0].id]
        k = pyexec.concrete_int(args[1])
        if a.shape != (1, 3) or pyexec.concrete_int(kwargs.get("axis")) != 0:
            raise CheckerError("np.repeat: expected positions (1, 3), axis=0")
        return st_.new(NDArr((k, 3), list(a.flat) * k))
    hooks = {"new:PhonopyAtoms": atoms_hook, "numpy.linalg.inv": inv_hook, "numpy.rint": rint_hook, "numpy.tile": tile_hook,
             "numpy.repeat": repeat_hook, "numpy.meshgrid": lambda ex, st_, a, k: (Opaque("b"), Opaque("c"), Opaque("a")),
             "numpy.c_": lambda ex, st_, a, k: st_.new(NDArr((2, 3), l1 + l2, "int"))}
    ex = PyExec(mod, run.sink, pref, hooks=hooks, opaque_unknown=True, split=True)
    ex.assert_as_assume = True
    st.pc += [_det3(Sv) != 0, _det3(Pv) == 1]
    ucell = st.new(Record("PhonopyAtoms", {"cell": L, "scaled_positions": pos, "symbols": Opaque("symbols"),
                                           "masses": None, "magnetic_moments": None}))
    self_ref = st.new(Record("Supercell", {"_is_old_style": False, "_supercell_matrix": Sm}))
    multi = tuple(z3.Int("D_%d" % i) for i in range(3))
    n0 = len(run.sink.obls)
    outs = ex.call_function(st, m, [ucell, multi, Pm], self_ref=self_ref, cls="Supercell")
    if not captured.get("calls"):
        raise CheckerError("_get_simple_supercell never constructs PhonopyAtoms")
    kw, s2 = captured["calls"][-1]
    sp = kw.get("scaled_positions")
    if not (isinstance(sp, Ref) and isinstance(s2.heap[sp.id], NDArr) and s2.heap[sp.id].shape == (2, 3)):
        raise CheckerError("_get_simple_supercell: scaled positions were abstracted (%r)" % (sp,))
    p = [pyexec.num(v) for v in s2.heap[sp.id].flat]
    Sr = [z3.ToReal(v) for v in Sv]
    Pr = [z3.ToReal(v) for v in Pv]
    detP = _det3(Pr)
    hyps = list(s2.pc)

    def mv(M, v):
        return [sum(M[i * 3 + k] * v[k] for k in range(3)) for i in range(3)]
    dpos = [p[3 + i] - p[i] for i in range(3)]
    lhs = mv(Pr, mv(Sr, dpos))
    for i in range(3):
        ob = run.sink.add(pref, "post", hyps, lhs[i] == detP * z3.ToReal(l2[i] - l1[i]),
                          meta={"label": "P S (pos(l2) - pos(l1)) == det(P) (l2 - l1), component %d" % i})
        ob.backend = "poly"
        ob.replay = replay_snf
    lhs1 = mv(Pr, [a - b for a, b in zip(mv(Sr, p[:3]), x)])      # P (S pos(l1) - x) == det(P) l1
    for i in range(3):
        ob = run.sink.add(pref, "post", hyps, lhs1[i] == detP * z3.ToReal(l1[i]),
                          meta={"label": "P (S pos(l1) - x) == det(P) l1, component %d" % i})
        ob.backend = "poly"
        ob.replay = replay_snf
    run.functions.append({"file": CF, "function": "Supercell._get_simple_supercell[SNF lattice points]", "line": m.lineno,
                          "sha1": mod.sha(m), "obligations": len(run.sink.obls) - n0})
    run.abstracted += sorted(set(ex.abstracted))[:20]

    # lemma snf-coset (pure algebra, exact identities with explicit cofactors): with D = P S Q, P Pi = I, Q Qi = I (integer
    # inverses exist because det P = det Q = 1) and d = l2 - l1:
    #   (a) S z = Pi d  (z integer: the two atoms coincide)  =>  D (Qi z) = d        (so d is 0 modulo D)
    #   (b) d = D w     (w integer)                          =>  S (Q w) = Pi d      (so the atoms coincide)
    names = {}

    def M(nm):
        names[nm] = [z3.Real("%s_%d%d" % (nm, i, j)) for i in range(3) for j in range(3)]
        return names[nm]

    def mm(A, B):
        return [sum(A[i * 3 + k] * B[k * 3 + j] for k in range(3)) for i in range(3) for j in range(3)]
    I3 = [z3.RealVal(1) if i == j else z3.RealVal(0) for i in range(3) for j in range(3)]
    P_, S_, Q_, Pi, Qi = M("P"), M("S"), M("Q"), M("Pi"), M("Qi")
    D_ = mm(mm(P_, S_), Q_)
    z = [z3.Real("z_%d" % i) for i in range(3)]
    d = [z3.Real("d_%d" % i) for i in range(3)]
    w = [z3.Real("w_%d" % i) for i in range(3)]
    sub = lambda A, B: [a - b for a, b in zip(A, B)]
    # (a)  D Qi z - d  ==  P S (Q Qi - I) z + P (S z - Pi d) + (P Pi - I) d
    la = sub(mv(D_, mv(Qi, z)), d)
    ra = [a + b + c for a, b, c in zip(mv(mm(P_, S_), mv(sub(mm(Q_, Qi), I3), z)), mv(P_, sub(mv(S_, z), mv(Pi, d))), mv(sub(mm(P_, Pi), I3), d))]
    # (b)  S Q w - Pi D w  ==  (I - Pi P) S Q w
    lb = sub(mv(S_, mv(Q_, w)), mv(Pi, mv(D_, w)))
    rb = mv(sub(I3, mm(Pi, P_)), mv(S_, mv(Q_, w)))
    for tag, l_, r_ in (("(a) coincide => equal modulo D", la, ra), ("(b) equal modulo D => coincide", lb, rb)):
        for i in range(3):
            ob = run.sink.add("lemma:C04:snf-coset", "lemma", [], l_[i] == r_[i],
                              meta={"label": "cofactor identity %s, component %d: the residual is a combination of the hypotheses' residuals" % (tag, i)})
            ob.backend = "poly"


def replay_snf(model):
    """real get_supercell on the SNF path: all atoms distinct modulo the supercell lattice and the atom count is N |det S|"""
    import json
    from pvc import creplay
    code = r'''
import json, itertools
import numpy as np
from phonopy.structure.atoms import PhonopyAtoms
from phonopy.structure.cells import get_supercell
L = np.array([[3.0, 0.1, 0.2], [0.3, 4.0, 0.1], [0.2, 0.1, 5.0]])
u = PhonopyAtoms(symbols=['H', 'He'], cell=L, scaled_positions=[[0.1, 0.2, 0.3], [0.6, 0.7, 0.45]])
rng = np.random.default_rng(11)
bad = None; tried = 0
while tried < 60:
    S = rng.integers(-3, 4, size=(3, 3))
    dt = int(round(np.linalg.det(S)))
    if dt < 2 or dt > 40 or (np.diag(np.diagonal(S)) == S).all():
        continue
    tried += 1
    try:
        sc = get_supercell(u, S, is_old_style=False)
    except Exception as e:
        bad = {"S": S.tolist(), "error": repr(e)[:200]}; break
    p = sc.scaled_positions
    ok = len(p) == 2 * dt
    if ok:
        dd = p[:, None, :] - p[None, :, :]; dd -= np.rint(dd)
        close = (np.abs(dd).max(axis=2) < 1e-6).sum()
        ok = close == len(p)
        # every atom sits on a unit-cell site: S p - x integer
        r0 = (S @ p.T).T
        site = np.minimum(np.abs((r0 - u.scaled_positions[0]) - np.rint(r0 - u.scaled_positions[0])).max(axis=1),
                          np.abs((r0 - u.scaled_positions[1]) - np.rint(r0 - u.scaled_positions[1])).max(axis=1))
        ok = ok and site.max() < 1e-6
    if not ok:
        bad = {"S": S.tolist(), "natom": int(len(p)), "expected_natom": 2 * dt}; break
print(json.dumps({"failing": bad, "matrices_tried": tried}))
'''
    rc, out, err = creplay.py_eval(code)
    if rc != 0:
        return {"reproduced": False, "reason": err[-400:]}
    r = json.loads(out.strip().splitlines()[-1])
    return {"reproduced": r["failing"] is not None, "input": r["failing"], "real_code": r,
            "expected": "N |det S| atoms, pairwise distinct modulo the supercell lattice, each on a unit-cell site"}
