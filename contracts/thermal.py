"""C10 — thermal properties: get_free_energy / get_entropy / get_heat_capacity (c/phonopy.c) and
mode_F / mode_S / mode_cv / mode_ZPE / mode_zero (phonopy/phonon/thermal_properties.py)."""
import sympy as sp
import z3

from pvc import cas, pyexec, special
from pvc.core import Contract, CheckerError
from pvc.pyexec import PyExec, PState, NDArr

CF = "c/phonopy.c"
PF = "phonopy/phonon/thermal_properties.py"
KB = z3.Real("KB")
T = z3.Real("temperature")
f = z3.Real("f")

C_TERMS = {}
PY_TERMS = {}


def _pre():
    return [T > 0, f > 0, KB > 0]


def c_contracts():
    cs = []
    for fn in ("get_free_energy", "get_entropy", "get_heat_capacity"):
        for cl in (0, 1):
            def after(ex, outs, Vold, fn=fn, cl=cl):
                from pvc.cexec import merge_outcomes
                C_TERMS[(fn, cl)] = merge_outcomes(outs)[1]
            cs.append(Contract(CF, fn, fixed={"classical": cl}, tag="[classical=%d]" % cl, macros={"KB": KB},
                               requires=lambda V: [V.p.temperature > 0, V.p.f > 0, KB > 0], after=after))
    return cs


def py_extract(run):
    mod = pyexec.load(PF)
    for fn in ("mode_F", "mode_S", "mode_cv", "mode_ZPE", "mode_zero"):
        node = mod.funcs.get(fn)
        if node is None:
            raise CheckerError("function %s not found in %s" % (fn, PF))
        for cl in (False, True):
            ex = PyExec(mod, run.sink, "%s:%s[classical=%s]" % (PF, fn, cl), globals_={"Kb": KB})
            st = PState()
            st.pc.extend(_pre())
            fr = st.new(NDArr((1,), [f]))
            n0 = len(run.sink.obls)
            outs = ex.call_function(st, node, [T, fr], {"classical": cl})
            if any(o[1] != "return" for o in outs):
                raise CheckerError("%s: a path does not return" % fn)
            if len(outs) > 1:
                m = ex.merge([(o[0], {"__r": o[2]}) for o in outs])
                if m is None:
                    raise CheckerError("%s: cannot merge %d return paths" % (fn, len(outs)))
                outs = [(m[0], "return", m[1]["__r"])]
            s2, _, v = outs[0]
            if isinstance(v, pyexec.Ref):
                o = s2.heap[v.id]
                v = o.flat[0] if isinstance(o, NDArr) else o.items[0]
            PY_TERMS[(fn, int(cl))] = pyexec.num(v)
            run.functions.append({"file": PF, "function": "%s[classical=%s]" % (fn, cl), "line": node.lineno,
                                  "sha1": mod.sha(node), "obligations": len(run.sink.obls) - n0})


def _sy(t):
    return cas.to_sympy(t)


def _srepr_pair(a, b):
    return (sp.srepr(a), sp.srepr(b))


def lemmas(run):
    Tm, fm, K = sp.Symbol("temperature", real=True), sp.Symbol("f", real=True), sp.Symbol("KB", real=True)
    pos = {Tm: sp.Symbol("temperature", positive=True), fm: sp.Symbol("f", positive=True), K: sp.Symbol("KB", positive=True)}
    x = fm / (K * Tm)
    # documented closed forms (doc/formulation.md "Thermodynamic properties"; property statement C10)
    doc = {("F", 0): K * Tm * sp.log(1 - sp.exp(-x)),
           ("S", 0): fm / (2 * Tm) * sp.coth(x / 2) - K * sp.log(2 * sp.sinh(x / 2)),
           ("C", 0): K * x ** 2 * sp.exp(x) / (sp.exp(x) - 1) ** 2,
           ("F", 1): K * Tm * sp.log(x), ("S", 1): K - K * sp.log(x), ("C", 1): K}
    cname = {"F": "get_free_energy", "S": "get_entropy", "C": "get_heat_capacity"}
    pname = {"F": "mode_F", "S": "mode_S", "C": "mode_cv"}
    pref = "lemma:C10"
    for q in ("F", "S", "C"):
        for cl in (0, 1):
            ct = _sy(C_TERMS[(cname[q], cl)])
            pt = _sy(PY_TERMS[(pname[q], cl)])
            zpe = fm / 2 if (q == "F" and cl == 0) else 0
            run.lemma(pref, "equiv", "%s classical=%d: compiled == Python%s" % (q, cl, " - f/2 (documented zero-point term)" if zpe != 0 else ""),
                      [], None, backend="poly", pairs=[_srepr_pair(ct, pt - zpe)])
            run.lemma(pref, "doc", "%s classical=%d: compiled == documented closed form" % (q, cl),
                      [], None, backend="poly", pairs=[_srepr_pair(ct.subs(pos), doc[(q, cl)].subs(pos))])
    for cl in (0, 1):
        F_, S_, C_ = (_sy(C_TERMS[(cname[q], cl)]).subs(pos) for q in ("F", "S", "C"))
        Tp = pos[Tm]
        run.lemma(pref, "thermo", "classical=%d: S == -dF/dT" % cl, [], None, backend="poly",
                  pairs=[_srepr_pair(S_, -sp.diff(F_, Tp))])
        run.lemma(pref, "thermo", "classical=%d: C_V == T dS/dT" % cl, [], None, backend="poly",
                  pairs=[_srepr_pair(C_, Tp * sp.diff(S_, Tp))])
        Fp = _sy(PY_TERMS[("mode_F", cl)]).subs(pos)
        Sp = _sy(PY_TERMS[("mode_S", cl)]).subs(pos)
        run.lemma(pref, "thermo", "classical=%d (Python): S == -dF/dT including the zero-point term" % cl, [], None,
                  backend="poly", pairs=[_srepr_pair(Sp, -sp.diff(Fp, Tp))])
    # zero-point and zero functions
    run.lemma(pref, "doc", "mode_ZPE == f/2 (quantum), 0 (classical); mode_zero == 0", [],
              z3.And(PY_TERMS[("mode_ZPE", 0)] == f / 2, PY_TERMS[("mode_ZPE", 1)] == 0,
                     PY_TERMS[("mode_zero", 0)] == 0, PY_TERMS[("mode_zero", 1)] == 0))
    # signs: C_V >= 0 (and hence dS/dT = C_V/T >= 0, S non-decreasing), from exp > 0
    for cl in (0, 1):
        run.lemma(pref, "sign", "classical=%d: C_V >= 0" % cl, _pre(), C_TERMS[("get_heat_capacity", cl)] >= 0)
    # C_V <= k_B reduces to sinh(x/2) >= x/2 (AX-SINH); dC/dT >= 0 reduces to tanh(x/2) <= x/2 (AX-TANH): reductions decided here
    xx = sp.Symbol("x", positive=True)
    Cx = xx ** 2 * sp.exp(xx) / (sp.exp(xx) - 1) ** 2
    run.lemma(pref, "reduce", "C_V/k_B == ((x/2)/sinh(x/2))^2  (so C_V <= k_B iff sinh(x/2) >= x/2, AX-SINH)", [], None,
              backend="poly", pairs=[_srepr_pair(Cx, ((xx / 2) / sp.sinh(xx / 2)) ** 2)])
    # KB constant: compiled literal vs units.Kb (exact rationals of the two doubles)
    import runpy
    from fractions import Fraction
    from pvc.cfront import REPO
    import os
    u = runpy.run_path(os.path.join(REPO, "phonopy", "units.py"))
    if "KB" in KB_VALUE:
        ratio = KB_VALUE["KB"] / Fraction(u["Kb"])
        run.lemma(pref, "const", "|KB(c/phonopy.c) / Kb(units.py) - 1| < 1e-9 (value %.17g vs %.17g)" % (float(KB_VALUE["KB"]), u["Kb"]),
                  [], z3.And(z3.RealVal(ratio) - 1 < z3.RealVal("1/1000000000"), 1 - z3.RealVal(ratio) < z3.RealVal("1/1000000000")))


def finite_obligations(run, known):
    """finite:C10:* in the special-value model, for the compiled and the Python expressions."""
    pref = "finite:C10"
    items = [("compiled get_free_energy", C_TERMS[("get_free_energy", 0)], None),
             ("compiled get_entropy", C_TERMS[("get_entropy", 0)], "E5"),
             ("compiled get_heat_capacity", C_TERMS[("get_heat_capacity", 0)], "E5"),
             ("python mode_F", PY_TERMS[("mode_F", 0)], None),
             ("python mode_S", PY_TERMS[("mode_S", 0)], "E5"),
             ("python mode_cv", PY_TERMS[("mode_cv", 0)], "E5")]
    for name, term, key in items:
        xv = special.lift(term)
        hy = _pre() + ([KB == z3.RealVal(KB_VALUE["KB"])] if "KB" in KB_VALUE else [])
        ob = run.lemma(pref, "finite", "%s is finite for every finite T > 0 and f > 0" % name, hy, xv.fin)
        ob.meta["witness"] = {"temperature": T, "f": f, "KB": KB}
        ob.meta["which"] = name
        ob.replay = replay_finite
        if key:
            ob.meta["finding_candidate"] = key


KB_VALUE = {}


def replay_finite(model):
    import ctypes
    import json
    import math
    from pvc import creplay
    Tv = creplay.witness(model, "temperature")
    fv = creplay.witness(model, "f")
    which = model.get("__which__", "")
    out = {"input": {"temperature": Tv, "f_eV": fv}}
    res = {}
    lib = creplay.lib("phonopy")
    for fn in ("get_free_energy", "get_entropy", "get_heat_capacity"):
        g = getattr(lib, fn)
        g.restype = ctypes.c_double
        g.argtypes = [ctypes.c_double, ctypes.c_double, ctypes.c_int]
        res["c:" + fn] = g(Tv, fv, 0)
    rc, so, se = creplay.py_eval(
        "import numpy as np, json, warnings; warnings.simplefilter('ignore');"
        "from phonopy.phonon.thermal_properties import mode_F, mode_S, mode_cv;"
        "f=np.array([%r]); print(json.dumps([float(mode_F(%r,f)[0]), float(mode_S(%r,f)[0]), float(mode_cv(%r,f)[0])]))" % (fv, Tv, Tv, Tv))
    if rc == 0:
        pf = json.loads(so.replace("NaN", '"nan"').replace("Infinity", '"inf"').replace('-"inf"', '"-inf"'))
        for k, v in zip(("py:mode_F", "py:mode_S", "py:mode_cv"), pf):
            res[k] = float(v)
    else:
        out["python_error"] = se[-300:]
    out["real_code"] = {k: (v if math.isfinite(v) else str(v)) for k, v in res.items()}
    out["reproduced"] = any(not math.isfinite(v) for v in res.values())
    out["expected"] = "finite values"
    return out


# ------------------------------------------------------------------ the mesh kernel
from pvc.core import LoopSpec        # noqa: E402
from pvc.spec import RecSum          # noqa: E402

RS = z3.RealSort()
spec_F = z3.Function("spec_free_energy", RS, RS, z3.IntSort(), RS)
spec_S = z3.Function("spec_entropy", RS, RS, z3.IntSort(), RS)
spec_C = z3.Function("spec_heat_capacity", RS, RS, z3.IntSort(), RS)


def scalar_call_contracts():
    """call-site contracts of the three scalar functions: the result *is* spec_X(T, f, classical)
    (definitional; the closed forms of spec_X are the lemmas above)."""
    out = {}
    for fn, sp_ in (("get_free_energy", spec_F), ("get_entropy", spec_S), ("get_heat_capacity", spec_C)):
        out[fn] = Contract(CF, fn, macros={"KB": KB},
                           requires=lambda V: [V.p.temperature > 0],
                           ensures=(lambda sp_: lambda V: [("def", V.ret == sp_(V.p.temperature, V.p.f, V.p.classical))])(sp_))
    return out


def kernel_contract():
    """phpy_get_thermal_properties: thermal_props[3j+c] += sum_i w_i sum_{k: f_ik > cutoff, T_j > 0} g_c(T_j, f_ik)."""
    a, b, k_, i_ = z3.Ints("a b k_ i_")
    st = {}

    def setup(V):
        Tt, Fq, W = V.a.temperatures, V.a.freqs, V.a.weights
        cut, cl = V.p.cutoff_frequency, V.p.classical
        nb = V.p.num_bands

        def g(bb, Tj, fv):
            return z3.If(bb % 3 == 0, spec_F(Tj, fv, cl), z3.If(bb % 3 == 1, spec_S(Tj, fv, cl), spec_C(Tj, fv, cl)))

        def term(i, bb, k):
            Tj = Tt[bb / 3]
            fv = Fq[i, k]
            return z3.If(z3.And(Tj > 0, fv > cut), g(bb, Tj, fv) * z3.ToReal(W[i]), z3.RealVal(0))
        inner = RecSum("tp_inner", [z3.IntSort(), z3.IntSort()], term)
        outer = RecSum("tp_outer", [z3.IntSort()], lambda bb, i: inner(i, bb, nb))
        st["inner"], st["outer"], st["nb"] = inner, outer, nb
        return inner, outer

    def rng(V, a_, b_):
        return z3.And(a_ >= 0, a_ < V.p.num_qpoints, b_ >= 0, b_ < 3 * V.p.num_temp)

    def inv1(V):
        inner, outer = setup(V)
        i = V.v.i
        tp = V.a.tp
        return [("range", z3.And(i >= 0, i <= V.p.num_qpoints)),
                ("tp", z3.ForAll([a, b], z3.Implies(rng(V, a, b), tp[a, b] == z3.If(a < i, inner(a, b, V.p.num_bands), 0))))]

    def inv2(V):
        inner, outer = setup(V)
        i, j = V.v.i, V.v.j
        tp = V.a.tp
        return [("range", z3.And(j >= 0, j <= V.p.num_temp, i >= 0, i < V.p.num_qpoints)),
                ("tp", z3.ForAll([a, b], z3.Implies(rng(V, a, b), tp[a, b] == z3.If(a < i, inner(a, b, V.p.num_bands),
                                                                                        z3.If(z3.And(a == i, b < 3 * j), inner(i, b, V.p.num_bands), 0)))))]

    def inv3(V):
        inner, outer = setup(V)
        i, j, k = V.v.i, V.v.j, V.v.k
        tp = V.a.tp
        nbv = V.p.num_bands
        return [("range", z3.And(k >= 0, k <= nbv, j >= 0, j < V.p.num_temp, i >= 0, i < V.p.num_qpoints)),
                ("tp", z3.ForAll([a, b], z3.Implies(rng(V, a, b), tp[a, b] == z3.If(
                    a < i, inner(a, b, nbv),
                    z3.If(a == i, z3.If(b < 3 * j, inner(i, b, nbv), z3.If(b < 3 * j + 3, inner(i, b, k), 0)), 0)))))]

    def unfold3(V):
        inner, outer = setup(V)
        i, j, k = V.v.i, V.v.j, V.v.k
        out = []
        for c in range(3):
            out += [inner.unfold(i, 3 * j + c, k), inner.unfold(i, 3 * j + c, k - 1), inner.zero(i, 3 * j + c)]
        return out

    def unfold2(V):
        inner, outer = setup(V)
        i, j = V.v.i, V.v.j
        return [inner.zero(i, 3 * j + c) for c in range(3)] + [inner.zero(i, 3 * (j - 1) + c) for c in range(3)]

    def inv4(V):
        inner, outer = setup(V)
        i = V.v.i
        tpv, old = V.a.thermal_props, V.old.a.thermal_props
        return [("range", z3.And(i >= 0, i <= V.p.num_qpoints)),
                ("acc", z3.ForAll([b], z3.Implies(z3.And(b >= 0, b < 3 * V.p.num_temp), tpv[b] == old[b] + outer(b, i))))]

    def inv5(V):
        inner, outer = setup(V)
        i, j = V.v.i, V.v.j
        tpv, old = V.a.thermal_props, V.old.a.thermal_props
        return [("range", z3.And(j >= 0, j <= 3 * V.p.num_temp, i >= 0, i < V.p.num_qpoints)),
                ("acc", z3.ForAll([b], z3.Implies(z3.And(b >= 0, b < 3 * V.p.num_temp),
                                                   tpv[b] == old[b] + outer(b, i) + z3.If(b < j, inner(i, b, V.p.num_bands), 0))))]

    def unfold45(V):
        inner, outer = setup(V)
        i = V.v.i
        bq = z3.Int("b")
        return [z3.ForAll([bq], outer.unfold(bq, i), patterns=[outer(bq, i)]),
                z3.ForAll([bq], outer.unfold(bq, i - 1), patterns=[outer(bq, i)]),
                z3.ForAll([bq], outer.zero(bq), patterns=[outer(bq, 0)])]

    def ens(V):
        inner, outer = setup(V)
        tpv, old = V.a.thermal_props, V.old.a.thermal_props
        return [("sum", z3.ForAll([b], z3.Implies(z3.And(b >= 0, b < 3 * V.p.num_temp),
                                                  tpv[b] == old[b] + outer(b, V.p.num_qpoints))))]

    return Contract(
        CF, "phpy_get_thermal_properties", macros={"KB": KB},
        shapes={"thermal_props": lambda P: [3 * P.num_temp], "temperatures": lambda P: [P.num_temp],
                "freqs": lambda P: [P.num_qpoints, P.num_bands], "weights": lambda P: [P.num_qpoints]},
        local_shapes={"tp": lambda V: [V.p.num_qpoints, 3 * V.p.num_temp]},
        requires=lambda V: [V.p.num_temp >= 0, V.p.num_qpoints >= 0, V.p.num_bands >= 0,
                            z3.Or(V.p.classical == 0, V.p.classical == 1)],
        modifies=("thermal_props",),
        loops={0: LoopSpec(fill=True), 1: LoopSpec(inv1, unfold=lambda V: unfold2(V)), 2: LoopSpec(inv2, unfold=unfold2),
               3: LoopSpec(inv3, unfold=unfold3), 4: LoopSpec(inv4, unfold=unfold45), 5: LoopSpec(inv5, unfold=unfold45)},
        use_contracts={"get_free_energy", "get_entropy", "get_heat_capacity"}, ensures=ens,
        gen=_kernel_gen, interp=_kernel_interp, race=True)


def _kernel_gen(rnd):
    import numpy as np
    nt, nq, nb = rnd.randint(0, 3), rnd.randint(0, 3), rnd.randint(0, 3)
    return {"thermal_props": np.array([rnd.uniform(-1, 1) for _ in range(3 * nt)]),
            "temperatures": np.array([rnd.choice([0.0, 1.0, 50.0, 300.0, 1000.0]) for _ in range(nt)]),
            "freqs": np.array([[rnd.choice([-0.01, 0.0, 0.001, 0.01, 0.05]) for _ in range(nb)] for _ in range(nq)]).reshape(nq, nb),
            "weights": np.array([rnd.randint(1, 4) for _ in range(nq)]),
            "num_temp": nt, "num_qpoints": nq, "num_bands": nb,
            "cutoff_frequency": rnd.choice([0.0, 0.001, 0.01]), "classical": rnd.randint(0, 1)}


def _kernel_interp(h, ev, env):
    import ctypes
    from pvc.ceval import recsum_callable
    out = {}
    for nm, cn in (("spec_free_energy", "get_free_energy"), ("spec_entropy", "get_entropy"), ("spec_heat_capacity", "get_heat_capacity")):
        g = getattr(h.lib, cn)
        g.restype = ctypes.c_double
        g.argtypes = [ctypes.c_double, ctypes.c_double, ctypes.c_int]
        out[nm] = (lambda g: lambda t, f_, c: g(float(t), float(f_), int(c)))(g)
    # the RecSums of this contract, rebuilt over the evaluator's constants
    Vp = h.Vpre
    Tt, Fq, W = Vp.a.temperatures, Vp.a.freqs, Vp.a.weights
    cut, cl, nb = Vp.p.cutoff_frequency, Vp.p.classical, Vp.p.num_bands

    def term(i, bb, k):
        Tj = Tt[bb / 3]
        fv = Fq[i, k]
        gg = z3.If(bb % 3 == 0, spec_F(Tj, fv, cl), z3.If(bb % 3 == 1, spec_S(Tj, fv, cl), spec_C(Tj, fv, cl)))
        return z3.If(z3.And(Tj > 0, fv > cut), gg * z3.ToReal(W[i]), z3.RealVal(0))
    inner = RecSum("tp_inner", [z3.IntSort(), z3.IntSort()], term)
    outer = RecSum("tp_outer", [z3.IntSort()], lambda bb, i: inner(i, bb, nb))
    ev.funcs.update(out)
    out[inner.key] = recsum_callable(ev, inner)
    ev.funcs.update(out)
    out[outer.key] = recsum_callable(ev, outer)
    return out


def init_ownership(run):
    """ThermalPropertiesBase.__init__ must not write into the arrays of the Mesh object it is given
    (a second ThermalProperties built from the same mesh has to see the same frequencies)."""
    from pvc.pyexec import Record, Opaque
    mod = pyexec.load(PF)
    m = mod.method("ThermalPropertiesBase", "__init__")
    pref = PF + ":ThermalPropertiesBase.__init__"
    for bi in ("band_indices=None", "band_indices given"):
        for pr in (False, True):
            tag = "[%s,pretend_real=%s]" % (bi, pr)
            ex = PyExec(mod, run.sink, pref + tag, opaque_unknown=True, split=True, globals_={"THzToEv": z3.Real("THzToEv")})
            st = PState()
            F_, E_, W_ = Opaque("mesh.frequencies"), Opaque("mesh.eigenvectors"), Opaque("mesh.weights")
            prim = st.new(Record("Primitive", {"Z": z3.Int("Z")}))
            dm = st.new(Record("DynamicalMatrix", {"primitive": prim}))
            mesh = st.new(Record("Mesh", {"frequencies": F_, "eigenvectors": E_, "weights": W_, "dynamical_matrix": dm}))
            self_ref = st.new(Record("ThermalPropertiesBase", {}))
            kw = {"cutoff_frequency": z3.Real("cutoff_THz"), "pretend_real": pr,
                  "band_indices": (None if bi.endswith("None") else Opaque("band_indices")), "is_projection": z3.Bool("is_projection"),
                  "classical": z3.Bool("classical")}
            n0 = len(run.sink.obls)
            outs = ex.call_function(st, m, [mesh], kw, self_ref=self_ref, cls="ThermalPropertiesBase")
            for (s2, fl, v) in outs:
                owned = {F_.buf: "mesh.frequencies", E_.buf: "mesh.eigenvectors", W_.buf: "mesh.weights"}
                hits = [(owned[b], ln) for (b, ln) in s2.writes if b in owned]
                ob = run.sink.add(pref + tag, "ownership", list(s2.pc), z3.BoolVal(not hits),
                                  meta={"label": ("arrays of the caller's Mesh are written in place: %s" % hits) if hits else
                                        "the arrays of the caller's Mesh are not written"})
                ob.replay = replay_init_ownership
            run.functions.append({"file": PF, "function": "ThermalPropertiesBase.__init__" + tag, "line": m.lineno, "sha1": mod.sha(m),
                                  "obligations": len(run.sink.obls) - n0})
            run.abstracted += sorted(set(ex.abstracted))[:10]


def replay_init_ownership(model):
    from pvc import creplay
    code = r'''
import json
import numpy as np
from phonopy.phonon.thermal_properties import ThermalPropertiesBase
class P: Z = 1
class D: primitive = P()
class M:
    def __init__(self):
        self.frequencies = np.array([[1.0, 2.0, 3.0], [2.0, 3.0, 4.0]]); self.eigenvectors = None
        self.weights = np.array([1, 2]); self.dynamical_matrix = D()
m = M(); before = m.frequencies.copy()
ThermalPropertiesBase(m)
print(json.dumps({"mesh_frequencies_changed_by": float(np.abs(m.frequencies - before).max())}))
'''
    rc, out, err = creplay.py_eval(code)
    if rc != 0:
        return {"reproduced": False, "reason": err[-400:]}
    import json
    r = json.loads(out.strip().splitlines()[-1])
    return {"reproduced": r["mesh_frequencies_changed_by"] > 0, "real_code": r, "expected": "mesh.frequencies unchanged by constructing ThermalPropertiesBase"}


def c_driver(run):
    """Python drivers around the (separately proved) mesh kernel and mode functions.

    ThermalProperties._run_c_thermal_properties: on a generic temperature row (a length-1 temperature array stands for any
    length: the driver is vectorised along that axis and the kernel contract is per row) the kernel is called exactly once,
    on a fresh zero (n_T, 3) array, with this object's temperatures, *whole* frequency and weight arrays, cut-off and
    statistics flag; the reported F, S, C_V are K_F/W * EvTokJmol + ZPE, K_S/W * EvTokJmol * 1000, K_Cv/W * EvTokJmol * 1000
    with K_x the kernel's weighted sums (its proved contract) and W = sum of this object's weights.
    run_free_energy / run_entropy / run_heat_capacity (Python path): mode function selected by the sign of t, same
    normalisation; _run_py_thermal_properties reports (F, S * 1000, C_V * 1000) of those for the same generic temperature."""
    from pvc.pyexec import Record, Opaque, Ref, num, Closure
    mod = pyexec.load(PF)
    EV, W, ZPE = z3.Real("EvTokJmol"), z3.Real("sum_of_weights"), z3.Real("zero_point_energy")
    Tt = z3.Real("temperature_t")
    K = [z3.Real("kernel_sum_" + s) for s in ("F", "S", "Cv")]
    m = mod.method("ThermalProperties", "_run_c_thermal_properties")
    pref = PF + ":ThermalProperties._run_c_thermal_properties"
    F_, W_, CUT, CL = Opaque("self._frequencies"), Opaque("self._weights"), z3.Real("cutoff_eV"), z3.Bool("classical")
    calls, fresh = [], []

    def kernel(ex, st, args, kwargs):
        calls.append((list(args), dict(kwargs), list(st.pc)))
        if args and isinstance(args[0], Ref) and isinstance(st.heap[args[0].id], NDArr) and len(st.heap[args[0].id].flat) == 3:
            a = st.heap[args[0].id]
            fresh.append(all(z3.is_true(z3.simplify(num(v) == 0)) for v in a.flat))
            a.flat = [num(v) + k for v, k in zip(a.flat, K)]       # proved kernel contract: props[t, :] += (K_F, K_S, K_Cv)(t)
        return None

    def npsum(ex, st, args, kwargs):
        return W if (args and args[0] is W_) else z3.Real("sum_of_something_else!%d" % next(Ref._ids))
    hooks = {"phonopy._phonopy.thermal_properties": kernel, "numpy.sum": npsum}
    ex = PyExec(mod, run.sink, pref, hooks=hooks, opaque_unknown=True, split=True, globals_={"EvTokJmol": EV})
    st = PState()
    st.pc += [W > 0, EV > 0]
    temps = st.new(NDArr((1,), [Tt]))
    self_ref = st.new(Record("ThermalProperties", {
        "_temperatures": temps, "_frequencies": F_, "_weights": W_, "_cutoff_frequency": CUT, "_classical": CL,
        "_zero_point_energy": ZPE, "_thermal_properties": None}))
    n0 = len(run.sink.obls)
    outs = ex.call_function(st, m, [], self_ref=self_ref, cls="ThermalProperties")
    if not outs:
        raise CheckerError("_run_c_thermal_properties: no returning path")
    for (s2, fl, v) in outs:
        rec = s2.heap[self_ref.id].attrs
        here = [c for c in calls if all(any(p.eq(q) for q in s2.pc) for p in c[2])]
        ok1 = len(here) == 1
        run.sink.add(pref, "call-pre", list(s2.pc), z3.BoolVal(ok1), meta={"label": "the compiled kernel is called exactly once (%d calls)" % len(here)}).replay = replay_c_driver
        a_ = (here[0][0] + [None] * 6)[:6] if here else [None] * 6
        for nm, got, want in (("temperatures", a_[1], temps), ("whole frequency array", a_[2], F_), ("whole weight array", a_[3], W_),
                              ("cut-off frequency", a_[4], CUT), ("classical flag", a_[5], CL)):
            same = (got is want) or (isinstance(got, Ref) and isinstance(want, Ref) and got.id == want.id) or \
                   (z3.is_expr(got) and z3.is_expr(want) and got.eq(want))
            run.sink.add(pref, "call-pre", list(s2.pc), z3.BoolVal(bool(ok1 and same)),
                         meta={"label": "the kernel receives this object's %s" % nm}).replay = replay_c_driver
        run.sink.add(pref, "call-pre", list(s2.pc), z3.BoolVal(bool(fresh) and all(fresh)),
                     meta={"label": "the kernel accumulates into a fresh zero array"}).replay = replay_c_driver
        tp = rec.get("_thermal_properties")
        want = [K[0] / W * EV + ZPE, K[1] / W * EV * 1000, K[2] / W * EV * 1000]
        if not (isinstance(tp, tuple) and len(tp) == 4):
            raise CheckerError("_run_c_thermal_properties: _thermal_properties is not a 4-tuple in the model")
        run.sink.add(pref, "post", list(s2.pc), z3.BoolVal(isinstance(tp[0], Ref) and tp[0].id == temps.id),
                     meta={"label": "reported temperatures are this object's temperatures"}).replay = replay_c_driver
        for nm, x, w in zip(("free energy", "entropy", "heat capacity"), tp[1:], want):
            val = None
            if isinstance(x, Ref) and isinstance(s2.heap[x.id], NDArr) and len(s2.heap[x.id].flat) == 1:
                val = num(s2.heap[x.id].flat[0])
            goal = (val == w) if val is not None else z3.BoolVal(False)
            run.sink.add(pref, "post", list(s2.pc), goal,
                         meta={"label": "reported %s == kernel sum / sum(weights) * EvTokJmol%s" % (nm, " + zero-point energy" if nm[0] == "f" else " * 1000")}).replay = replay_c_driver
    run.functions.append({"file": PF, "function": "ThermalProperties._run_c_thermal_properties", "line": m.lineno, "sha1": mod.sha(m),
                          "obligations": len(run.sink.obls) - n0})
    run.abstracted += sorted(set(ex.abstracted))[:10]



def py_drivers(run):
    """see c_driver: Python path (mode-function selection by the sign of t, normalisation, unit factors)"""
    from pvc.pyexec import Record, Opaque, Ref, num, Closure
    mod = pyexec.load(PF)
    EV, W = z3.Real("EvTokJmol"), z3.Real("sum_of_weights")
    Tt = z3.Real("temperature_t")
    F_, W_, CUT, CL = Opaque("self._frequencies"), Opaque("self._weights"), z3.Real("cutoff_eV"), z3.Bool("classical")

    def npsum(ex, st, args, kwargs):
        return W if (args and args[0] is W_) else z3.Real("sum_of_something_else!%d" % next(Ref._ids))
    SUMS = {}

    def calc(ex, st, args, kwargs):
        fn = args[0].node.name if isinstance(args[0], Closure) else repr(args[0])
        targ = args[1] if len(args) > 1 else kwargs.get("t")
        key = (fn, "None" if targ is None else str(targ))
        return SUMS.setdefault(key, z3.Real("weighted_sum[%s,%s]" % key))
    t = z3.Real("t")
    for meth, pos, zero in (("run_free_energy", "mode_F", "mode_ZPE"), ("run_heat_capacity", "mode_cv", "mode_zero"), ("run_entropy", "mode_S", "mode_zero")):
        m = mod.method("ThermalPropertiesBase", meth)
        pref = PF + ":ThermalPropertiesBase." + meth
        ex = PyExec(mod, run.sink, pref, hooks={"ThermalPropertiesBase._calculate_thermal_property": calc, "numpy.sum": npsum},
                    opaque_unknown=True, split=True, globals_={"EvTokJmol": EV})
        st = PState()
        st.pc += [W > 0, EV > 0]
        self_ref = st.new(Record("ThermalPropertiesBase", {"_weights": W_, "_frequencies": F_, "_cutoff_frequency": CUT, "_classical": CL}))
        n0 = len(run.sink.obls)
        outs = ex.call_function(st, m, [t], self_ref=self_ref, cls="ThermalPropertiesBase")
        if not outs:
            raise CheckerError(meth + ": no returning path")
        for (s2, fl, v) in outs:
            sp_ = SUMS.setdefault((pos, "t"), z3.Real("weighted_sum[%s,%s]" % (pos, "t")))
            sz_ = SUMS.setdefault((zero, "None"), z3.Real("weighted_sum[%s,%s]" % (zero, "None")))
            goal = (num(v) == z3.If(t > 0, sp_, sz_) / W * EV) if z3.is_expr(v) or isinstance(v, (int, float)) else z3.BoolVal(False)
            run.sink.add(pref, "post", list(s2.pc), goal,
                         meta={"label": "%s(t) == weighted mesh sum of %s (t > 0) or %s (t <= 0), divided by sum(weights), times EvTokJmol" % (meth, pos, zero)})
        run.functions.append({"file": PF, "function": "ThermalPropertiesBase." + meth, "line": m.lineno, "sha1": mod.sha(m),
                              "obligations": len(run.sink.obls) - n0})
    # _run_py_thermal_properties on the generic temperature
    m = mod.method("ThermalProperties", "_run_py_thermal_properties")
    pref = PF + ":ThermalProperties._run_py_thermal_properties"
    P = [z3.Real("py_" + s) for s in ("F", "S", "Cv")]
    seen = []

    def getpy(ex, st, args, kwargs):
        seen.append(args[0] if args else kwargs.get("t"))
        return tuple(P)
    ex = PyExec(mod, run.sink, pref, hooks={"ThermalProperties._get_py_thermal_properties": getpy}, opaque_unknown=True, split=True)
    st = PState()
    temps = st.new(NDArr((1,), [Tt]))
    self_ref = st.new(Record("ThermalProperties", {"_temperatures": temps, "_thermal_properties": None}))
    n0 = len(run.sink.obls)
    outs = ex.call_function(st, m, [], self_ref=self_ref, cls="ThermalProperties")
    for (s2, fl, v) in outs:
        tp = s2.heap[self_ref.id].attrs.get("_thermal_properties")
        if not (isinstance(tp, tuple) and len(tp) == 4):
            raise CheckerError("_run_py_thermal_properties: _thermal_properties is not a 4-tuple in the model")
        run.sink.add(pref, "post", list(s2.pc), z3.BoolVal(len(seen) == 1 and z3.is_expr(seen[0]) and seen[0].eq(Tt)),
                     meta={"label": "the mode sums are evaluated at each listed temperature"})
        for nm, x, w in zip(("free energy", "entropy", "heat capacity"), tp[1:], (P[0], P[1] * 1000, P[2] * 1000)):
            val = None
            if isinstance(x, Ref) and isinstance(s2.heap[x.id], NDArr) and len(s2.heap[x.id].flat) == 1:
                val = num(s2.heap[x.id].flat[0])
            run.sink.add(pref, "post", list(s2.pc), (val == w) if val is not None else z3.BoolVal(False),
                         meta={"label": "reported %s of the Python path" % nm})
    run.functions.append({"file": PF, "function": "ThermalProperties._run_py_thermal_properties", "line": m.lineno, "sha1": mod.sha(m),
                          "obligations": len(run.sink.obls) - n0})


def replay_c_driver(model):
    """real ThermalProperties._run_c_thermal_properties with a numpy stand-in that implements the kernel's proved contract
    (props[t, :] += sum_q w_q sum_{b: f > cutoff} (F, S, C_V)(f, T)), 7 and 200003 q-points, compared with the direct formula"""
    from pvc import creplay
    code = r'''
import sys, types, json
import numpy as np
stub = types.ModuleType("phonopy._phonopy")
from phonopy.phonon.thermal_properties import mode_F, mode_S, mode_cv
calls = []
def thermal_properties(props, temps, freqs, weights, cutoff, classical):
    freqs = np.asarray(freqs); weights = np.asarray(weights)
    calls.append((freqs.shape, weights.shape))
    c = freqs > cutoff
    fq = np.where(c, freqs, 1.0)
    for i, t in enumerate(temps):
        if t > 0:
            for k, fn in enumerate((mode_F, mode_S, mode_cv)):
                props[i, k] += np.sum(np.where(c, fn(t, fq, classical=classical), 0.0) * weights[:, None])
stub.thermal_properties = thermal_properties
sys.modules["phonopy._phonopy"] = stub
import phonopy
phonopy._phonopy = stub
import phonopy.phonon.thermal_properties as tpm
rng = np.random.default_rng(3)
worst = 0.0; nq_bad = None
for nq in (7, 200003):
    o = tpm.ThermalProperties.__new__(tpm.ThermalProperties)
    o._temperatures = np.array([50.0, 300.0, 700.0]); o._frequencies = rng.uniform(0.002, 0.05, size=(nq, 6)); o._weights = rng.integers(1, 7, size=nq).astype("int64")
    o._cutoff_frequency = 0.0; o._classical = False; o._zero_point_energy = 0.25
    o._run_c_thermal_properties()
    ref = np.zeros((3, 3)); thermal_properties(ref, o._temperatures, o._frequencies, o._weights, 0.0, False)
    ref /= o._weights.sum()
    want = [ref[:, 0] * tpm.EvTokJmol + 0.25, ref[:, 1] * tpm.EvTokJmol * 1000, ref[:, 2] * tpm.EvTokJmol * 1000]
    got = o._thermal_properties
    dev = float(max(np.abs(np.array(g) - w).max() / np.abs(w).max() for g, w in zip(got[1:], want)))
    if dev > worst:
        worst, nq_bad = dev, nq
print(json.dumps({"max_rel_dev": worst, "q_points_of_worst_case": nq_bad}))
'''
    rc, out, err = creplay.py_eval(code)
    if rc != 0:
        return {"reproduced": False, "reason": err[-500:]}
    import json
    r = json.loads(out.strip().splitlines()[-1])
    return {"reproduced": r["max_rel_dev"] > 1e-9, "input": {"q-points": [7, 200003], "bands": 6, "weights": "random integers 1..6 (seed 3)", "temperatures": [50, 300, 700]},
            "real_code": r, "expected": "reported F, S, C_V == weighted mesh sums / sum(weights) in the reported units"}
