"""C10 — thermal properties: get_free_energy / get_entropy / get_heat_capacity (c/phonopy.c) and
mode_F / mode_S / mode_cv / mode_ZPE / mode_zero (phonopy/phonon/thermal_properties.py)."""
import sympy as sp
import z3

from pvc import cas, pyexec, special
from pvc.core import Contract, CheckerError
from pvc.pyexec import PyExec, PState, NDArr

CF = "c/phonopy.c"
PF = "phonopy/phonon/thermal_properties.py"
KB = z3.Real("KB")
T = z3.Real("temperature")
f = z3.Real("f")

C_TERMS = {}
PY_TERMS = {}


def _pre():
    return [T > 0, f > 0, KB > 0]


def c_contracts():
    cs = []
    for fn in ("get_free_energy", "get_entropy", "get_heat_capacity"):
        for cl in (0, 1):
            def after(ex, outs, Vold, fn=fn, cl=cl):
                from pvc.cexec import merge_outcomes
                C_TERMS[(fn, cl)] = merge_outcomes(outs)[1]
            cs.append(Contract(CF, fn, fixed={"classical": cl}, tag="[classical=%d]" % cl, macros={"KB": KB},
                               requires=lambda V: [V.p.temperature > 0, V.p.f > 0, KB > 0], after=after))
    return cs


def py_extract(run):
    mod = pyexec.load(PF)
    for fn in ("mode_F", "mode_S", "mode_cv", "mode_ZPE", "mode_zero"):
        node = mod.funcs.get(fn)
        if node is None:
            raise CheckerError("function %s not found in %s" % (fn, PF))
        for cl in (False, True):
            ex = PyExec(mod, run.sink, "%s:%s[classical=%s]" % (PF, fn, cl), globals_={"Kb": KB})
            st = PState()
            st.pc.extend(_pre())
            fr = st.new(NDArr((1,), [f]))
            n0 = len(run.sink.obls)
            outs = ex.call_function(st, node, [T, fr], {"classical": cl})
            if any(o[1] != "return" for o in outs):
                raise CheckerError("%s: a path does not return" % fn)
            if len(outs) > 1:
                m = ex.merge([(o[0], {"__r": o[2]}) for o in outs])
                if m is None:
                    raise CheckerError("%s: cannot merge %d return paths" % (fn, len(outs)))
                outs = [(m[0], "return", m[1]["__r"])]
            s2, _, v = outs[0]
            if isinstance(v, pyexec.Ref):
                o = s2.heap[v.id]
                v = o.flat[0] if isinstance(o, NDArr) else o.items[0]
            PY_TERMS[(fn, int(cl))] = pyexec.num(v)
            run.functions.append({"file": PF, "function": "%s[classical=%s]" % (fn, cl), "line": node.lineno,
                                  "sha1": mod.sha(node), "obligations": len(run.sink.obls) - n0})


def _sy(t):
    return cas.to_sympy(t)


def _srepr_pair(a, b):
    return (sp.srepr(a), sp.srepr(b))


def lemmas(run):
    Tm, fm, K = sp.Symbol("temperature", real=True), sp.Symbol("f", real=True), sp.Symbol("KB", real=True)
    pos = {Tm: sp.Symbol("temperature", positive=True), fm: sp.Symbol("f", positive=True), K: sp.Symbol("KB", positive=True)}
    x = fm / (K * Tm)
    # documented closed forms (doc/formulation.md "Thermodynamic properties"; property statement C10)
    doc = {("F", 0): K * Tm * sp.log(1 - sp.exp(-x)),
           ("S", 0): fm / (2 * Tm) * sp.coth(x / 2) - K * sp.log(2 * sp.sinh(x / 2)),
           ("C", 0): K * x ** 2 * sp.exp(x) / (sp.exp(x) - 1) ** 2,
           ("F", 1): K * Tm * sp.log(x), ("S", 1): K - K * sp.log(x), ("C", 1): K}
    cname = {"F": "get_free_energy", "S": "get_entropy", "C": "get_heat_capacity"}
    pname = {"F": "mode_F", "S": "mode_S", "C": "mode_cv"}
    pref = "lemma:C10"
    for q in ("F", "S", "C"):
        for cl in (0, 1):
            ct = _sy(C_TERMS[(cname[q], cl)])
            pt = _sy(PY_TERMS[(pname[q], cl)])
            zpe = fm / 2 if (q == "F" and cl == 0) else 0
            run.lemma(pref, "equiv", "%s classical=%d: compiled == Python%s" % (q, cl, " - f/2 (documented zero-point term)" if zpe != 0 else ""),
                      [], None, backend="poly", pairs=[_srepr_pair(ct, pt - zpe)])
            run.lemma(pref, "doc", "%s classical=%d: compiled == documented closed form" % (q, cl),
                      [], None, backend="poly", pairs=[_srepr_pair(ct.subs(pos), doc[(q, cl)].subs(pos))])
    for cl in (0, 1):
        F_, S_, C_ = (_sy(C_TERMS[(cname[q], cl)]).subs(pos) for q in ("F", "S", "C"))
        Tp = pos[Tm]
        run.lemma(pref, "thermo", "classical=%d: S == -dF/dT" % cl, [], None, backend="poly",
                  pairs=[_srepr_pair(S_, -sp.diff(F_, Tp))])
        run.lemma(pref, "thermo", "classical=%d: C_V == T dS/dT" % cl, [], None, backend="poly",
                  pairs=[_srepr_pair(C_, Tp * sp.diff(S_, Tp))])
        Fp = _sy(PY_TERMS[("mode_F", cl)]).subs(pos)
        Sp = _sy(PY_TERMS[("mode_S", cl)]).subs(pos)
        run.lemma(pref, "thermo", "classical=%d (Python): S == -dF/dT including the zero-point term" % cl, [], None,
                  backend="poly", pairs=[_srepr_pair(Sp, -sp.diff(Fp, Tp))])
    # zero-point and zero functions
    run.lemma(pref, "doc", "mode_ZPE == f/2 (quantum), 0 (classical); mode_zero == 0", [],
              z3.And(PY_TERMS[("mode_ZPE", 0)] == f / 2, PY_TERMS[("mode_ZPE", 1)] == 0,
                     PY_TERMS[("mode_zero", 0)] == 0, PY_TERMS[("mode_zero", 1)] == 0))
    # signs: C_V >= 0 (and hence dS/dT = C_V/T >= 0, S non-decreasing), from exp > 0
    for cl in (0, 1):
        run.lemma(pref, "sign", "classical=%d: C_V >= 0" % cl, _pre(), C_TERMS[("get_heat_capacity", cl)] >= 0)
    # C_V <= k_B reduces to sinh(x/2) >= x/2 (AX-SINH); dC/dT >= 0 reduces to tanh(x/2) <= x/2 (AX-TANH): reductions decided here
    xx = sp.Symbol("x", positive=True)
    Cx = xx ** 2 * sp.exp(xx) / (sp.exp(xx) - 1) ** 2
    run.lemma(pref, "reduce", "C_V/k_B == ((x/2)/sinh(x/2))^2  (so C_V <= k_B iff sinh(x/2) >= x/2, AX-SINH)", [], None,
              backend="poly", pairs=[_srepr_pair(Cx, ((xx / 2) / sp.sinh(xx / 2)) ** 2)])
    # KB constant: compiled literal vs units.Kb (exact rationals of the two doubles)
    import runpy
    from fractions import Fraction
    from pvc.cfront import REPO
    import os
    u = runpy.run_path(os.path.join(REPO, "phonopy", "units.py"))
    if "KB" in KB_VALUE:
        ratio = KB_VALUE["KB"] / Fraction(u["Kb"])
        run.lemma(pref, "const", "|KB(c/phonopy.c) / Kb(units.py) - 1| < 1e-9 (value %.17g vs %.17g)" % (float(KB_VALUE["KB"]), u["Kb"]),
                  [], z3.And(z3.RealVal(ratio) - 1 < z3.RealVal("1/1000000000"), 1 - z3.RealVal(ratio) < z3.RealVal("1/1000000000")))


def finite_obligations(run, known):
    """finite:C10:* in the special-value model, for the compiled and the Python expressions."""
    pref = "finite:C10"
    items = [("compiled get_free_energy", C_TERMS[("get_free_energy", 0)], None),
             ("compiled get_entropy", C_TERMS[("get_entropy", 0)], "E5"),
             ("compiled get_heat_capacity", C_TERMS[("get_heat_capacity", 0)], "E5"),
             ("python mode_F", PY_TERMS[("mode_F", 0)], None),
             ("python mode_S", PY_TERMS[("mode_S", 0)], "E5"),
             ("python mode_cv", PY_TERMS[("mode_cv", 0)], "E5")]
    for name, term, key in items:
        xv = special.lift(term)
        hy = _pre() + ([KB == z3.RealVal(KB_VALUE["KB"])] if "KB" in KB_VALUE else [])
        ob = run.lemma(pref, "finite", "%s is finite for every finite T > 0 and f > 0" % name, hy, xv.fin)
        ob.meta["witness"] = {"temperature": T, "f": f, "KB": KB}
        ob.meta["which"] = name
        ob.replay = replay_finite
        if key:
            ob.meta["finding_candidate"] = key


KB_VALUE = {}


def replay_finite(model):
    import ctypes
    import json
    import math
    from pvc import creplay
    Tv = creplay.witness(model, "temperature")
    fv = creplay.witness(model, "f")
    which = model.get("__which__", "")
    out = {"input": {"temperature": Tv, "f_eV": fv}}
    res = {}
    lib = creplay.lib("phonopy")
    for fn in ("get_free_energy", "get_entropy", "get_heat_capacity"):
        g = getattr(lib, fn)
        g.restype = ctypes.c_double
        g.argtypes = [ctypes.c_double, ctypes.c_double, ctypes.c_int]
        res["c:" + fn] = g(Tv, fv, 0)
    rc, so, se = creplay.py_eval(
        "import numpy as np, json, warnings; warnings.simplefilter('ignore');"
        "from phonopy.phonon.thermal_properties import mode_F, mode_S, mode_cv;"
        "f=np.array([%r]); print(json.dumps([float(mode_F(%r,f)[0]), float(mode_S(%r,f)[0]), float(mode_cv(%r,f)[0])]))" % (fv, Tv, Tv, Tv))
    if rc == 0:
        pf = json.loads(so.replace("NaN", '"nan"').replace("Infinity", '"inf"').replace('-"inf"', '"-inf"'))
        for k, v in zip(("py:mode_F", "py:mode_S", "py:mode_cv"), pf):
            res[k] = float(v)
    else:
        out["python_error"] = se[-300:]
    out["real_code"] = {k: (v if math.isfinite(v) else str(v)) for k, v in res.items()}
    out["reproduced"] = any(not math.isfinite(v) for v in res.values())
    out["expected"] = "finite values"
    return out


# ------------------------------------------------------------------ the mesh kernel
from pvc.core import LoopSpec        # noqa: E402
from pvc.spec import RecSum          # noqa: E402

RS = z3.RealSort()
spec_F = z3.Function("spec_free_energy", RS, RS, z3.IntSort(), RS)
spec_S = z3.Function("spec_entropy", RS, RS, z3.IntSort(), RS)
spec_C = z3.Function("spec_heat_capacity", RS, RS, z3.IntSort(), RS)


def scalar_call_contracts():
    """call-site contracts of the three scalar functions: the result *is* spec_X(T, f, classical)
    (definitional; the closed forms of spec_X are the lemmas above)."""
    out = {}
    for fn, sp_ in (("get_free_energy", spec_F), ("get_entropy", spec_S), ("get_heat_capacity", spec_C)):
        out[fn] = Contract(CF, fn, macros={"KB": KB},
                           requires=lambda V: [V.p.temperature > 0],
                           ensures=(lambda sp_: lambda V: [("def", V.ret == sp_(V.p.temperature, V.p.f, V.p.classical))])(sp_))
    return out


def kernel_contract():
    """phpy_get_thermal_properties: thermal_props[3j+c] += sum_i w_i sum_{k: f_ik > cutoff, T_j > 0} g_c(T_j, f_ik)."""
    a, b, k_, i_ = z3.Ints("a b k_ i_")
    st = {}

    def setup(V):
        Tt, Fq, W = V.a.temperatures, V.a.freqs, V.a.weights
        cut, cl = V.p.cutoff_frequency, V.p.classical
        nb = V.p.num_bands

        def g(bb, Tj, fv):
            return z3.If(bb % 3 == 0, spec_F(Tj, fv, cl), z3.If(bb % 3 == 1, spec_S(Tj, fv, cl), spec_C(Tj, fv, cl)))

        def term(i, bb, k):
            Tj = Tt[bb / 3]
            fv = Fq[i, k]
            return z3.If(z3.And(Tj > 0, fv > cut), g(bb, Tj, fv) * z3.ToReal(W[i]), z3.RealVal(0))
        inner = RecSum("tp_inner", [z3.IntSort(), z3.IntSort()], term)
        outer = RecSum("tp_outer", [z3.IntSort()], lambda bb, i: inner(i, bb, nb))
        st["inner"], st["outer"], st["nb"] = inner, outer, nb
        return inner, outer

    def rng(V, a_, b_):
        return z3.And(a_ >= 0, a_ < V.p.num_qpoints, b_ >= 0, b_ < 3 * V.p.num_temp)

    def inv1(V):
        inner, outer = setup(V)
        i = V.v.i
        tp = V.a.tp
        return [("range", z3.And(i >= 0, i <= V.p.num_qpoints)),
                ("tp", z3.ForAll([a, b], z3.Implies(rng(V, a, b), tp[a, b] == z3.If(a < i, inner(a, b, V.p.num_bands), 0))))]

    def inv2(V):
        inner, outer = setup(V)
        i, j = V.v.i, V.v.j
        tp = V.a.tp
        return [("range", z3.And(j >= 0, j <= V.p.num_temp, i >= 0, i < V.p.num_qpoints)),
                ("tp", z3.ForAll([a, b], z3.Implies(rng(V, a, b), tp[a, b] == z3.If(a < i, inner(a, b, V.p.num_bands),
                                                                                        z3.If(z3.And(a == i, b < 3 * j), inner(i, b, V.p.num_bands), 0)))))]

    def inv3(V):
        inner, outer = setup(V)
        i, j, k = V.v.i, V.v.j, V.v.k
        tp = V.a.tp
        nbv = V.p.num_bands
        return [("range", z3.And(k >= 0, k <= nbv, j >= 0, j < V.p.num_temp, i >= 0, i < V.p.num_qpoints)),
                ("tp", z3.ForAll([a, b], z3.Implies(rng(V, a, b), tp[a, b] == z3.If(
                    a < i, inner(a, b, nbv),
                    z3.If(a == i, z3.If(b < 3 * j, inner(i, b, nbv), z3.If(b < 3 * j + 3, inner(i, b, k), 0)), 0)))))]

    def unfold3(V):
        inner, outer = setup(V)
        i, j, k = V.v.i, V.v.j, V.v.k
        out = []
        for c in range(3):
            out += [inner.unfold(i, 3 * j + c, k), inner.unfold(i, 3 * j + c, k - 1), inner.zero(i, 3 * j + c)]
        return out

    def unfold2(V):
        inner, outer = setup(V)
        i, j = V.v.i, V.v.j
        return [inner.zero(i, 3 * j + c) for c in range(3)] + [inner.zero(i, 3 * (j - 1) + c) for c in range(3)]

    def inv4(V):
        inner, outer = setup(V)
        i = V.v.i
        tpv, old = V.a.thermal_props, V.old.a.thermal_props
        return [("range", z3.And(i >= 0, i <= V.p.num_qpoints)),
                ("acc", z3.ForAll([b], z3.Implies(z3.And(b >= 0, b < 3 * V.p.num_temp), tpv[b] == old[b] + outer(b, i))))]

    def inv5(V):
        inner, outer = setup(V)
        i, j = V.v.i, V.v.j
        tpv, old = V.a.thermal_props, V.old.a.thermal_props
        return [("range", z3.And(j >= 0, j <= 3 * V.p.num_temp, i >= 0, i < V.p.num_qpoints)),
                ("acc", z3.ForAll([b], z3.Implies(z3.And(b >= 0, b < 3 * V.p.num_temp),
                                                   tpv[b] == old[b] + outer(b, i) + z3.If(b < j, inner(i, b, V.p.num_bands), 0))))]

    def unfold45(V):
        inner, outer = setup(V)
        i = V.v.i
        bq = z3.Int("b")
        return [z3.ForAll([bq], outer.unfold(bq, i), patterns=[outer(bq, i)]),
                z3.ForAll([bq], outer.unfold(bq, i - 1), patterns=[outer(bq, i)]),
                z3.ForAll([bq], outer.zero(bq), patterns=[outer(bq, 0)])]

    def ens(V):
        inner, outer = setup(V)
        tpv, old = V.a.thermal_props, V.old.a.thermal_props
        return [("sum", z3.ForAll([b], z3.Implies(z3.And(b >= 0, b < 3 * V.p.num_temp),
                                                  tpv[b] == old[b] + outer(b, V.p.num_qpoints))))]

    return Contract(
        CF, "phpy_get_thermal_properties", macros={"KB": KB},
        shapes={"thermal_props": lambda P: [3 * P.num_temp], "temperatures": lambda P: [P.num_temp],
                "freqs": lambda P: [P.num_qpoints, P.num_bands], "weights": lambda P: [P.num_qpoints]},
        local_shapes={"tp": lambda V: [V.p.num_qpoints, 3 * V.p.num_temp]},
        requires=lambda V: [V.p.num_temp >= 0, V.p.num_qpoints >= 0, V.p.num_bands >= 0,
                            z3.Or(V.p.classical == 0, V.p.classical == 1)],
        modifies=("thermal_props",),
        loops={0: LoopSpec(fill=True), 1: LoopSpec(inv1, unfold=lambda V: unfold2(V)), 2: LoopSpec(inv2, unfold=unfold2),
               3: LoopSpec(inv3, unfold=unfold3), 4: LoopSpec(inv4, unfold=unfold45), 5: LoopSpec(inv5, unfold=unfold45)},
        use_contracts={"get_free_energy", "get_entropy", "get_heat_capacity"}, ensures=ens,
        gen=_kernel_gen, interp=_kernel_interp, race=True)


def _kernel_gen(rnd):
    import numpy as np
    nt, nq, nb = rnd.randint(0, 3), rnd.randint(0, 3), rnd.randint(0, 3)
    return {"thermal_props": np.array([rnd.uniform(-1, 1) for _ in range(3 * nt)]),
            "temperatures": np.array([rnd.choice([0.0, 1.0, 50.0, 300.0, 1000.0]) for _ in range(nt)]),
            "freqs": np.array([[rnd.choice([-0.01, 0.0, 0.001, 0.01, 0.05]) for _ in range(nb)] for _ in range(nq)]).reshape(nq, nb),
            "weights": np.array([rnd.randint(1, 4) for _ in range(nq)]),
            "num_temp": nt, "num_qpoints": nq, "num_bands": nb,
            "cutoff_frequency": rnd.choice([0.0, 0.001, 0.01]), "classical": rnd.randint(0, 1)}


def _kernel_interp(h, ev, env):
    import ctypes
    from pvc.ceval import recsum_callable
    out = {}
    for nm, cn in (("spec_free_energy", "get_free_energy"), ("spec_entropy", "get_entropy"), ("spec_heat_capacity", "get_heat_capacity")):
        g = getattr(h.lib, cn)
        g.restype = ctypes.c_double
        g.argtypes = [ctypes.c_double, ctypes.c_double, ctypes.c_int]
        out[nm] = (lambda g: lambda t, f_, c: g(float(t), float(f_), int(c)))(g)
    # the RecSums of this contract, rebuilt over the evaluator's constants
    Vp = h.Vpre
    Tt, Fq, W = Vp.a.temperatures, Vp.a.freqs, Vp.a.weights
    cut, cl, nb = Vp.p.cutoff_frequency, Vp.p.classical, Vp.p.num_bands

    def term(i, bb, k):
        Tj = Tt[bb / 3]
        fv = Fq[i, k]
        gg = z3.If(bb % 3 == 0, spec_F(Tj, fv, cl), z3.If(bb % 3 == 1, spec_S(Tj, fv, cl), spec_C(Tj, fv, cl)))
        return z3.If(z3.And(Tj > 0, fv > cut), gg * z3.ToReal(W[i]), z3.RealVal(0))
    inner = RecSum("tp_inner", [z3.IntSort(), z3.IntSort()], term)
    outer = RecSum("tp_outer", [z3.IntSort()], lambda bb, i: inner(i, bb, nb))
    ev.funcs.update(out)
    out[inner.key] = recsum_callable(ev, inner)
    ev.funcs.update(out)
    out[outer.key] = recsum_callable(ev, outer)
    return out


def init_ownership(run):
    """ThermalPropertiesBase.__init__ must not write into the arrays of the Mesh object it is given
    (a second ThermalProperties built from the same mesh has to see the same frequencies)."""
    from pvc.pyexec import Record, Opaque
    mod = pyexec.load(PF)
    m = mod.method("ThermalPropertiesBase", "__init__")
    pref = PF + ":ThermalPropertiesBase.__init__"
    for bi in ("band_indices=None", "band_indices given"):
        for pr in (False, True):
            tag = "[%s,pretend_real=%s]" % (bi, pr)
            ex = PyExec(mod, run.sink, pref + tag, opaque_unknown=True, split=True, globals_={"THzToEv": z3.Real("THzToEv")})
            st = PState()
            F_, E_, W_ = Opaque("mesh.frequencies"), Opaque("mesh.eigenvectors"), Opaque("mesh.weights")
            prim = st.new(Record("Primitive", {"Z": z3.Int("Z")}))
            dm = st.new(Record("DynamicalMatrix", {"primitive": prim}))
            mesh = st.new(Record("Mesh", {"frequencies": F_, "eigenvectors": E_, "weights": W_, "dynamical_matrix": dm}))
            self_ref = st.new(Record("ThermalPropertiesBase", {}))
            kw = {"cutoff_frequency": z3.Real("cutoff_THz"), "pretend_real": pr,
                  "band_indices": (None if bi.endswith("None") else Opaque("band_indices")), "is_projection": z3.Bool("is_projection"),
                  "classical": z3.Bool("classical")}
            n0 = len(run.sink.obls)
            outs = ex.call_function(st, m, [mesh], kw, self_ref=self_ref, cls="ThermalPropertiesBase")
            for (s2, fl, v) in outs:
                owned = {F_.buf: "mesh.frequencies", E_.buf: "mesh.eigenvectors", W_.buf: "mesh.weights"}
                hits = [(owned[b], ln) for (b, ln) in s2.writes if b in owned]
                ob = run.sink.add(pref + tag, "ownership", list(s2.pc), z3.BoolVal(not hits),
                                  meta={"label": ("arrays of the caller's Mesh are written in place: %s" % hits) if hits else
                                        "the arrays of the caller's Mesh are not written"})
                ob.replay = replay_init_ownership
            run.functions.append({"file": PF, "function": "ThermalPropertiesBase.__init__" + tag, "line": m.lineno, "sha1": mod.sha(m),
                                  "obligations": len(run.sink.obls) - n0})
            run.abstracted += sorted(set(ex.abstracted))[:10]


def replay_init_ownership(model):
    from pvc import creplay
    code = r'''
import json
import numpy as np
from phonopy.phonon.thermal_properties import ThermalPropertiesBase
class P: Z = 1
class D: primitive = P()
class M:
    def __init__(self):
        self.frequencies = np.array([[1.0, 2.0, 3.0], [2.0, 3.0, 4.0]]); self.eigenvectors = None
        self.weights = np.array([1, 2]); self.dynamical_matrix = D()
m = M(); before = m.frequencies.copy()
ThermalPropertiesBase(m)
print(json.dumps({"mesh_frequencies_changed_by": float(np.abs(m.frequencies - before).max())}))
'''
    rc, out, err = creplay.py_eval(code)
    if rc != 0:
        return {"reproduced": False, "reason": err[-400:]}
    import json
    r = json.loads(out.strip().splitlines()[-1])
    return {"reproduced": r["mesh_frequencies_changed_by"] > 0, "real_code": r, "expected": "mesh.frequencies unchanged by constructing ThermalPropertiesBase"}
