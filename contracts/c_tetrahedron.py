"""Contracts for c/tetrahedron_method.c (C11, C13).

Region formulas are *extracted* from the real functions by symbolic execution
(``_n,_g,_J,_I`` with fixed (i, ci)); every obligation below is stated over the
extracted terms, never over a transcription.

Structure
---------
* ``_n,_g,_J,_I``: one generic contract each (used at call sites) whose
  postcondition is proved by the 5 (resp. 5x4) fixed-(i,ci) instances; the
  instances cover the whole precondition domain i in 0..4, ci in 0..3.
* ``sort_omegas``: sorted permutation, position of the central vertex.
* ``thm_get_integration_weight`` ('I' and 'J'): loop invariant over the 24
  tetrahedra with the callees by contract.
* region lemmas (sum rules, dn/dw = g, continuity) over the extracted terms.
* ladder-at-vertex obligations (monotonicity at omega == v_k).
"""
import itertools

import sympy as sp
import z3

from pvc import cas
from pvc.core import Contract, LoopSpec

F = "c/tetrahedron_method.c"
SH4 = {"vertices_omegas": lambda P: [4]}
R = z3.RealSort()
spec_n = z3.Function("spec_n", z3.IntSort(), R, R, R, R, R, R)   # (i, omega, v0..v3): value of _n in region i
spec_g = z3.Function("spec_g", z3.IntSort(), R, R, R, R, R, R)
spec_J = z3.Function("spec_J", z3.IntSort(), z3.IntSort(), R, R, R, R, R, R)   # (i, ci, omega, v0..v3)
spec_I = z3.Function("spec_I", z3.IntSort(), z3.IntSort(), R, R, R, R, R, R)
QUARTER = z3.RealVal("1/4")
EPS = z3.Real("THM_EPSILON")      # -DTHM_EPSILON=1e-10 in the real build (CMakeLists.txt); kept symbolic, > 0
MAC = {"THM_EPSILON": EPS}


def _separated(v):
    """sorted vertex frequencies separated by at least THM_EPSILON: the epsilon guards of _f are inactive"""
    return [v[1] - v[0] >= EPS, v[2] - v[1] >= EPS, v[3] - v[2] >= EPS]


def _sorted(v, strict=False):
    if strict:
        return [v[0] < v[1], v[1] < v[2], v[2] < v[3]]
    return [v[0] <= v[1], v[1] <= v[2], v[2] <= v[3]]


def _region(i, om, v):
    """Weakest region guard under which the region-i formulas are well defined (right-closed intervals):
    a ladder that calls region i outside this guard fails the call-site precondition."""
    return {0: [om <= v[0]], 1: [v[0] < om, om <= v[1]], 2: [v[1] < om, om <= v[2]],
            3: [v[2] < om, om <= v[3]], 4: [v[3] < om]}[i]


def _ival(x):
    x = z3.simplify(x)
    if not z3.is_int_value(x):
        raise ValueError("region index must be concrete at this call site")
    return x.as_long()


def _gaps(i):
    """Re-parametrisation of a sorted vertex tuple around omega in region i by non-negative gaps.
    Returns (subs [(sym, expr)], names).  p0, q0 > 0 (strict guards), the others >= 0."""
    om = sp.Symbol("omega", real=True)
    vs = [sp.Symbol("vertices_omegas_%d" % k, real=True) for k in range(4)]
    names = []
    subs = []
    acc = om
    for j, k in enumerate(range(i - 1, -1, -1)):      # vertices below omega
        g = sp.Symbol("p%d" % j, real=True)
        names.append("p%d" % j)
        acc = acc - g
        subs.append((vs[k], acc))
    acc = om
    for j, k in enumerate(range(i, 4)):               # vertices above omega
        g = sp.Symbol("q%d" % j, real=True)
        names.append("q%d" % j)
        acc = acc + g
        subs.append((vs[k], acc))
    return [(sp.srepr(a), sp.srepr(b)) for a, b in subs], names


TERMS = {}   # (fname, i, ci) -> z3 term over omega, vertices_omegas[0..3]


def _req(V, fn=None):
    i = _ival(V.p.i)
    v = V.a.vertices_omegas
    r = [EPS > 0] + _sorted(v) + _region(i, V.p.omega, v)
    if i in (1, 2, 3):
        r += _separated(v)
    if fn == "_I" and i == 2:
        # _I_2c divides by f12*f20 + f21*f13, which vanishes at omega == v2 == v3
        r += [V.p.omega < v[3]]
    if "ci" in V.p:
        r += [V.p.ci >= 0, V.p.ci <= 3]
    return r


def _args(V):
    v = V.a.vertices_omegas
    return [V.p.omega, v[0], v[1], v[2], v[3]]


def _n_def(V):
    """definitional instance: spec_n(i, ...) is the extracted value of _n in region i"""
    i = _ival(V.p.i)
    if ("_n", i, None) not in TERMS:
        return []
    return [spec_n(z3.IntVal(i), *_args(V)) == TERMS[("_n", i, None)]]


def _live(ret):
    """value of a region function: either a plain formula or If(<eps guard>, formula, 0) (THM_EPSILON build)"""
    r = ret
    if z3.is_app(r) and r.decl().kind() == z3.Z3_OP_ITE:
        c, a, b = r.children()
        if z3.is_rational_value(z3.simplify(b)) and z3.simplify(b).numerator_as_long() == 0:
            return a, c
        if z3.is_rational_value(z3.simplify(a)) and z3.simplify(a).numerator_as_long() == 0:
            return b, z3.Not(c)
    return r, None


def _hints(fn):
    def h(lab, V, goal):
        if not lab.startswith("range"):
            return {}
        i = _ival(V.p.i)
        if i in (0, 4):
            return {}
        live, guard = _live(V.ret)
        defs = []
        if ("_n", i, None) in TERMS:
            defs = [(spec_n(z3.IntVal(i), *_args(V)), TERMS[("_n", i, None)])]
        try:
            g1 = z3.substitute(goal, (V.ret, live)) if guard is not None else goal
            if guard is not None:
                g0 = z3.simplify(z3.substitute(goal, (V.ret, z3.RealVal(0))))
                if not z3.is_true(g0):
                    return {}
            exprs = [sp.srepr(e) for e in cas.ineq_exprs(g1, defs)]
        except ValueError:
            return {}
        subs, names = _gaps(i)
        return {"backend": "poscoef", "poscoef": (exprs, subs, names)}
    return h


def _capture(fn):
    def after(ex, outs, Vold):
        assert len(outs) == 1, "one merged outcome expected"
        st, ret = outs[0]
        live, guard = _live(ret)
        i = _ival(ex.cur_P.i)
        ci = _ival(ex.cur_P.ci) if "ci" in ex.cur_P else None
        TERMS[(fn, i, ci)] = live          # region formula (where the build's epsilon guard is inactive)
        GUARDS[(fn, i, ci)] = guard
    return after


GUARDS = {}


def _exact(V, below, above):
    """regions 0 and 4 are constants"""
    i = _ival(V.p.i)
    if i == 0:
        return [("exact", V.ret == below)]
    if i == 4:
        return [("exact", V.ret == above)]
    return []


def generic_contracts():
    n = Contract(F, "_n", shapes=SH4, macros=MAC, prune=True, requires=_req, after=_capture("_n"), hints=_hints("_n"),
                 ensures=lambda V: [("def", V.ret == spec_n(V.p.i, *_args(V))),
                                    ("range:n in [0,1]", z3.And(V.ret >= 0, V.ret <= 1))] + _exact(V, 0, 1),
                 facts=None)
    g = Contract(F, "_g", shapes=SH4, macros=MAC, prune=True, requires=_req, after=_capture("_g"), hints=_hints("_g"),
                 ensures=lambda V: [("def", V.ret == spec_g(V.p.i, *_args(V))), ("range:g >= 0", V.ret >= 0)] + _exact(V, 0, 0))
    J = Contract(F, "_J", shapes=SH4, macros=MAC, prune=True, requires=_req, after=_capture("_J"), hints=_hints("_J"),
                 ensures=lambda V: [("def", V.ret == spec_J(V.p.i, V.p.ci, *_args(V))), ("range:J >= 0", V.ret >= 0),
                                    ("range:J*n <= 1/4", V.ret * spec_n(V.p.i, *_args(V)) <= QUARTER)] + _exact(V, 0, QUARTER),
                 facts=_n_def)
    Ic = Contract(F, "_I", shapes=SH4, macros=MAC, prune=True, requires=lambda V: _req(V, "_I"), after=_capture("_I"), hints=_hints("_I"),
                  ensures=lambda V: [("def", V.ret == spec_I(V.p.i, V.p.ci, *_args(V))), ("range:I >= 0", V.ret >= 0)] + _exact(V, 0, 0))
    return {"_n": n, "_g": g, "_J": J, "_I": Ic}


def region_instances(gen):
    cs = []
    for i in range(5):
        # _n first: its extracted term defines spec_n(i, .)
        c = gen["_n"].instance(i=i)
        c.facts = None
        cs.append(c)
    # the definitional fact is only added after extraction; the 'def' post of _n[i] is then the identity
    for i in range(5):
        cs.append(gen["_g"].instance(i=i))
    for fn in ("_J", "_I"):
        for i in range(5):
            for ci in range(4):
                cs.append(gen[fn].instance(i=i, ci=ci))
    return cs


def _sym(term):
    return cas.to_sympy(term)


def region_lemmas(lemma):
    """Identities over the extracted region terms.  lemma(kind,label,hyps,goal,**kw)."""
    osym = sp.Symbol("omega", real=True)
    vs = [sp.Symbol("vertices_omegas_%d" % k, real=True) for k in range(4)]
    for i in range(5):
        n_i = TERMS[("_n", i, None)]
        g_i = TERMS[("_g", i, None)]
        dn = sp.diff(_sym(n_i), osym)
        lemma("deriv", "d n_%d/d omega == g_%d" % (i, i), [], None, backend="poly",
              pairs=[(sp.srepr(dn), sp.srepr(_sym(g_i)))])
        Js = [TERMS[("_J", i, c)] for c in range(4)]
        Is = [TERMS[("_I", i, c)] for c in range(4)]
        if i in (1, 2, 3):
            lemma("sum", "sum_c J_%dc == 1" % i, [], None, backend="poly",
                  pairs=[(sp.srepr(sum(_sym(j) for j in Js)), sp.srepr(sp.Integer(1)))])
            lemma("sum", "sum_c I_%dc == 1" % i, [], None, backend="poly",
                  pairs=[(sp.srepr(sum(_sym(j) for j in Is)), sp.srepr(sp.Integer(1)))])
        else:
            # regions 0 and 4: the four constant vertex weights times n, g
            lemma("sum", "sum_c J_%dc n_%d == n_%d" % (i, i, i), [], None, backend="poly",
                  pairs=[(sp.srepr(sum(_sym(j) for j in Js) * _sym(n_i)), sp.srepr(_sym(n_i)))])
        for c in range(4):
            dJn = sp.diff(_sym(Js[c]) * _sym(n_i), osym)
            lemma("deriv", "d(J_%d%d n_%d)/d omega == I_%d%d g_%d" % (i, c, i, i, c, i), [], None,
                  backend="poly", pairs=[(sp.srepr(dJn), sp.srepr(_sym(Is[c]) * _sym(g_i)))])
    for k in range(4):       # boundary omega == v_k between region k and k+1
        lo, hi = k, k + 1
        n_lo, n_hi = _sym(TERMS[("_n", lo, None)]), _sym(TERMS[("_n", hi, None)])
        lemma("cont", "n continuous at omega==v%d" % k, [], None, backend="poly",
              pairs=[("AT", sp.srepr(n_lo), sp.srepr(n_hi), sp.srepr(osym), sp.srepr(vs[k]))])
        for c in range(4):
            a = _sym(TERMS[("_J", lo, c)]) * n_lo
            b = _sym(TERMS[("_J", hi, c)]) * n_hi
            lemma("cont", "J_c n continuous at omega==v%d (c=%d)" % (k, c), [], None, backend="poly",
                  pairs=[("AT", sp.srepr(a), sp.srepr(b), sp.srepr(osym), sp.srepr(vs[k]))])


# ---------------------------------------------------------------- sort_omegas
def _perm(new, old):
    n = len(new)
    return z3.Or(*[z3.And(*[new[k] == old[p[k]] for k in range(n)]) for p in itertools.permutations(range(n))])


def sort_omegas_contract():
    def ens(V):
        v, o = V.a.v, V.old.a.v
        nv = [v[k] for k in range(4)]
        ov = [o[k] for k in range(4)]
        return [("sorted", z3.And(nv[0] <= nv[1], nv[1] <= nv[2], nv[2] <= nv[3])),
                ("perm", _perm(nv, ov)),
                ("ci-range", z3.And(V.ret >= 0, V.ret <= 3)),
                ("ci-central", v[V.ret] == ov[0]),
                ("ci-rest", z3.Or(*[z3.And(V.ret == r, _perm([nv[k] for k in range(4) if k != r], ov[1:])) for r in range(4)]))]
    return Contract(F, "sort_omegas", shapes={"v": lambda P: [4]}, modifies=("v",), ensures=ens, split=1)


# ---------------------------------------------------------------- the ladder
def _pairwise_separated(V):
    """every tetrahedron's vertex frequencies differ pairwise by at least THM_EPSILON (the region formulas apply)"""
    t = z3.Int("t")
    T = V.a.tetrahedra_omegas
    cl = []
    for a in range(4):
        for b in range(a + 1, 4):
            d = T[t, a] - T[t, b]
            cl.append(z3.Or(d >= EPS, -d >= EPS))
    return z3.ForAll([t], z3.Implies(z3.And(t >= 0, t < 24), z3.And(*cl)))


def _ladder_contract(fch, code, tag, requires, inv, ens, capture=None, separated=True):
    base_req = requires or (lambda V: [])
    requires = (lambda V: [EPS > 0] + ([_pairwise_separated(V)] if separated else []) + list(base_req(V)))
    return Contract(F, "thm_get_integration_weight", fixed={"function": code}, tag=tag, macros=MAC,
                    shapes={"tetrahedra_omegas": lambda P: [24, 4]}, requires=requires,
                    loops={("get_integration_weight", 0): LoopSpec(inv, capture=capture)},
                    use_contracts={"sort_omegas", "_n", "_g", "_J", "_I"}, ensures=ens, split=2)


C_LADDER = {}


def _cap_ladder(fch):
    def capture(ex, Vh, Vx):
        v = Vx.a.v
        C_LADDER.setdefault(fch, []).append((list(Vx.st.pc), z3.simplify(Vx.v.sum - Vh.v.sum),
                                             [v[j] for j in range(4)], Vx.p.omega, Vx.v.ci, Vx))
    return capture


def weight_contracts():
    cs = []

    def invJ(V):
        i, s = V.v.i, V.v.sum
        return [("i-range", z3.And(i >= 0, i <= 24)), ("sum-range", z3.And(s >= 0, s <= z3.ToReal(i) / 4))]

    def invI(V):
        i, s = V.v.i, V.v.sum
        return [("i-range", z3.And(i >= 0, i <= 24)), ("sum-range", s >= 0)]
    cs.append(_ladder_contract("J", 74, "[J]", None, invJ, lambda V: [("W_J in [0,1]", z3.And(V.ret >= 0, V.ret <= 1))], capture=_cap_ladder("J")))
    cs.append(_ladder_contract("I", 73, "[I]", None, invI, lambda V: [("W_I >= 0", V.ret >= 0)], capture=_cap_ladder("I")))
    return cs


def top_contracts():
    """omega above every vertex => W_J == 1, W_I == 0; below every vertex => 0."""
    cs = []
    t, k = z3.Ints("t k")

    def allv(V, rel):
        T = V.a.tetrahedra_omegas
        return z3.ForAll([t, k], z3.Implies(z3.And(t >= 0, t < 24, k >= 0, k < 4), rel(V.p.omega, T[t, k])))
    for fch, code in (("J", 74), ("I", 73)):
        for where in ("above", "below"):
            def mk(fch=fch, code=code, where=where):
                val = (QUARTER if fch == "J" else z3.RealVal(0)) if where == "above" else z3.RealVal(0)

                def inv(V):
                    return [("i-range", z3.And(V.v.i >= 0, V.v.i <= 24)), ("sum", V.v.sum == z3.ToReal(V.v.i) * val)]

                def req(V):
                    return [allv(V, (lambda o, x: o > x) if where == "above" else (lambda o, x: o < x))]

                def ens(V):
                    return [("exact", V.ret == 24 * val / 6)]
                return _ladder_contract(fch, code, "[%s,%s]" % (fch, where), req, inv, ens, separated=False)
            cs.append(mk())
    return cs


# ---------------------------------------------------------------- ladder at a vertex value (monotonicity)
def vertex_contracts(finding_known):
    """For generic (strictly ordered) vertices and omega == v_k the contribution of the tetrahedron must equal
    the common limit of the two adjacent region formulas (continuity lemma), otherwise the cumulative weight
    is not monotone in omega.  One symbolic iteration of the real ladder is captured for this."""
    cs = []
    for fch, code in (("J", 74),):
        for kk in range(4):
            def mk(kk=kk, fch=fch, code=code):
                def inv(V):
                    return [("i-range", z3.And(V.v.i >= 0, V.v.i <= 24))]

                def capture(ex, Vh, Vx):
                    v = Vx.a.v
                    om = Vx.p.omega
                    vv = [v[j] for j in range(4)]
                    contrib = Vx.v.sum - Vh.v.sum
                    ci = Vx.v.ci
                    for c in range(4):
                        lo = TERMS[("_J", kk, c)] * TERMS[("_n", kk, None)]
                        # value of the lower-region formula at omega == v_k, in terms of the sorted local v
                        arr = z3.Const("vertices_omegas", z3.ArraySort(z3.IntSort(), R))
                        lo_v = z3.substitute(lo, *[(z3.Select(arr, z3.IntVal(j)), vv[j]) for j in range(4)])
                        lo_v = z3.substitute(lo_v, (z3.Real("omega"), om))
                        hy = _separated(vv) + [om == vv[kk], ci == c]
                        wit = {"omega": om, "v0": vv[0], "v1": vv[1], "v2": vv[2], "v3": vv[3]}
                        lab = "contribution at omega==v%d equals region-%d limit (ci=%d)" % (kk, kk, c)
                        if finding_known and kk >= 1:
                            # listed finding E4: the ladder drops the tetrahedron when omega equals a vertex value.
                            # (1) the defect is still there (must be satisfiable; replayed on the real code)
                            w = ex.custom(Vx, "known-witness", "E4 still present: " + lab, contrib != lo_v, hyps=hy)
                            w.expect = "sat"
                            w.meta["finding_witness"] = "E4"
                            # candidate from the quantifier-free part only; it counts only if it replays on the real code
                            w.meta["relaxed_witness"] = True
                            w.meta["witness"] = wit
                            w.replay = replay_vertex
                            if z3.is_true(z3.simplify(z3.And(*Vx.st.pc))) is False:
                                pass
                            # (2) anything other than the listed deviation (contribution 0) or the right value is new
                            ex.custom(Vx, "vertex", "only the listed deviation: " + lab,
                                      z3.Or(contrib == 0, contrib == lo_v), hyps=hy)
                        else:
                            ob = ex.custom(Vx, "vertex", lab, contrib == lo_v, hyps=hy)
                            ob.meta["witness"] = wit
                            ob.replay = replay_vertex
                return _ladder_contract(fch, code, "[%s,omega==v%d]" % (fch, kk), None, inv, None, capture=capture)
            cs.append(mk())
    return cs


def replay_vertex(model):
    """Run the real thm_get_integration_weight around omega == v_k: the cumulative weight must not decrease."""
    import ctypes
    from pvc import creplay
    lib = creplay.lib("tetrahedron_method")
    lib.thm_get_integration_weight.restype = ctypes.c_double
    lib.thm_get_integration_weight.argtypes = [ctypes.c_double, ctypes.POINTER(ctypes.c_double), ctypes.c_char]
    om = creplay.witness(model, "omega")
    v = [creplay.witness(model, "v%d" % k) for k in range(4)]
    arr = (ctypes.c_double * 96)(*(v * 24))
    span = max(v) - min(v) or 1.0
    eps = span * 1e-6

    def W(x):
        return lib.thm_get_integration_weight(ctypes.c_double(x), arr, b"J")
    w_lo, w_at, w_hi = W(om - eps), W(om), W(om + eps)
    bad = w_at < w_lo - 1e-9 or w_at > w_hi + 1e-9
    return {"reproduced": bool(bad), "input": {"omega": om, "vertices": v, "all 24 tetrahedra": "identical"},
            "real_code": {"W_J(omega-eps)": w_lo, "W_J(omega)": w_at, "W_J(omega+eps)": w_hi},
            "expected": "W_J non-decreasing in omega"}
