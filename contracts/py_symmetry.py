"""C03 — reciprocal point-group operations (phonopy/structure/symmetry.py: get_pointgroup_operations)."""
import z3

from pvc import pyexec
from pvc.core import CheckerError
from pvc.pyexec import PyExec, PState, NDArr, Ref, PList

SF = "phonopy/structure/symmetry.py"


def pointgroup_operations(run):
    """For direct-space operations R_0..R_{k-1} (x' = R x; a generic list of k = 2 symbolic integer matrices stands for any
    list, the function treats its elements uniformly): every reciprocal operation returned is the transpose of one of the R_j,
    negated exactly in the second half that is appended for time reversal when -1 is not among the R_j; with
    is_time_reversal=False, or with inversion present, exactly the k transposes are returned."""
    mod = pyexec.load(SF)
    fn = mod.funcs["get_pointgroup_operations"]
    pref = SF + ":get_pointgroup_operations"
    n_total = 0
    for tr in (True, False):
        st = PState()
        rots = [st.new(NDArr((3, 3), [z3.Int("R%d_%d%d" % (j, a, b)) for a in range(3) for b in range(3)], "intc")) for j in range(2)]
        rv = [list(st.heap[r.id].flat) for r in rots]
        lst = st.new(PList(list(rots)))
        hooks = {"collect_unique_rotations": lambda ex, st_, a, k: lst,
                 "numpy.array": lambda ex, st_, a, k: a[0]}
        ex = PyExec(mod, run.sink, pref + "[is_time_reversal=%s]" % tr, hooks=hooks, split=True)
        n0 = len(run.sink.obls)
        outs = ex.call_function(st, fn, [pyexec.Opaque("rotations")], {"is_time_reversal": tr})
        nret = 0
        for (s2, fl, v) in outs:
            if fl != "return":
                continue
            nret += 1
            robj = s2.heap[v[1].id]
            if isinstance(robj, NDArr) and len(robj.shape) == 3 and robj.shape[1:] == (3, 3):
                rec_flat = [robj.flat[t * 9:(t + 1) * 9] for t in range(robj.shape[0])]
            elif isinstance(robj, PList):
                rec_flat = [list(s2.heap[q.id].flat) for q in robj.items]
            else:
                raise CheckerError("get_pointgroup_operations: reciprocal operations were abstracted")
            rec = rec_flat
            inv_present = z3.Or(*[z3.And(*[rv[j][a * 3 + b] == (-1 if a == b else 0) for a in range(3) for b in range(3)]) for j in range(2)])
            want_len = z3.If(z3.And(z3.BoolVal(tr), z3.Not(inv_present)), 4, 2)
            run.sink.add(ex.prefix, "post", list(s2.pc), z3.IntVal(len(rec)) == want_len,
                         meta={"label": "number of reciprocal operations: k, doubled exactly when time reversal adds -1"})
            for idx, q in enumerate(rec):
                qf = [pyexec.num(x) for x in q]
                j, sign = idx % 2, (1 if idx < 2 else -1)
                goal = z3.And(*[qf[a * 3 + b] == sign * rv[j][b * 3 + a] for a in range(3) for b in range(3)])
                run.sink.add(ex.prefix, "post", list(s2.pc), goal, replay=lambda model: replay_pointgroup(),
                             meta={"label": "reciprocal operation %d is %sR_%d^T" % (idx, "-" if sign < 0 else "", j)})
        if nret == 0:
            raise CheckerError("get_pointgroup_operations: no returning path")
        n_total += len(run.sink.obls) - n0
    run.functions.append({"file": SF, "function": "get_pointgroup_operations", "line": fn.lineno, "sha1": mod.sha(fn), "obligations": n_total})


def replay_pointgroup():
    from pvc import creplay
    import json
    code = r'''
import json
import numpy as np
from phonopy.structure.symmetry import get_pointgroup_operations
# point group 3m in hexagonal axes (no inversion; R^T is not always a group element)
c3 = np.array([[0, -1, 0], [1, -1, 0], [0, 0, 1]])
m = np.array([[0, -1, 0], [-1, 0, 0], [0, 0, 1]])          # a mirror of 3m1
G = []
for a in (np.eye(3, dtype=int), c3, c3 @ c3):
    for b in (np.eye(3, dtype=int), m):
        G.append(a @ b)
ptg, rec = get_pointgroup_operations(np.array(G))
ok = True
half = len(ptg)
for idx, q in enumerate(rec):
    sign = 1 if idx < half else -1
    if not any(np.array_equal(q, sign * r.T) for r in ptg):
        ok = False
print(json.dumps({"every_reciprocal_operation_is_a_signed_transpose": ok, "n_direct": int(half), "n_reciprocal": int(len(rec))}))
'''
    rc, out, err = creplay.py_eval(code)
    if rc != 0:
        return {"reproduced": False, "reason": err[-400:]}
    r = json.loads(out.strip().splitlines()[-1])
    return {"reproduced": not r["every_reciprocal_operation_is_a_signed_transpose"], "real_code": r, "input": "point group 3m in hexagonal axes",
            "expected": "reciprocal operations are R^T (and -R^T for time reversal)"}
