"""Python helpers of phonopy/harmonic/force_constants.py (C07, C01)."""
import z3

from pvc import pyexec
from pvc.core import CheckerError
from pvc.pyexec import PyExec, PState, SymArr, SymFn

FF = "phonopy/harmonic/force_constants.py"


def nsym_list_and_s2pp(run):
    """get_nsym_list_and_s2pp: nsym_list[i] is a pure translation that sends supercell atom i onto its primitive
    image (permutations[nsym_list[i]][i] == s2p_map[i]) and s2pp[i] == p2p_map[s2p_map[i]] -- the tables the
    compact C symmetrisers take as given."""
    mod = pyexec.load(FF)
    fn = mod.funcs["get_nsym_list_and_s2pp"]
    pref = FF + ":get_nsym_list_and_s2pp"
    ns, nt = z3.Int("n_satom"), z3.Int("n_trans")
    S2P = z3.Function("s2p_map", z3.IntSort(), z3.IntSort())
    P2P = z3.Function("p2p_map", z3.IntSort(), z3.IntSort())
    PERM = z3.Function("permutations", z3.IntSort(), z3.IntSort(), z3.IntSort())
    s2p = SymArr((ns,), lambda i: S2P(i), "s2p_map")
    perms = SymArr((nt, ns), lambda t, i: PERM(t, i), "permutations")
    p2p = SymFn(lambda k: P2P(k), "p2p_map")
    ex = PyExec(mod, run.sink, pref, opaque_unknown=False)
    st = PState()
    st.pc.extend([ns >= 1, nt >= 1])
    n0 = len(run.sink.obls)
    outs = ex.call_function(st, fn, [s2p, p2p, perms])
    if len(outs) != 1 or outs[0][1] != "return":
        raise CheckerError("get_nsym_list_and_s2pp: expected one return")
    s2, _, (s2pp, nsym) = outs[0]
    i = z3.Int("i")
    rng = z3.And(i >= 0, i < ns)
    run.sink.add(pref, "post", list(s2.pc), z3.ForAll([i], z3.Implies(rng, PERM(nsym.at(i), i) == S2P(i))),
                 meta={"label": "permutations[nsym_list[i]][i] == s2p_map[i]"})
    run.sink.add(pref, "post", list(s2.pc), z3.ForAll([i], z3.Implies(rng, z3.And(nsym.at(i) >= 0, nsym.at(i) < nt))),
                 meta={"label": "0 <= nsym_list[i] < number of pure translations"})
    run.sink.add(pref, "post", list(s2.pc), z3.ForAll([i], z3.Implies(rng, s2pp.at(i) == P2P(S2P(i)))),
                 meta={"label": "s2pp[i] == p2p_map[s2p_map[i]]"})
    for ob in run.sink.obls[n0:]:
        if ob.kind == "post":
            ob.replay = replay_nsym
    run.functions.append({"file": FF, "function": "get_nsym_list_and_s2pp", "line": fn.lineno, "sha1": mod.sha(fn),
                          "obligations": len(run.sink.obls) - n0})
    run.assumed_contracts.append("numpy: np.where(b)[0][0] is the first index where the 1-D boolean array b is true (IndexError if none)")


def replay_nsym(model):
    from pvc import creplay
    code = r'''
import json
import numpy as np
from phonopy.harmonic.force_constants import get_nsym_list_and_s2pp
bad = []
for n_p, N in ((1, 3), (2, 3), (1, 4), (2, 5)):
    n_s = n_p * N
    s2p = np.array([(s // N) * N for s in range(n_s)])
    p2p = {a * N: a for a in range(n_p)}
    perms = np.array([[(s // N) * N + ((s % N) + t) % N for s in range(n_s)] for t in range(N)])
    s2pp, nsym = get_nsym_list_and_s2pp(s2p, p2p, perms)
    for i in range(n_s):
        if perms[nsym[i], i] != s2p[i] or s2pp[i] != p2p[s2p[i]]:
            bad.append([n_p, N, i, int(nsym[i])])
print(json.dumps(bad[:5]))
'''
    rc, out, err = creplay.py_eval(code)
    if rc != 0:
        return {"reproduced": False, "reason": err[-400:]}
    import json
    bad = json.loads(out.strip().splitlines()[-1])
    return {"reproduced": bool(bad), "real_code": {"violations (n_patom, N, atom, nsym)": bad},
            "expected": "permutations[nsym_list[i]][i] == s2p_map[i] on cyclic translation groups"}
