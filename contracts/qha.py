"""C20 — QHA bookkeeping in phonopy/qha/core.py (pressure term, units, finite differences)."""
import z3

from pvc import pyexec
from pvc.core import CheckerError
from pvc.pyexec import PyExec, PState, Record, SymArr, GenericItem, Opaque, PList

QF = "phonopy/qha/core.py"
R = z3.RealSort()
I = z3.IntSort()


def init_contract(run):
    """QHA.__init__: pressure enters as + P V / EVAngstromToGPa on the electronic term (every temperature row for a 2-D
    input), the phonon free energy is only converted from kJ/mol to eV, caller arrays are copied (np.array)."""
    mod = pyexec.load(QF)
    m = mod.method("QHA", "__init__")
    nv, nt = z3.Int("n_volumes"), z3.Int("n_temperatures")
    V = z3.Function("volumes", I, R)
    Fph = z3.Function("fe_phonon", I, I, R)
    EvG, EvK = z3.Real("EVAngstromToGPa"), z3.Real("EvTokJmol")
    for ndim in (1, 2):
        for with_p in (False, True):
            tag = "[electronic ndim=%d,%s]" % (ndim, "pressure" if with_p else "no pressure")
            pref = QF + ":QHA.__init__" + tag
            if ndim == 1:
                Eel = z3.Function("electronic_energies", I, R)
                el = SymArr((nv,), lambda k: Eel(k), "electronic_energies")
            else:
                Eel = z3.Function("electronic_free_energies", I, I, R)
                el = SymArr((nt, nv), lambda t, k: Eel(t, k), "electronic_energies")
            hooks = {"new:get_eos": lambda ex, st, args, kwargs: Opaque("eos closure")}
            ex = PyExec(mod, run.sink, pref, hooks=hooks, opaque_unknown=True, globals_={"EVAngstromToGPa": EvG, "EvTokJmol": EvK})
            st = PState()
            st.pc.extend([nv >= 1, nt >= 1, EvG > 0, EvK > 0])
            self_ref = st.new(Record("QHA", {}))
            P = z3.Real("pressure")
            args = [SymArr((nv,), lambda k: V(k), "volumes"), el, SymArr((nt,), lambda t: z3.Function("temperatures", I, R)(t), "temperatures"),
                    Opaque("cv"), Opaque("entropy"), SymArr((nt, nv), lambda t, k: Fph(t, k), "fe_phonon")]
            n0 = len(run.sink.obls)
            outs = ex.call_function(st, m, args, {"pressure": (P if with_p else None), "eos": "vinet"}, self_ref=self_ref, cls="QHA")
            if len(outs) != 1:
                raise CheckerError("QHA.__init__: %d outcomes" % len(outs))
            rec = outs[0][0].heap[self_ref.id].attrs
            t, k = z3.Ints("t k")
            pv = (V(k) * P / EvG) if with_p else z3.RealVal(0)
            ee = rec["_electronic_energies"]
            if ndim == 1:
                run.sink.add(pref, "post", list(outs[0][0].pc), z3.ForAll([k], z3.Implies(z3.And(k >= 0, k < nv), pyexec.num(ee.at(k)) == Eel(k) + pv)),
                             meta={"label": "electronic term == U_el(V) + P V / EVAngstromToGPa"})
            else:
                run.sink.add(pref, "post", list(outs[0][0].pc), z3.ForAll([t, k], z3.Implies(z3.And(t >= 0, t < nt, k >= 0, k < nv), pyexec.num(ee.at(t, k)) == Eel(t, k) + pv)),
                             meta={"label": "electronic term == F_el(T, V) + P V / EVAngstromToGPa for every temperature"})
            fp = rec["_fe_phonon"]
            run.sink.add(pref, "post", list(outs[0][0].pc), z3.ForAll([t, k], z3.Implies(z3.And(t >= 0, t < nt, k >= 0, k < nv), pyexec.num(fp.at(t, k)) == Fph(t, k) / EvK)),
                         meta={"label": "phonon free energy is converted kJ/mol -> eV and nothing else"})
            run.functions.append({"file": QF, "function": "QHA.__init__" + tag, "line": m.lineno, "sha1": mod.sha(m), "obligations": len(run.sink.obls) - n0})


def thermal_expansion_contract(run):
    """QHA._set_thermal_expansion: beta_0 = 0 and beta_i = (V_{i+1} - V_{i-1}) / (T_{i+1} - T_{i-1}) / V_i (documented central difference)."""
    mod = pyexec.load(QF)
    m = mod.method("QHA", "_set_thermal_expansion")
    pref = QF + ":QHA._set_thermal_expansion"
    n = z3.Int("num_elems")
    T = z3.Function("temperatures", I, R)
    V = z3.Function("equiv_volumes", I, R)
    ex = PyExec(mod, run.sink, pref, opaque_unknown=False)
    st = PState()
    i_ = z3.Int("i_")
    st.pc.extend([n >= 2, z3.ForAll([i_], z3.Implies(z3.And(i_ >= 0, i_ < n - 1), z3.And(T(i_ + 1) > T(i_), V(i_) > 0)))])
    self_ref = st.new(Record("QHA", {"_num_elems": n, "_temperatures": SymArr((n,), lambda i: T(i), "temperatures"),
                                     "_equiv_volumes": SymArr((n,), lambda i: V(i), "equiv_volumes"), "_thermal_expansions": None}))
    n0 = len(run.sink.obls)
    outs = ex.call_function(st, m, [], self_ref=self_ref, cls="QHA")
    if len(outs) != 1:
        raise CheckerError("_set_thermal_expansion: %d outcomes" % len(outs))
    s2 = outs[0][0]
    beta = s2.heap[self_ref.id].attrs["_thermal_expansions"]
    items = s2.heap[beta.id].items
    if len(items) != 2 or not isinstance(items[1], GenericItem):
        raise CheckerError("_set_thermal_expansion: unexpected list structure %r" % (items,))
    run.sink.add(pref, "post", list(s2.pc), pyexec.num(items[0]) == 0, meta={"label": "beta[0] == 0"})
    g = items[1]
    run.sink.add(pref, "post", list(s2.pc), z3.And(g.lo == 1, g.hi == n - 1), meta={"label": "beta[i] is appended for i = 1 .. num_elems-2 (position i of the list)"})
    want = (V(g.var + 1) - V(g.var - 1)) / (T(g.var + 1) - T(g.var - 1)) / V(g.var)
    run.sink.add(pref, "post", list(s2.pc) + list(g.pc), pyexec.num(g.value) == want,
                 meta={"label": "beta[i] == (V[i+1]-V[i-1]) / (T[i+1]-T[i-1]) / V[i]"})
    run.functions.append({"file": QF, "function": "QHA._set_thermal_expansion", "line": m.lineno, "sha1": mod.sha(m), "obligations": len(run.sink.obls) - n0})
