"""C13 / C14 — memory layout handed to the compiled solver.  The nanobind glue (c/_phonopy.cpp, trusted) passes the raw data
pointer of each array to C code that indexes it as a C-contiguous array of doubles; the contract of the extension entry point
is therefore `q-point array: dtype double, C-contiguous`, and run_dynamical_matrix_solver_c (the only caller, used by every
batched access path) must establish it for EVERY array-like a user may pass."""
import z3

from pvc import pyexec
from pvc.core import CheckerError
from pvc.pyexec import PyExec, PState, Record, Opaque, Ref, Hooked

DF = "phonopy/harmonic/dynamical_matrix.py"
DOUBLE = z3.IntVal(1)


def solver_qpoint_layout(run):
    """run_dynamical_matrix_solver_c with a q-point argument whose dtype, alignment, ownership and contiguity flags are free
    symbols (an arbitrary ndarray; a list is the sub-case handled by numpy.array).  numpy contracts assumed (stated as hooks):
    np.array(x, dtype='double', order='C') / np.ascontiguousarray(x, dtype='double') return a C-contiguous double array;
    np.asarray(x, dtype='double') returns x itself when x is already double (layout kept) and otherwise a converted array whose
    layout follows x (order 'K': NOT necessarily C-contiguous); reshape of a C-contiguous array is C-contiguous, of any other
    array it is unknown.  Obligation at the extension call: the q-point argument is double and C-contiguous on every path."""
    mod = pyexec.load(DF)
    fn = mod.funcs["run_dynamical_matrix_solver_c"]
    pref = DF + ":run_dynamical_matrix_solver_c"
    st = PState()
    dt, al, ow, cc = z3.Int("qpoints_dtype"), z3.Bool("qpoints_aligned"), z3.Bool("qpoints_owndata"), z3.Bool("qpoints_c_contiguous")

    def nd(st_, dtype, contiguous, aligned=None, own=None, why=""):
        fl = st_.new(Record("flags", {"aligned": z3.BoolVal(True) if aligned is None else aligned, "owndata": z3.BoolVal(True) if own is None else own,
                                      "c_contiguous": contiguous}))
        return st_.new(Record("ndarray", {"dtype": dtype, "flags": fl, "ndim": z3.Int("ndim!%d" % next(Ref._ids)), "__why__": why}))
    Q = nd(st, dt, cc, al, ow, "caller's q-points")

    def is_nd(st_, x):
        return isinstance(x, Ref) and isinstance(st_.heap[x.id], Record) and st_.heap[x.id].cls == "ndarray"

    def flags_of(st_, x):
        r = st_.heap[x.id].attrs
        return r["dtype"], st_.heap[r["flags"].id].attrs["c_contiguous"]

    def want_double(kwargs, args):
        d = kwargs.get("dtype", args[1] if len(args) > 1 else None)
        return d == "double" or (z3.is_expr(d) and d.eq(DOUBLE))

    def np_array(ex, st_, args, kwargs):
        if not (args and is_nd(st_, args[0])):
            return Opaque("numpy.array of other data")
        order = kwargs.get("order")
        dbl = want_double(kwargs, args)
        d0, c0 = flags_of(st_, args[0])
        return nd(st_, DOUBLE if dbl else d0, z3.BoolVal(True) if order == "C" else z3.Bool("layout_of_copy!%d" % next(Ref._ids)), why="numpy.array copy")

    def np_asarray(ex, st_, args, kwargs):
        if not (args and is_nd(st_, args[0])):
            return Opaque("numpy.asarray of other data")
        order = kwargs.get("order")
        dbl = want_double(kwargs, args)
        d0, c0 = flags_of(st_, args[0])
        if order == "C":
            return nd(st_, DOUBLE if dbl else d0, z3.BoolVal(True), why="asarray(order=C)")
        # no order: the same object when no conversion is needed, otherwise a converted array that keeps the source's layout
        return nd(st_, DOUBLE if dbl else d0, z3.If(d0 == DOUBLE, c0, z3.Bool("layout_of_converted!%d" % next(Ref._ids))) if dbl else c0, why="asarray")

    def np_ascontig(ex, st_, args, kwargs):
        if not (args and is_nd(st_, args[0])):
            return Opaque("numpy.ascontiguousarray of other data")
        d0, c0 = flags_of(st_, args[0])
        return nd(st_, DOUBLE if want_double(kwargs, args) else d0, z3.BoolVal(True), why="ascontiguousarray")

    def reshape(ex, st_, args, kwargs):
        d0, c0 = flags_of(st_, args[0])
        return nd(st_, d0, z3.If(c0, z3.BoolVal(True), z3.Bool("layout_of_reshaped!%d" % next(Ref._ids))), why="reshape")
    calls = []

    def ext(ex, st_, args, kwargs):
        calls.append((list(args), list(st_.pc), st_))
        return None
    hooks = {"numpy.array": np_array, "numpy.asarray": np_asarray, "numpy.ascontiguousarray": np_ascontig, "numpy.require": np_ascontig,
             "numpy.dtype": lambda ex, st_, a, k: DOUBLE if (a and a[0] in ("double", "float64", "d", "f8")) else z3.Int("other_dtype!%d" % next(Ref._ids)),
             "ndarray.reshape": reshape,
             "_extract_params": lambda ex, st_, a, k: tuple(Opaque("param %d" % i) for i in range(8)),
             "_get_fc_elements_mapping": lambda ex, st_, a, k: (Opaque("p2s"), Opaque("s2p")),
             "numpy.zeros": lambda ex, st_, a, k: Opaque("zeros"),
             "phonopy._phonopy.dynamical_matrices_with_dd_openmp_over_qpoints": ext}
    ex = PyExec(mod, run.sink, pref, hooks=hooks, opaque_unknown=True, split=True)
    dm = st.new(Record("DynamicalMatrix", {"force_constants": Opaque("fc"), "is_nac": Hooked(lambda ex_, st_, a, k: False)}))
    n0 = len(run.sink.obls)
    outs = ex.call_function(st, fn, [dm, Q], {"nac_q_direction": None, "is_nac": False})
    if not calls:
        raise CheckerError("run_dynamical_matrix_solver_c never reaches the extension call")
    for (args, pc, s2) in calls:
        qa = args[1] if len(args) > 1 else None
        if not is_nd(s2, qa):
            goal_d = goal_c = z3.BoolVal(False)
        else:
            d1, c1 = flags_of(s2, qa)
            goal_d, goal_c = (d1 == DOUBLE), c1
        wit = {"dtype_is_double": z3.If(dt == DOUBLE, z3.IntVal(1), z3.IntVal(0)), "c_contiguous": z3.If(cc, z3.IntVal(1), z3.IntVal(0)),
               "owndata": z3.If(ow, z3.IntVal(1), z3.IntVal(0)), "aligned": z3.If(al, z3.IntVal(1), z3.IntVal(0))}
        for goal, label in ((goal_d, "the q-point array handed to the extension has dtype double"),
                            (goal_c, "the q-point array handed to the extension is C-contiguous (the glue passes the raw pointer)")):
            ob = run.sink.add(pref, "call-pre", pc, goal, meta={"label": label, "witness": wit})
            ob.replay = replay_layout
    run.functions.append({"file": DF, "function": "run_dynamical_matrix_solver_c[q-point layout]", "line": fn.lineno, "sha1": mod.sha(fn),
                          "obligations": len(run.sink.obls) - n0})
    run.abstracted += sorted(set(ex.abstracted))[:10]


def replay_layout(model):
    """real run_dynamical_matrix_solver_c with a stub extension that records dtype / contiguity of the q-point argument, called
    with F-ordered, strided, float32 and list inputs"""
    import json
    from pvc import creplay
    code = r'''
import sys, types, json
import numpy as np
stub = types.ModuleType("phonopy._phonopy")
seen = []
def solver(dynmat, qpoints, *rest):
    seen.append({"dtype": str(qpoints.dtype), "c_contiguous": bool(qpoints.flags.c_contiguous), "values": np.array(qpoints).tolist()})
stub.dynamical_matrices_with_dd_openmp_over_qpoints = solver
sys.modules["phonopy._phonopy"] = stub
import phonopy
phonopy._phonopy = stub
import phonopy.harmonic.dynamical_matrix as D
D._extract_params = lambda dm: (None, None, None, None, np.zeros((1, 3)), None, 0.0, None)
D._get_fc_elements_mapping = lambda dm, fc: (np.zeros(1, dtype="int64"), np.zeros(1, dtype="int64"))
class DM:
    force_constants = np.zeros((1, 1, 3, 3))
    def is_nac(self): return False
base = np.arange(12, dtype="double").reshape(4, 3) / 10
inputs = {"F-ordered": np.asfortranarray(base), "column slice of (n,5)": np.arange(20, dtype="double").reshape(4, 5)[:, 1:4],
          "every second row": np.arange(24, dtype="double").reshape(8, 3)[::2], "float32": base.astype("float32"), "list": base.tolist(),
          "F-ordered int": np.asfortranarray(np.arange(12).reshape(4, 3))}
bad = []
for name, q in inputs.items():
    seen.clear()
    D.run_dynamical_matrix_solver_c(DM(), q, is_nac=False)
    s = seen[0]
    if s["dtype"] != "float64" or not s["c_contiguous"] or not np.allclose(np.array(s["values"]), np.array(q, dtype="double").reshape(-1, 3)):
        bad.append({"input": name, "dtype": s["dtype"], "c_contiguous": s["c_contiguous"]})
print(json.dumps({"failing": bad}))
'''
    rc, out, err = creplay.py_eval(code)
    if rc != 0:
        return {"reproduced": False, "reason": err[-500:]}
    r = json.loads(out.strip().splitlines()[-1])
    return {"reproduced": bool(r["failing"]), "input": r["failing"][:2], "real_code": r,
            "expected": "the extension receives a C-contiguous float64 array holding the caller's q-points"}
