"""C06 — commensurate points (phonopy/harmonic/dynmat_to_fc.py).

get_commensurate_points(S) returns the fractional coordinates, in the supercell get_supercell(Z^3, M) builds, of the points of
the unit lattice; that supercell has basis rows M^T (C04: lattice = M^T L), so the points q satisfy q . M^T in Z^3.  The
commensurate condition of the property (S^T q integral, i.e. q . S in Z^3) therefore needs M == S^T.  The same matrix S^T has
to go into the Smith normal form of get_commensurate_points_in_integers."""
import z3

from pvc import pyexec
from pvc.core import CheckerError
from pvc.pyexec import PyExec, PState, Record, NDArr, Opaque, Ref

DF = "phonopy/harmonic/dynmat_to_fc.py"


def commensurate_points_matrix(run):
    mod = pyexec.load(DF)
    for name, hook_key in (("get_commensurate_points", "get_supercell"), ("get_commensurate_points_in_integers", "SNF3x3")):
        fn = mod.funcs[name]
        pref = DF + ":" + name
        st = PState()
        S = st.new(NDArr((3, 3), [z3.Int("S_%d%d" % (i, j)) for i in range(3) for j in range(3)], "int"))
        Sv = list(st.heap[S.id].flat)
        cap = []

        def grab(ex, st_, args, kwargs, cap=cap, hook_key=hook_key):
            cap.append((st_.clone(), args[-1] if hook_key == "get_supercell" else args[0]))
            if hook_key == "get_supercell":
                return st_.new(Record("Supercell", {"scaled_positions": Opaque("lattice points of the reciprocal supercell")}))
            return st_.new(Record("SNF3x3", {"D": Opaque("D"), "Q": Opaque("Q"), "P": Opaque("P")}))
        hooks = {"new:" + hook_key: grab, hook_key: grab, "new:PhonopyAtoms": lambda ex, st_, a, k: st_.new(Record("PhonopyAtoms", dict(k))),
                 "SNF3x3.run": lambda ex, st_, a, k: None, "numpy.array": lambda ex, st_, a, k: a[0]}
        ex = PyExec(mod, run.sink, pref, hooks=hooks, opaque_unknown=True, split=True)
        n0 = len(run.sink.obls)
        try:
            ex.call_function(st, fn, [S])
        except CheckerError:
            if not cap:
                raise
        if not cap:
            raise CheckerError("%s: %s is never called" % (name, hook_key))
        s2, M = cap[0]
        if not (isinstance(M, Ref) and isinstance(s2.heap[M.id], NDArr)):
            raise CheckerError("%s: the matrix handed to %s was abstracted: %r" % (name, hook_key, M))
        Mv = [pyexec.num(x) for x in s2.heap[M.id].flat]
        for i in range(3):
            for j in range(3):
                run.sink.add(pref, "call-pre", list(s2.pc), Mv[i * 3 + j] == Sv[j * 3 + i], replay=lambda model: replay_commensurate(),
                             meta={"label": "%s receives the transposed supercell matrix: M[%d][%d] == S[%d][%d]" % (hook_key, i, j, j, i)})
        run.functions.append({"file": DF, "function": name, "line": fn.lineno, "sha1": mod.sha(fn), "obligations": len(run.sink.obls) - n0})


def replay_commensurate():
    from pvc import creplay
    import json
    code = r'''
import json
import numpy as np
from phonopy.harmonic.dynmat_to_fc import get_commensurate_points
S = np.array([[2, 1, 0], [0, 2, 0], [0, 0, 2]])
q = get_commensurate_points(S)
d = q @ S                     # S^T q integral  <=>  q . S integral (q as rows)
print(json.dumps({"n_points": int(len(q)), "det": int(round(np.linalg.det(S))), "max_distance_of_S^T_q_from_integers": float(np.abs(d - np.rint(d)).max())}))
'''
    rc, out, err = creplay.py_eval(code)
    if rc != 0:
        return {"reproduced": False, "reason": err[-400:]}
    r = json.loads(out.strip().splitlines()[-1])
    return {"reproduced": r["max_distance_of_S^T_q_from_integers"] > 1e-9 or r["n_points"] != r["det"], "real_code": r,
            "input": "S = [[2,1,0],[0,2,0],[0,0,2]]", "expected": "S^T q is an integer vector for every returned q; |det S| points"}
