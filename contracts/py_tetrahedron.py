"""Python side of the tetrahedron method (phonopy/structure/tetrahedron_method.py): the same region terms
are extracted from TetrahedronMethod._n/_g/_J/_I and proved equal to the C ones; the if/elif ladder of
_get_integration_weight_py is executed for one symbolic tetrahedron and compared with the C ladder."""
import ast

import sympy as sp
import z3

from pvc import cas, pyexec
from pvc.core import CheckerError
from pvc.pyexec import PyExec, PState, Record, NDArr
from contracts import c_tetrahedron as CT

PYF = "phonopy/structure/tetrahedron_method.py"
CLS = "TetrahedronMethod"
R = z3.RealSort()
spec = {"_n": CT.spec_n, "_g": CT.spec_g, "_J": CT.spec_J, "_I": CT.spec_I}

PY_TERMS = {}


def _self(st, vs=None):
    arr = z3.Const("vertices_omegas", z3.ArraySort(z3.IntSort(), R))
    vs = vs or [z3.Select(arr, z3.IntVal(k)) for k in range(4)]
    v = st.new(NDArr((4,), vs))
    return st.new(Record(CLS, {"_omega": z3.Real("omega"), "_vertices_omegas": v})), vs


def extract(run):
    mod = pyexec.load(PYF)
    for fn in ("_n", "_g", "_J", "_I"):
        m = mod.method(CLS, fn)
        if m is None:
            raise CheckerError("method %s.%s not found" % (CLS, fn))
        for i in range(5):
            for ci in ([None] if fn in ("_n", "_g") else range(4)):
                tag = "[i=%d]" % i if ci is None else "[ci=%d,i=%d]" % (ci, i)
                ex = PyExec(mod, run.sink, "%s:%s.%s%s" % (PYF, CLS, fn, tag))
                st = PState()
                sref, vs = _self(st)
                st.pc.extend(CT._sorted(vs) + CT._region(i, z3.Real("omega"), vs))
                if fn == "_I" and i == 2:
                    st.pc.append(z3.Real("omega") < vs[3])
                args = [z3.IntVal(i)] + ([] if ci is None else [z3.IntVal(ci)])
                n0 = len(run.sink.obls)
                outs = ex.call_function(st, m, args, self_ref=sref, cls=CLS)
                if len(outs) != 1 or outs[0][1] != "return":
                    raise CheckerError("%s%s: expected one return, got %s" % (fn, tag, [(o[1], o[2]) for o in outs]))
                PY_TERMS[(fn, i, ci)] = outs[0][2]
                run.functions.append({"file": PYF, "function": "%s.%s%s" % (CLS, fn, tag), "line": m.lineno,
                                      "sha1": mod.sha(m), "obligations": len(run.sink.obls) - n0})


def equiv_lemmas(run):
    pref = "equiv:C11:tetrahedron c-vs-py"
    for key, cterm in sorted(CT.TERMS.items(), key=str):
        pterm = PY_TERMS[key]
        run.lemma(pref, "equiv", "%s i=%s ci=%s: C == Py as rational functions" % key, [], None, backend="poly",
                  pairs=[(sp.srepr(cas.to_sympy(num(pterm))), sp.srepr(cas.to_sympy(cterm)))])


def num(v):
    return pyexec.num(v)


def py_ladder(run):
    """One symbolic tetrahedron through the real if/elif ladder; callee values named by the spec functions
    (justified by the per-(i,ci) equivalence lemmas).  Returns (pc-free) contribution term."""
    mod = pyexec.load(PYF)
    m = mod.method(CLS, "_get_integration_weight_py")
    loop = [n for n in ast.walk(m) if isinstance(n, ast.For)][0]
    out = {}
    for value, (IJn, gnn) in (("J", ("_J", "_n")), ("I", ("_I", "_g"))):
        st = PState()
        vs = [z3.Real("sv%d" % k) for k in range(4)]
        sref, _ = _self(st, vs)
        om = z3.Real("omega")
        cpos = z3.Int("ci_pos")

        def mk(name):
            def hook(ex, st_, args, kwargs):
                i = args[0]
                if name in ("_n", "_g"):
                    return spec[name](pyexec.num(i), om, *vs)
                return spec[name](pyexec.num(i), pyexec.num(args[1]), om, *vs)
            return hook
        hooks = {CLS + "." + k: mk(k) for k in ("_J", "_I", "_n", "_g")}
        hooks["numpy.where"] = lambda ex, st_, args, kwargs: ((cpos,),)
        ex = PyExec(mod, run.sink, "%s:%s._get_integration_weight_py[%s]" % (PYF, CLS, value), hooks=hooks)
        env = {"self": sref, "omega": om, "sum_value": z3.Real("sum0"),
               "IJ": pyexec.Closure(mod.method(CLS, IJn), {}, mod, self_ref=sref, cls=CLS),
               "gn": pyexec.Closure(mod.method(CLS, gnn), {}, mod, self_ref=sref, cls=CLS),
               "omegas": st.heap[sref.id].attrs["_vertices_omegas"],
               "indices": st.new(NDArr((4,), [z3.IntVal(k) for k in range(4)], "int64")),
               "ci": z3.Int("ci_raw")}
        st.pc.extend(CT._sorted(vs) + [cpos >= 0, cpos <= 3])
        outs = ex.exec_block(st, loop.body, env)
        if any(o[1] not in ("normal", "continue") for o in outs):
            raise CheckerError("python ladder: loop body leaves the loop (%s)" % [o[1] for o in outs])
        if len(outs) > 1:
            mg = ex.merge([(o[0], o[3]) for o in outs])
            if mg is None:
                raise CheckerError("python ladder: cannot merge %d paths" % len(outs))
            outs = [(mg[0], "normal", None, mg[1])]
        s2, _, _, env2 = outs[0]
        out[value] = (z3.simplify(env2["sum_value"] - z3.Real("sum0")), vs, om, cpos)
        run.functions.append({"file": PYF, "function": "%s._get_integration_weight_py[%s] (loop body)" % (CLS, value),
                              "line": m.lineno, "sha1": mod.sha(m), "obligations": 0})
    return out


def ladder_equiv(run):
    py = py_ladder(run)
    pref = "equiv:C11:ladder c-vs-py"
    for fch in ("J", "I"):
        contrib_py, vs, om, cpos = py[fch]
        paths = CT.C_LADDER.get(fch, [])
        if not paths:
            raise CheckerError("no C ladder paths captured for %s" % fch)
        for k, (pc, contrib_c, v, omega_c, ci, Vx) in enumerate(paths):
            hy = list(pc) + [vs[j] == v[j] for j in range(4)] + [om == omega_c, cpos == ci]
            run.lemma(pref, "equiv", "%s ladder, C path %d: same region chosen and same summand as the Python ladder" % (fch, k),
                      hy, contrib_c == contrib_py)
