"""C12 — Grueneisen parameters (phonopy/gruneisen/core.py)."""
import z3

from pvc import pyexec
from pvc.core import CheckerError
from pvc.pyexec import PyExec, PState, Record, Opaque

GF = "phonopy/gruneisen/core.py"


def band_order_pairing(run):
    """GruneisenBase._set_gruneisen with band connection: eigenvalues, eigenvector columns and <e|dD|e> of a q-point are
    re-ordered by the same band order (gamma_j = -<e_j|dD|e_j> / (2 delta w_j^2) pairs mode j with its own eigenvalue)."""
    mod = pyexec.load(GF)
    m = mod.method("GruneisenBase", "_set_gruneisen")
    pref = GF + ":GruneisenBase._set_gruneisen"
    order = Opaque("band order")
    hooks = {"numpy.linalg.eigh": lambda ex, st, args, kwargs: (Opaque("evals", idx=("base", "evals")), Opaque("evecs", idx=("base", "evecs"))),
             "new:rotate_eigenvectors": lambda ex, st, args, kwargs: (Opaque("evecs_at_q", idx=("base", "evecs_at_q")), Opaque("edDe_at_q", idx=("base", "edDe"))),
             "new:estimate_band_connection": lambda ex, st, args, kwargs: order,
             "GruneisenBase._get_dD": lambda ex, st, args, kwargs: Opaque("dD")}
    ex = PyExec(mod, run.sink, pref, hooks=hooks, opaque_unknown=True, split=True)
    st = PState()
    self_ref = st.new(Record("GruneisenBase", {"_is_band_connection": True, "_qpoints": Opaque("qpoints"), "_dynmat": Opaque("dynmat"),
                                               "_dynmat_minus": Opaque("dm-"), "_dynmat_plus": Opaque("dm+"), "_delta_strain": z3.Real("delta_strain"),
                                               "_q_direction": None, "_eigenvalues": None, "_eigenvectors": None, "_gruneisen": None}))
    n0 = len(run.sink.obls)
    items = {}
    orig_append = ex.builtin

    def spy(st_, name, args, kwargs, node):
        if name.startswith("list.append@") and args and isinstance(args[0], Opaque):
            items.setdefault(int(name.split("@")[1]), []).append((args[0], list(st_.pc)))
        return orig_append(st_, name, args, kwargs, node)
    ex.builtin = spy
    outs = ex.call_function(st, m, [], self_ref=self_ref, cls="GruneisenBase")
    groups = [v for v in items.values() if v]
    if len(groups) < 3:
        raise CheckerError("_set_gruneisen: expected three per-q lists (eigvals, eigvecs, edDe), found %d" % len(groups))
    checked = 0
    # every explored path appends one item to each of the three lists; compare those with the same path condition
    bypc = {}
    for g in groups:
        for val, pc in g:
            bypc.setdefault(tuple(h.get_id() for h in pc), []).append((val, pc))
    for key, vals in bypc.items():
        idxs = {}
        for val, pc in vals:
            b = val.idx
            root = b
            while isinstance(root, tuple) and root[0] in ("take", "T"):
                root = root[1]
            idxs[root[1] if isinstance(root, tuple) else None] = (b, pc)
        if "evals" in idxs and "evecs_at_q" in idxs and "edDe" in idxs:
            checked += 1
            ec = idxs["evecs_at_q"][0]
            oid = ec[1][2] if (isinstance(ec, tuple) and ec[0] == "T" and ec[1][0] == "take") else None
            pc = idxs["evals"][1]
            run.sink.add(pref, "pairing", pc, z3.BoolVal(oid is not None), meta={"label": "eigenvector columns re-ordered by the band order"})
            run.sink.add(pref, "pairing", pc, z3.BoolVal(idxs["evals"][0] == ("take", ("base", "evals"), oid)),
                         meta={"label": "eigenvalues re-ordered by the same band order as the eigenvector columns"})
            run.sink.add(pref, "pairing", pc, z3.BoolVal(idxs["edDe"][0] == ("take", ("base", "edDe"), oid)),
                         meta={"label": "<e|dD|e> re-ordered by the same band order as the eigenvector columns"})
    if not checked:
        raise CheckerError("_set_gruneisen: no band-connection path with all three lists explored")
    run.functions.append({"file": GF, "function": "GruneisenBase._set_gruneisen", "line": m.lineno, "sha1": mod.sha(m),
                          "obligations": len(run.sink.obls) - n0})
