"""C03 — lemmas over the functional contract of c/dynmat.c (contracts/c_dynmat.py).

The code is tied to the spec function Dspec by the proved postcondition of dym_get_dynamical_matrix_at_q
(output == herm(Dspec), C02).  The lemmas below are statements about Dspec for two related inputs; each is proved by
induction over the recursive sums it is made of (base and step are obligations; the induction principle is trusted).
  time reversal   q' = -q                      =>  Tre' = Tre, Tim' = -Tim                 (D(-q) = conj D(q))
  scaling         fc' = s fc, mass' = t mass   =>  Tre' = s Tre, Tim' = s Tim, sqrt(m'_i m'_j) = t sqrt(m_i m_j)   (D' = (s/t) D)
Trig parity (cos(-x) = cos x, sin(-x) = -sin x) is the only property of the uninterpreted c_cos/c_sin used."""
import z3

from pvc.cexec import NS
from pvc.spec import induction
from contracts import c_dynmat as D

I = z3.IntSort()
R = z3.RealSort()
PREF = "c/dynmat.c:Dspec"


class Arr:
    """z3 array constant indexed like an array view"""

    def __init__(self, name, ndim, elem=R):
        self.a = z3.Const(name, z3.ArraySort(*([I] * ndim), elem))

    def __getitem__(self, idx):
        idx = idx if isinstance(idx, tuple) else (idx,)
        return z3.Select(self.a, *[z3.IntVal(i) if isinstance(i, int) else i for i in idx])


class NegArr:
    """-a[idx] for an Arr"""

    def __init__(self, arr):
        self.arr = arr

    def __getitem__(self, idx):
        return -self.arr[idx]


class ScaledArr:
    def __init__(self, arr, factor):
        self.arr, self.factor = arr, factor

    def __getitem__(self, idx):
        return self.factor * self.arr[idx]


def _view(suffix="", q=None, fc=None, mass=None):
    a = {"q": q or Arr("q" + suffix, 1), "svecs": Arr("svecs", 2), "multi": Arr("multi", 3, I), "fc": fc or Arr("fc" + suffix, 4),
         "p2s_map": Arr("p2s_map", 1, I), "s2p_map": Arr("s2p_map", 1, I), "mass": mass or Arr("mass" + suffix, 1)}
    return NS({"a": NS(a), "p": NS({"num_patom": z3.Int("num_patom"), "num_satom": z3.Int("num_satom")}), "null": None})


def _trig_parity():
    x, y = z3.Reals("x!tp y!tp")
    cos = z3.Function("c_cos", R, R)
    sin = z3.Function("c_sin", R, R)
    return [z3.ForAll([x, y], z3.Implies(x == -y, cos(x) == cos(y)), patterns=[z3.MultiPattern(cos(x), cos(y))]),
            z3.ForAll([x, y], z3.Implies(x == -y, sin(x) == -sin(y)), patterns=[z3.MultiPattern(sin(x), sin(y))])]


def time_reversal(run):
    V = _view()
    Vn = _view(q=NegArr(V.a.q))          # the same spec functions with -q substituted for q (new definitional symbols)
    S, Sn = D.Spec(V), D.Spec(Vn)
    c = z3.Int("c!tr")
    d = z3.Int("d!tr")
    mpos = [z3.ForAll([c, d], V.a.multi[c, d, 0] >= 1)]           # multiplicities are positive (precondition wf_maps of the kernels)
    hy = _trig_parity() + mpos

    def P1(k, i, n):
        return z3.And(Sn.cosS(k, i, n) == S.cosS(k, i, n), Sn.sinS(k, i, n) == -S.sinS(k, i, n))

    def U1(k, i, n):
        return [S.cosS.zero(k, i), S.sinS.zero(k, i), Sn.cosS.zero(k, i), Sn.sinS.zero(k, i),
                S.cosS.unfold(k, i, n), S.sinS.unfold(k, i, n), Sn.cosS.unfold(k, i, n), Sn.sinS.unfold(k, i, n)]
    f1 = induction(run.sink, PREF, "time reversal, phase average: cosS(-q) = cosS(q), sinS(-q) = -sinS(q)", [I, I], P1, U1, hyps=hy)

    def P2(i, j, a, b, n):
        return z3.And(Sn.Tre(i, j, a, b, n) == S.Tre(i, j, a, b, n), Sn.Tim(i, j, a, b, n) == -S.Tim(i, j, a, b, n))

    def U2(i, j, a, b, n):
        return [S.Tre.zero(i, j, a, b), S.Tim.zero(i, j, a, b), Sn.Tre.zero(i, j, a, b), Sn.Tim.zero(i, j, a, b),
                S.Tre.unfold(i, j, a, b, n), S.Tim.unfold(i, j, a, b, n), Sn.Tre.unfold(i, j, a, b, n), Sn.Tim.unfold(i, j, a, b, n)]
    induction(run.sink, PREF, "time reversal, Fourier sum: Tre(-q) = Tre(q), Tim(-q) = -Tim(q)  [D(-q) = conj D(q)]", [I, I, I, I], P2, U2,
              hyps=hy + [f1])
    run.axioms += ["TRIG-PARITY: cos(-x) = cos(x), sin(-x) = -sin(x) for the uninterpreted c_cos / c_sin"]


def scaling(run):
    s, t = z3.Reals("s_scale t_scale")
    V = _view()
    Vs = _view(fc=ScaledArr(V.a.fc, s), mass=ScaledArr(V.a.mass, t))
    S, Ss = D.Spec(V), D.Spec(Vs)
    c = z3.Int("c!sc")
    hy = [s > 0, t > 0, z3.ForAll([c], V.a.mass[c] > 0)]

    def P(i, j, a, b, n):
        return z3.And(Ss.Tre(i, j, a, b, n) == s * S.Tre(i, j, a, b, n), Ss.Tim(i, j, a, b, n) == s * S.Tim(i, j, a, b, n))

    def U(i, j, a, b, n):
        return [S.Tre.zero(i, j, a, b), S.Tim.zero(i, j, a, b), Ss.Tre.zero(i, j, a, b), Ss.Tim.zero(i, j, a, b),
                S.Tre.unfold(i, j, a, b, n), S.Tim.unfold(i, j, a, b, n), Ss.Tre.unfold(i, j, a, b, n), Ss.Tim.unfold(i, j, a, b, n)]
    induction(run.sink, PREF, "scaling: force constants times s multiply the Fourier sum by s", [I, I, I, I], P, U, hyps=hy)
    sq = z3.Function("c_sqrt", R, R)
    mi, mj = z3.Reals("m_i m_j")
    run.sink.add(PREF, "lemma", [s > 0, t > 0, mi > 0, mj > 0], sq((t * mi) * (t * mj)) == t * sq(mi * mj),
                 meta={"label": "scaling: masses times t multiply the mass factor sqrt(m_i m_j) by t  [D' = (s/t) D]"})
