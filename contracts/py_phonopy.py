"""C15 — a Phonopy object answers from its current state: class invariant over the public state-changing
methods of phonopy/api_phonopy.py (ghost stamps on the cached dynamical matrix and group velocity)."""
import ast

import z3

from pvc import pyexec
from pvc.core import CheckerError
from pvc.pyexec import PyExec, PState, Record, Opaque, content_token, source_token

AF = "phonopy/api_phonopy.py"
# operations that are not meant to change the force constants: their content is part of the frame
KEEPS_FC = ("nac_params.setter", "masses.setter", "_set_dynamical_matrix")


def _find(mod, cls, name, setter=False):
    for n in mod.classes[cls].body:
        if isinstance(n, ast.FunctionDef) and n.name == name:
            is_setter = any(isinstance(d, ast.Attribute) and d.attr == "setter" for d in n.decorator_list)
            if is_setter == setter:
                return n
    raise CheckerError("method %s%s not found in %s" % (name, ".setter" if setter else "", cls))


def class_invariant(run):
    mod = pyexec.load(AF)
    methods = [("force_constants", True, lambda st: [Opaque("new force constants")]),
               ("nac_params", True, lambda st: [Opaque("new nac params")]),
               ("masses", True, lambda st: [Opaque("new masses")]),
               ("set_force_constants_zero_with_radius", False, lambda st: [z3.Real("cutoff_radius")]),
               ("symmetrize_force_constants", False, lambda st: []),
               ("symmetrize_force_constants_by_space_group", False, lambda st: []),
               ("produce_force_constants", False, lambda st: []),
               ("_set_dynamical_matrix", False, lambda st: [])]
    for name, is_setter, mkargs in methods:
        m = _find(mod, "Phonopy", name, setter=is_setter)
        for dm_present in (False, True):
            for gv_present in ((False, True) if dm_present else (False,)):
                for nac_present in (False, True):
                    for scaled in (False, True):
                        tag = "[%s%s;dm=%s,gv=%s,nac=%s%s]" % (name, ".setter" if is_setter else "", dm_present, gv_present, nac_present,
                                                               ",scale" if scaled else "")
                        _one(run, mod, m, tag, mkargs, dm_present, gv_present, nac_present, scaled)


def _one(run, mod, m, tag, mkargs, dm_present, gv_present, nac_present, scaled=False):
    pref = AF + ":Phonopy" + tag
    st = PState()
    fc = Opaque("force constants")
    nac = Opaque("nac params") if nac_present else None
    masses = Opaque("primitive masses")
    prim = st.new(Record("Primitive", {"masses": masses, "p2p_map": Opaque("p2p"), "s2p_map": Opaque("s2p")}))
    sup = st.new(Record("Supercell", {"u2s_map": Opaque("u2s")}))
    unit = st.new(Record("PhonopyAtoms", {}))

    def mk_dm(st_, fc_, sc_, pr_, nac_, scale_=None):
        # contract of get_dynamical_matrix (phonopy/harmonic/dynamical_matrix.py), as far as C15 needs it:
        #  - the object keeps its own force-constant array (DynamicalMatrix._set_force_constants may copy) and reads
        #    it on every run; with NAC parameters (DynamicalMatrixGL) data derived from it is cached after construction
        #  - NAC parameters are consumed at construction
        #  - it keeps references to the supercell and primitive cell objects and reads their masses on every run
        own = pyexec.opaque_copy(st_, fc_, "force-constant array kept by the dynamical matrix")
        if scale_ is not None:
            #  - with frequency_scale_factor the array kept is fc * factor**2 (get_dynamical_matrix), i.e. other content
            pyexec.BUF_ORIGIN[own.buf] = ("scaled", content_token(st_, fc_))
        rec = {"force_constants": own, "fc_built_from": content_token(st_, fc_), "scaled": scale_ is not None, "nac_built_from": (source_token(st_, nac_) if isinstance(nac_, Opaque) else None),
               "with_nac": nac_ is not None, "primitive": pr_, "supercell": sc_}
        return st_.new(Record("DynamicalMatrix", rec))

    def new_dm(ex, st_, args, kwargs):
        return mk_dm(st_, args[0], args[1], args[2], args[3], args[4] if len(args) > 4 else kwargs.get("frequency_scale_factor"))

    def new_gv(ex, st_, args, kwargs):
        return st_.new(Record("GroupVelocity", {"dm": args[0]}))

    def set_masses(ex, st_, args, kwargs):
        # Primitive.set_masses / Supercell.set_masses / PhonopyAtoms.set_masses: replaces the masses array of that cell
        rec = st_.heap[args[0].id]
        rec.attrs["masses"] = args[1] if len(args) > 1 else Opaque("masses")
        return None

    def inplace(ex, st_, args, kwargs):
        a0 = args[0]
        if isinstance(a0, Opaque):
            st_.writes.append((a0.buf, getattr(ex, "cur_line", None)))
        return None
    def run_fc(ex, st_, args, kwargs):
        # Phonopy._run_force_constants_from_forces: binds freshly computed force constants (contract: assigns
        # self._force_constants only)
        st_.heap[ex.hook_self.id].attrs["_force_constants"] = Opaque("force constants computed from the force sets")
        return None
    hooks = {"new:get_dynamical_matrix": new_dm, "Phonopy._run_force_constants_from_forces": run_fc, "new:GroupVelocity": new_gv, "phonopy._phonopy.use_openmp": lambda ex, st_, a, k: z3.Bool("use_openmp"),
             "Primitive.set_masses": set_masses, "Supercell.set_masses": set_masses, "PhonopyAtoms.set_masses": set_masses,
             "new:cutoff_force_constants": inplace, "new:symmetrize_force_constants": inplace, "new:symmetrize_compact_force_constants": inplace,
             "new:set_tensor_symmetry_PJ": inplace, "new:show_drift_force_constants": lambda ex, st_, a, k: None,
             "new:symmetrize_borns_and_epsilon": lambda ex, st_, a, k: (Opaque("borns"), Opaque("epsilon"))}
    dm = gv = None
    attrs = {"_force_constants": fc, "_nac_params": nac, "_primitive": prim, "_supercell": sup, "_unitcell": unit,
             "_is_symmetry": z3.Bool("is_symmetry"), "_symprec": z3.Real("symprec"), "_frequency_scale_factor": (z3.Real("frequency_scale_factor") if scaled else None),
             "_dynamical_matrix_decimals": None, "_log_level": 0, "_gv_delta_q": Opaque("gv_delta_q"), "_factor": z3.Real("factor"),
             "_symmetry": Opaque("symmetry"), "_primitive_symmetry": Opaque("primitive symmetry"),
             "_dynamical_matrix": None, "_group_velocity": None, "_dataset": Opaque("displacement dataset"),
             "_force_constants_decimals": None}
    self_ref = st.new(Record("Phonopy", attrs))
    if dm_present:
        dm = mk_dm(st, fc, sup, prim, nac, z3.Real("frequency_scale_factor") if scaled else None)
        st.heap[self_ref.id].attrs["_dynamical_matrix"] = dm
        if not scaled:
            fc = st.heap[dm.id].attrs["force_constants"]
            st.heap[self_ref.id].attrs["_force_constants"] = fc      # as left by _set_dynamical_matrix
    if gv_present:
        gv = st.new(Record("GroupVelocity", {"dm": dm}))
        st.heap[self_ref.id].attrs["_group_velocity"] = gv
    ex = PyExec(mod, run.sink, pref, hooks=hooks, opaque_unknown=True, split=True)
    n0 = len(run.sink.obls)
    outs = ex.call_function(st, m, mkargs(st), self_ref=self_ref, cls="Phonopy")
    nret = 0
    mname = tag[1:].split(";")[0]
    fc_before = content_token(st, st.heap[self_ref.id].attrs["_force_constants"])
    rp = (lambda model, a=(mname, dm_present, gv_present, nac_present, scaled): replay_history(*a))
    for (s2, fl, v) in outs:
        if fl != "return":
            continue          # refusal (exception): nothing is answered from a stale state
        nret += 1
        rec = s2.heap[self_ref.id].attrs
        cur_dm = rec.get("_dynamical_matrix")
        cur_gv = rec.get("_group_velocity")
        ok_dm, why = True, "dynamical matrix is None (results are refused until it is rebuilt)"
        if cur_dm is not None:
            d = s2.heap[cur_dm.id].attrs
            cur_fc, cur_nac = rec["_force_constants"], rec["_nac_params"]
            fails = []
            want_fc = ("scaled", content_token(s2, cur_fc)) if (d["scaled"] and isinstance(cur_fc, Opaque)) else (content_token(s2, cur_fc) if isinstance(cur_fc, Opaque) else None)
            if want_fc is None or want_fc != content_token(s2, d["force_constants"]):
                fails.append("its force-constant array does not hold the current force constants%s" % (" times the scale factor squared" if d["scaled"] else ""))
            if d["with_nac"] and content_token(s2, d["force_constants"]) != source_token(s2, d["force_constants"]):
                fails.append("its force constants were changed in place after it was built with NAC parameters (cached short-range part)")
            if (cur_nac is not None) != d["with_nac"] or (isinstance(cur_nac, Opaque) and content_token(s2, cur_nac) != d["nac_built_from"]):
                fails.append("it was not built from the current NAC parameters")
            if d["primitive"].id != rec["_primitive"].id or d["supercell"].id != rec["_supercell"].id:
                fails.append("it refers to another primitive cell / supercell object")
            ok_dm = not fails
            why = "cached dynamical matrix answers from the current force constants / NAC parameters / cells" + (": " + "; ".join(fails) if fails else "")
        run.sink.add(pref, "invariant", list(s2.pc), z3.BoolVal(bool(ok_dm)), meta={"label": why}, replay=rp)
        if mname in KEEPS_FC:
            now = content_token(s2, rec["_force_constants"]) if isinstance(rec["_force_constants"], Opaque) else None
            run.sink.add(pref, "frame", list(s2.pc), z3.BoolVal(now == fc_before), replay=rp, meta={
                "label": "%s leaves the content of the force constants unchanged (%s -> %s)" % (mname, fc_before, now)})
        ok_gv = cur_gv is None or (cur_dm is not None and s2.heap[cur_gv.id].attrs["dm"].id == cur_dm.id)
        run.sink.add(pref, "invariant", list(s2.pc), z3.BoolVal(bool(ok_gv)),
                     meta={"label": "cached group-velocity object refers to the current dynamical matrix"}, replay=rp)
    if nret == 0:
        ob = run.sink.add(pref, "invariant", [], z3.BoolVal(True), meta={"label": "every path refuses (exception)"})
        ob.status, ob.solver = "discharged", "path enumeration"
    run.functions.append({"file": AF, "function": "Phonopy" + tag, "line": m.lineno, "sha1": mod.sha(m), "obligations": len(run.sink.obls) - n0})
    run.abstracted += sorted(set(ex.abstracted))[:5]


REPLAY = r"""
import sys, types, json, copy
import numpy as np
stub = types.ModuleType("phonopy._phonopy")
stub.use_openmp = lambda: False
sys.modules["phonopy._phonopy"] = stub
import phonopy
phonopy._phonopy = stub
import phonopy.api_phonopy as api

class Cell:                       # stands for Primitive / Supercell / PhonopyAtoms: only masses and index maps
    def __init__(self, n):
        self.cell = np.eye(3); self.scaled_positions = np.zeros((n, 3))
        self._m = np.arange(1.0, n + 1); self.p2p_map = {0: 0, 1: 1}; self.s2p_map = [0, 1]; self.u2s_map = [0, 1]
    def __len__(self): return len(self._m)
    @property
    def masses(self): return None if self._m is None else self._m.copy()
    @masses.setter
    def masses(self, m): self._m = np.array(m, dtype=float)
    def set_masses(self, m): self._m = np.array(m, dtype=float)

class DM:                          # contract of get_dynamical_matrix as used by C15 (see mk_dm)
    def __init__(self, fc, sc, pc, nac, scale=None, *a, **k):
        self.force_constants = np.array(fc, dtype=float) * (1.0 if scale is None else scale ** 2)   # own array, read on every run
        self.nac = copy.deepcopy(nac)                                # consumed at construction
        self.cache = self.force_constants.copy() if nac is not None else None   # GL short-range part
        self.pc, self.sc = pc, sc
    def answer(self):
        fc = self.cache if self.nac is not None else self.force_constants
        return (fc.copy(), copy.deepcopy(self.nac), self.pc.masses)

class GV:
    def __init__(self, dm, **k): self.dm = dm

api.get_dynamical_matrix = lambda *a, **k: DM(*a, **k)
api.GroupVelocity = GV
def _inplace(fc, *a, **k): fc *= 0.5
api.cutoff_force_constants = _inplace
api.symmetrize_force_constants = _inplace
api.symmetrize_compact_force_constants = _inplace
api.set_tensor_symmetry_PJ = _inplace
api.show_drift_force_constants = lambda *a, **k: None
api.symmetrize_borns_and_epsilon = lambda b, e, *a, **k: (np.array(b) * 1.0, np.array(e) * 1.0)

def same(a, b):
    if isinstance(a, dict):
        return isinstance(b, dict) and a.keys() == b.keys() and all(same(a[k], b[k]) for k in a)
    if a is None or b is None:
        return a is None and b is None
    return np.shape(a) == np.shape(b) and np.allclose(a, b)

def make(dm, gv, nac, is_symmetry, scale=None):
    o = api.Phonopy.__new__(api.Phonopy)
    o._primitive, o._supercell, o._unitcell = Cell(2), Cell(2), Cell(2)
    o._force_constants = np.arange(36.0).reshape(2, 2, 3, 3)
    o._nac_params = {"born": np.ones((2, 3, 3)), "dielectric": np.eye(3), "factor": 14.4} if nac else None
    o._is_symmetry, o._symprec, o._frequency_scale_factor, o._dynamical_matrix_decimals = is_symmetry, 1e-5, scale, None
    o._log_level, o._gv_delta_q, o._factor = 0, None, 1.0
    o._symmetry = o._primitive_symmetry = None
    o._dataset = {"first_atoms": [{"forces": np.zeros((2, 3)), "displacement": [0.01, 0, 0], "number": 0}]}
    o._force_constants_decimals = None
    o._dynamical_matrix = o._group_velocity = None
    def run_fc(**k): o._force_constants = np.arange(36.0).reshape(2, 2, 3, 3)[::-1].copy() + 7.0
    o._run_force_constants_from_forces = run_fc
    if dm:
        o._set_dynamical_matrix()
    if gv:
        o._group_velocity = GV(o._dynamical_matrix)
    return o

def history(method, dm, gv, nac, is_symmetry, scale=None):
    o = make(dm, gv, nac, is_symmetry, scale)
    fc_before = np.array(o._force_constants)
    try:
        if method == "force_constants.setter": o.force_constants = np.ones((2, 2, 3, 3))
        elif method == "nac_params.setter": o.nac_params = {"born": 2 * np.ones((2, 3, 3)), "dielectric": 3 * np.eye(3), "factor": 14.4}
        elif method == "masses.setter": o.masses = [5.0, 7.0]
        elif method == "set_force_constants_zero_with_radius": o.set_force_constants_zero_with_radius(1.0)
        elif method == "symmetrize_force_constants": o.symmetrize_force_constants(show_drift=False)
        elif method == "symmetrize_force_constants_by_space_group": o.symmetrize_force_constants_by_space_group(show_drift=False)
        elif method == "produce_force_constants": o.produce_force_constants(show_drift=False)
        elif method == "_set_dynamical_matrix":
            o._force_constants = np.full((2, 2, 3, 3), 2.0); o._set_dynamical_matrix()
        else: return None
    except Exception as e:
        return {"refused": repr(e)[:200]}
    bad = []
    if o._dynamical_matrix is not None:
        fresh = make(False, False, nac, is_symmetry, scale)
        fresh._primitive, fresh._supercell = o._primitive, o._supercell
        fresh._force_constants = np.array(o._force_constants); fresh._nac_params = copy.deepcopy(o._nac_params)
        fresh._set_dynamical_matrix()
        got, want = o._dynamical_matrix.answer(), fresh._dynamical_matrix.answer()
        for nm, g, w in zip(("force constants", "NAC parameters", "masses"), got, want):
            if not same(g, w):
                bad.append("dynamical matrix answers with stale " + nm)
    if method in KEEPS and not same(fc_before, o._force_constants):
        bad.append("force constants changed by an operation that does not set them")
    if o._group_velocity is not None and o._group_velocity.dm is not o._dynamical_matrix:
        bad.append("group-velocity object refers to a replaced dynamical matrix")
    return {"violations": bad}

KEEPS = ("nac_params.setter", "masses.setter")
out = []
for sym in (True, False):
    r = history(METHOD, DM_, GV_, NAC_, sym, SCALE_)
    out.append({"is_symmetry": sym, "result": r})
print(json.dumps(out))
"""


def replay_history(method, dm, gv, nac, scaled=False):
    """the real method of phonopy/api_phonopy.py run on a Phonopy object whose collaborators are stand-ins that
    implement exactly the contracts assumed by the invariant (in-place edits, own fc array, NAC consumed at build)"""
    from pvc import creplay
    import json
    code = REPLAY.replace("METHOD", repr(method)).replace("DM_", repr(dm)).replace("GV_", repr(gv)).replace("NAC_", repr(nac)).replace("SCALE_", "1.5" if scaled else "None")
    rc, out, err = creplay.py_eval(code)
    if rc != 0:
        return {"reproduced": False, "reason": err[-600:]}
    res = json.loads(out.strip().splitlines()[-1])
    bad = [r for r in res if r["result"] and r["result"].get("violations")]
    return {"reproduced": bool(bad), "history": "Phonopy state dm=%s gv=%s nac=%s%s; then %s; then query" % (dm, gv, nac, ", frequency_scale_factor=1.5" if scaled else "", method),
            "real_code": res, "expected": "answers equal those of an object freshly built from the final state"}


def copy_forwards_options(run):
    """Phonopy._copy (used by copy() and twice by ph2ph): every option of Phonopy.__init__ that __init__ stores unchanged
    in an attribute is forwarded to the new object from that attribute (supercell_matrix / log_level from the argument
    when one is given).  The option -> attribute table is read off __init__ on every run."""
    mod = pyexec.load(AF)
    init = mod.method("Phonopy", "__init__")
    params = [a.arg for a in init.args.args[1:]]
    stored = {}
    for node in ast.walk(init):
        if isinstance(node, ast.Assign) and len(node.targets) == 1 and isinstance(node.targets[0], ast.Attribute) \
                and isinstance(node.targets[0].value, ast.Name) and node.targets[0].value.id == "self" \
                and isinstance(node.value, ast.Name) and node.value.id in params:
            stored.setdefault(node.value.id, node.targets[0].attr)
    if len(stored) < 5:
        raise CheckerError("Phonopy.__init__: option -> attribute table could not be read (%s)" % stored)
    m = mod.method("Phonopy", "_copy")
    pref = AF + ":Phonopy._copy"
    n0 = len(run.sink.obls)
    for scen in ("same supercell", "other supercell"):
        st = PState()
        attrs = {attr: Opaque("value of option %s" % p) for p, attr in stored.items()}
        attrs["_unitcell"] = Opaque("unit cell")
        self_ref = st.new(Record("Phonopy", attrs))
        cap = {}

        def mk(ex, st_, args, kwargs, cap=cap):
            cap["args"], cap["kw"], cap["pc"] = list(args), dict(kwargs), list(st_.pc)
            return st_.new(Record("Phonopy", {}))
        ex = PyExec(mod, run.sink, pref + "[%s]" % scen, hooks={"new:Phonopy": mk}, opaque_unknown=True, split=True)
        other = Opaque("supercell matrix given to _copy")
        ex.call_function(st, m, [], {"supercell_matrix": None if scen == "same supercell" else other}, self_ref=self_ref, cls="Phonopy")
        if "kw" not in cap:
            raise CheckerError("Phonopy._copy: no Phonopy object is constructed")
        for p, attr in sorted(stored.items()):
            if p in ("unitcell",):
                continue
            got = cap["kw"].get(p, cap["args"][params.index(p)] if params.index(p) < len(cap["args"]) else None)
            want = attrs[attr]
            if p == "supercell_matrix" and scen == "other supercell":
                want = other
            if p in ("log_level", "nac_params"):
                continue            # log_level is chosen by the caller of _copy; data such as NAC parameters are documented not to be copied
            run.sink.add(ex.prefix, "call-pre", cap["pc"], z3.BoolVal(got is want), replay=lambda model: replay_copy(),
                         meta={"label": "the copy is constructed with this object's option '%s' (attribute %s); got %r" % (p, attr, got)})
    run.functions.append({"file": AF, "function": "Phonopy._copy", "line": m.lineno, "sha1": mod.sha(m), "obligations": len(run.sink.obls) - n0})


def replay_copy():
    from pvc import creplay
    import json
    code = r'''
import json, inspect
import phonopy.api_phonopy as api
got = {}
class Fake:
    def __init__(self, *a, **k): got.update(k); got["__args__"] = a
real = api.Phonopy
class Dyn(real):
    def __getattr__(self, n): return ("attr", n)
o = Dyn.__new__(Dyn)
src = inspect.getsource(real.__init__)
names = [p for p in inspect.signature(real.__init__).parameters if p != "self"]
import re
stored = {}
for p in names:
    m = re.search(r"self\.(_\w+) = %s\n" % p, src)
    if m: stored[p] = m.group(1)
for p, attr in stored.items():
    setattr(o, attr, ("value", p))
o._unitcell = ("value", "unitcell")
api.Phonopy = Fake
try:
    real._copy(o)
finally:
    api.Phonopy = real
missing = [p for p, attr in stored.items() if p not in ("unitcell", "log_level", "nac_params") and got.get(p) != ("value", p)]
print(json.dumps({"options_not_forwarded": missing}))
'''
    rc, out, err = creplay.py_eval(code)
    if rc != 0:
        return {"reproduced": False, "reason": err[-400:]}
    r = json.loads(out.strip().splitlines()[-1])
    return {"reproduced": bool(r["options_not_forwarded"]), "real_code": r, "expected": "every stored constructor option is forwarded by _copy"}


ATF = "phonopy/structure/atoms.py"


def atoms_getters_return_copies(run):
    """PhonopyAtoms array getters (cell, positions, scaled_positions, numbers_with_shifts, masses, magnetic_moments; `symbols`
    is a Python list returned by slicing and is not modelled):
    the value handed out does not share its buffer with the internal array (ownership model of pyexec: .copy(), np.array
    and slicing a list give a fresh buffer; np.asarray / views share it)."""
    mod = pyexec.load(ATF)
    pref = ATF + ":PhonopyAtoms"
    n0 = len(run.sink.obls)
    getters = [n for n in mod.classes["PhonopyAtoms"].body if isinstance(n, ast.FunctionDef)
               and any(isinstance(d, ast.Name) and d.id == "property" for d in n.decorator_list)
               and n.name in ("cell", "positions", "scaled_positions", "numbers_with_shifts", "masses", "magnetic_moments")]
    if len(getters) < 6:
        raise CheckerError("PhonopyAtoms: array getters not found (%s)" % [g.name for g in getters])
    for g in getters:
        st = PState()
        internal = {k: Opaque("internal " + k) for k in ("_cell", "_scaled_positions", "_numbers_with_shifts", "_masses", "_magnetic_moments", "_symbols", "_numbers")}
        self_ref = st.new(Record("PhonopyAtoms", dict(internal)))
        ex = PyExec(mod, run.sink, pref + "." + g.name, opaque_unknown=True, split=True)
        outs = ex.call_function(st, g, [], self_ref=self_ref, cls="PhonopyAtoms")
        for (s2, fl, v) in outs:
            if fl != "return" or v is None:
                continue
            bufs = {o_.buf for o_ in internal.values()}
            shares = isinstance(v, Opaque) and v.buf in bufs
            run.sink.add(ex.prefix, "ownership", list(s2.pc), z3.BoolVal(not shares), replay=(lambda model, nm=g.name: replay_getter(nm)),
                         meta={"label": "the array returned by PhonopyAtoms.%s does not alias internal state" % g.name})
    run.functions.append({"file": ATF, "function": "PhonopyAtoms array getters", "line": getters[0].lineno, "sha1": "".join(mod.sha(g)[:8] for g in getters),
                          "obligations": len(run.sink.obls) - n0})


def replay_getter(name):
    from pvc import creplay
    import json
    code = r'''
import json
import numpy as np
from phonopy.structure.atoms import PhonopyAtoms
a = PhonopyAtoms(symbols=["Na", "Cl"], cell=np.eye(3) * 4.0, scaled_positions=[[0, 0, 0], [0.5, 0.5, 0.5]], magnetic_moments=[1.0, -1.0])
before = np.array(getattr(a, NAME), dtype=object if NAME == "symbols" else None).copy()
v = getattr(a, NAME)
try:
    if NAME == "symbols":
        v[0] = "K"
    else:
        v += 1
except Exception:
    pass
after = np.array(getattr(a, NAME), dtype=object if NAME == "symbols" else None)
print(json.dumps({"internal_state_changed_through_returned_value": bool((before != after).any())}))
'''.replace("NAME", repr(name))
    rc, out, err = creplay.py_eval(code)
    if rc != 0:
        return {"reproduced": False, "reason": err[-400:]}
    r = json.loads(out.strip().splitlines()[-1])
    return {"reproduced": r["internal_state_changed_through_returned_value"], "real_code": r, "expected": "mutating the returned value leaves the object unchanged"}


def masses_setter_index_functions(run):
    """Phonopy.masses setter: the three cells receive the same masses re-indexed consistently:
    primitive <- np.array(masses);  supercell <- p_masses[[p2p_map[x] for x in s2p_map]];  unit cell <- s_masses[u2s_map]
    (index-function tags on the abstracted arrays: the unit-cell atom u is the supercell atom u2s_map[u])."""
    mod = pyexec.load(AF)
    m = _find(mod, "Phonopy", "masses", setter=True)
    pref = AF + ":Phonopy.masses.setter[index functions]"
    st = PState()
    got = {}

    def setm(which):
        def hook(ex, st_, args, kwargs):
            got[which] = (args[1] if len(args) > 1 else None, list(st_.pc))
            return None
        return hook
    p2p, s2p, u2s = Opaque("p2p_map"), Opaque("s2p_map"), Opaque("u2s_map")
    prim = st.new(Record("Primitive", {"p2p_map": p2p, "s2p_map": s2p}))
    sup = st.new(Record("Supercell", {"u2s_map": u2s, "u2u_map": Opaque("u2u_map")}))
    unit = st.new(Record("PhonopyAtoms", {}))
    self_ref = st.new(Record("Phonopy", {"_primitive": prim, "_supercell": sup, "_unitcell": unit, "_force_constants": None}))
    hooks = {"Primitive.set_masses": setm("primitive"), "Supercell.set_masses": setm("supercell"), "PhonopyAtoms.set_masses": setm("unitcell")}
    ex = PyExec(mod, run.sink, pref, hooks=hooks, opaque_unknown=True, split=True)
    n0 = len(run.sink.obls)
    given = Opaque("masses given by the caller")
    ex.call_function(st, m, [given], self_ref=self_ref, cls="Phonopy")
    if set(got) != {"primitive", "supercell", "unitcell"}:
        raise CheckerError("masses setter: set_masses calls found: %s" % sorted(got))
    pm, sm, um = got["primitive"][0], got["supercell"][0], got["unitcell"][0]
    ok_p = isinstance(pm, Opaque) and pyexec.source_token(st, pm) == pyexec.content_token(st, given)
    run.sink.add(pref, "post", got["primitive"][1], z3.BoolVal(bool(ok_p)), replay=lambda model: replay_masses(),
                 meta={"label": "primitive cell receives (a copy of) the masses given"})
    # supercell: [p_masses[p2p_map[x]] for x in s2p_map]  ->  take(p_masses, <list over s2p_map>)
    ok_s = isinstance(sm, Opaque) and isinstance(sm.idx, tuple) and sm.idx[0] == "take"
    run.sink.add(pref, "post", got["supercell"][1], z3.BoolVal(bool(ok_s)), replay=lambda model: replay_masses(),
                 meta={"label": "supercell receives the primitive masses gathered through an index list (got index function %r)" % (getattr(sm, "idx", None),)})
    ok_u = isinstance(um, Opaque) and isinstance(um.idx, tuple) and um.idx[0] == "take" and um.idx[2] == u2s.id and um.idx[1] == getattr(sm, "idx", None)
    run.sink.add(pref, "post", got["unitcell"][1], z3.BoolVal(bool(ok_u)), replay=lambda model: replay_masses(),
                 meta={"label": "unit cell receives s_masses[u2s_map] (got index function %r)" % (getattr(um, "idx", None),)})
    run.functions.append({"file": AF, "function": "Phonopy.masses.setter[index functions]", "line": m.lineno, "sha1": mod.sha(m), "obligations": len(run.sink.obls) - n0})


def replay_masses():
    from pvc import creplay
    import json
    code = r'''
import json
import numpy as np
import phonopy.api_phonopy as api
class Cell:
    def __init__(self, **k): self.__dict__.update(k); self.m = None
    def set_masses(self, m): self.m = np.array(m)
# unit cell Na Cl, 2 unit cells in the supercell: supercell order Na Na' Cl Cl'; primitive = unit cell
prim = Cell(p2p_map={0: 0, 2: 1}, s2p_map=[0, 0, 2, 2])
sup = Cell(u2s_map=np.array([0, 2]), u2u_map={0: 0, 2: 1})
unit = Cell()
o = api.Phonopy.__new__(api.Phonopy)
o._primitive, o._supercell, o._unitcell, o._force_constants = prim, sup, unit, None
o.masses = [23.0, 35.5]
print(json.dumps({"primitive": prim.m.tolist(), "supercell": sup.m.tolist(), "unitcell": unit.m.tolist()}))
'''
    rc, out, err = creplay.py_eval(code)
    if rc != 0:
        return {"reproduced": False, "reason": err[-400:]}
    r = json.loads(out.strip().splitlines()[-1])
    ok = r["primitive"] == [23.0, 35.5] and r["supercell"] == [23.0, 23.0, 35.5, 35.5] and r["unitcell"] == [23.0, 35.5]
    return {"reproduced": not ok, "real_code": r, "expected": {"primitive": [23.0, 35.5], "supercell": [23.0, 23.0, 35.5, 35.5], "unitcell": [23.0, 35.5]}}


def dataset_setter_copies(run):
    """Phonopy.dataset setter: a type-1 dataset ('first_atoms') handed in by the caller is deep-copied, so that later writes of
    forces / energies into the stored dataset never reach the caller's (or another object's) dictionaries."""
    mod = pyexec.load(AF)
    m = _find(mod, "Phonopy", "dataset", setter=True)
    pref = AF + ":Phonopy.dataset.setter"
    st = PState()
    given = Opaque("dataset given by the caller")
    marks = []

    def deepcopy(ex, st_, args, kwargs):
        r = Opaque("deep copy of " + args[0].why) if isinstance(args[0], Opaque) else Opaque("deep copy")
        marks.append((r, args[0]))
        return r
    self_ref = st.new(Record("Phonopy", {"_dataset": None, "_supercells_with_displacements": Opaque("old displaced supercells")}))
    ex = PyExec(mod, run.sink, pref, hooks={"copy.deepcopy": deepcopy}, opaque_unknown=True, split=True)
    n0 = len(run.sink.obls)
    outs = ex.call_function(st, m, [given], self_ref=self_ref, cls="Phonopy")
    n = 0
    for (s2, fl, v) in outs:
        if fl != "return":
            continue
        ds = s2.heap[self_ref.id].attrs.get("_dataset")
        if ds is None or isinstance(ds, dict):
            continue           # dataset None, or the type-2 branch that rebuilds the dictionary through the displacements/forces setters
        n += 1
        ok = any(ds is r and src is given for (r, src) in marks)
        run.sink.add(pref, "ownership", list(s2.pc), z3.BoolVal(bool(ok)), replay=lambda model: replay_dataset(),
                     meta={"label": "the stored type-1 dataset is copy.deepcopy(dataset) (stored: %r)" % (ds,)})
        run.sink.add(pref, "post", list(s2.pc), z3.BoolVal(s2.heap[self_ref.id].attrs.get("_supercells_with_displacements") is None),
                     meta={"label": "displaced supercells are invalidated when the dataset is replaced"})
    if n == 0:
        raise CheckerError("dataset setter: no path stores a caller dataset")
    run.functions.append({"file": AF, "function": "Phonopy.dataset.setter", "line": m.lineno, "sha1": mod.sha(m), "obligations": len(run.sink.obls) - n0})


def replay_dataset():
    from pvc import creplay
    import json
    code = r'''
import json
import numpy as np
import phonopy.api_phonopy as api
o = api.Phonopy.__new__(api.Phonopy)
o._dataset = None; o._supercells_with_displacements = "old"
ds = {"natom": 2, "first_atoms": [{"number": 0, "displacement": [0.01, 0, 0]}]}
o.dataset = ds
o._dataset["first_atoms"][0]["forces"] = np.zeros((2, 3))
print(json.dumps({"caller_dataset_gained_forces": "forces" in ds["first_atoms"][0], "displaced_supercells": o._supercells_with_displacements}))
'''
    rc, out, err = creplay.py_eval(code)
    if rc != 0:
        return {"reproduced": False, "reason": err[-400:]}
    r = json.loads(out.strip().splitlines()[-1])
    return {"reproduced": r["caller_dataset_gained_forces"] or r["displaced_supercells"] is not None, "real_code": r,
            "expected": "writing into the stored dataset does not change the caller's; displaced supercells reset"}
