"""C20 — equations of state: the three closures of phonopy/qha/eos.py:get_eos are extracted by symbolic
execution and differentiated mechanically; obligations: E(V0)=E0, E'(V0)=0, V0 E''(V0)=B0,
-1 - V0 E'''(V0)/E''(V0) = B0' (from B = V E'', P = -E', B' = dB/dP)."""
import sympy as sp
import z3

from pvc import cas, pyexec
from pvc.core import CheckerError
from pvc.pyexec import PyExec, PState, Closure

EF = "phonopy/qha/eos.py"


def build(run):
    mod = pyexec.load(EF)
    fn = mod.funcs["get_eos"]
    v = z3.Real("v")
    P = [z3.Real(n) for n in ("E0", "B0", "B0p", "V0")]
    pos = {sp.Symbol(n, real=True): sp.Symbol(n, positive=True) for n in ("v", "E0", "B0", "B0p", "V0")}
    vs, E0, B0, B0p, V0 = (sp.Symbol(n, positive=True) for n in ("v", "E0", "B0", "B0p", "V0"))
    pref = "lemma:C20:eos"
    for name in ("vinet", "birch_murnaghan", "murnaghan"):
        ex = PyExec(mod, run.sink, "%s:get_eos[%s]" % (EF, name))
        st = PState()
        st.pc.extend([v > 0, P[1] > 0, P[3] > 0, P[2] > 1])
        outs = ex.call_function(st, fn, [name])
        clo = outs[0][2]
        if not isinstance(clo, Closure) or clo.node.name != name:
            raise CheckerError("get_eos(%r) did not return the closure %s" % (name, name))
        n0 = len(run.sink.obls)
        outs = ex.call_function(st.clone(), clo.node, [v] + P, env=clo.env)
        if len(outs) != 1 or outs[0][1] != "return":
            raise CheckerError("eos %s: expected one return" % name)
        E = cas.to_sympy(pyexec.num(outs[0][2])).subs(pos)
        run.functions.append({"file": EF, "function": "get_eos.%s" % name, "line": clo.node.lineno, "sha1": mod.sha(clo.node),
                              "obligations": len(run.sink.obls) - n0})
        d1, d2, d3 = sp.diff(E, vs), sp.diff(E, vs, 2), sp.diff(E, vs, 3)
        at = {vs: V0}
        run.lemma(pref, "eos", "%s: E(V0) == E0" % name, [], None, backend="poly", pairs=[(sp.srepr(E.subs(at)), sp.srepr(E0))])
        run.lemma(pref, "eos", "%s: zero pressure at V0 (E'(V0) == 0)" % name, [], None, backend="poly", pairs=[(sp.srepr(d1.subs(at)), sp.srepr(sp.Integer(0)))])
        run.lemma(pref, "eos", "%s: bulk modulus V0 E''(V0) == B0" % name, [], None, backend="poly", pairs=[(sp.srepr(V0 * d2.subs(at)), sp.srepr(B0))])
        run.lemma(pref, "eos", "%s: pressure derivative -1 - V0 E'''(V0)/E''(V0) == B0'" % name, [], None, backend="poly",
                  pairs=[(sp.srepr(-1 - V0 * d3.subs(at) / d2.subs(at)), sp.srepr(B0p))])
    # the default branch: any other string gives vinet
    ex = PyExec(mod, run.sink, "%s:get_eos[default]" % EF)
    outs = ex.call_function(PState(), fn, ["something else"])
    run.lemma(pref, "eos", "get_eos(other) falls back to vinet", [], z3.BoolVal(isinstance(outs[0][2], Closure) and outs[0][2].node.name == "vinet"))
