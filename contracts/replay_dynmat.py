"""Replay harnesses for the c/dynmat.c and c/derivative_dynmat.c kernels: the REAL compiled functions (gcc build of /repo/c with
-Dstatic=, ctypes) are run on random well-formed inputs and compared with a numpy transcription of the spec functions of
contracts/c_dynmat.py (lattice Fourier sum with multiplicity average, Hermitian part).  Used only to replay a failed or
no-longer-provable obligation of a helper that has no input generator of its own; never to prove anything."""
import ctypes

import numpy as np


def _inputs(rng, nac=False):
    np_ = int(rng.integers(1, 3))
    ncell = int(rng.integers(1, 4))
    ns = np_ * ncell
    # supercell atoms in arbitrary (interleaved) order: atom k is an image of primitive atom s2pp[k]
    s2pp = rng.permutation(np.repeat(np.arange(np_, dtype="int64"), ncell))
    p2s = np.array([int(np.where(s2pp == j)[0][0]) for j in range(np_)], dtype="int64")
    s2p = p2s[s2pp]
    multi = np.zeros((ns, np_, 2), dtype="int64")
    rows = []
    for k in range(ns):
        for i in range(np_):
            m = int(rng.integers(1, 4))
            multi[k, i] = (m, len(rows))
            base = rng.normal(size=3)
            for l in range(m):
                rows.append(base + rng.integers(-1, 2, size=3))
    svecs = np.array(rows, dtype="double")
    fc = rng.normal(size=(ns, ns, 3, 3))
    mass = rng.uniform(1.0, 5.0, size=np_)
    q = rng.uniform(-0.5, 0.5, size=3)
    return dict(np_=np_, ns=ns, p2s=p2s, s2p=s2p, s2pp=s2pp, multi=multi, svecs=svecs, fc=fc, mass=mass, q=q)


def dspec(d, q=None, charge_sum=None):
    """herm of the multiplicity-averaged lattice Fourier sum (complex (3np, 3np))"""
    q = d["q"] if q is None else q
    np_, ns = d["np_"], d["ns"]
    D = np.zeros((3 * np_, 3 * np_), dtype=complex)
    for i in range(np_):
        for j in range(np_):
            blk = np.zeros((3, 3), dtype=complex)
            for k in range(ns):
                if d["s2p"][k] != d["p2s"][j]:
                    continue
                m, a = d["multi"][k, i]
                ph = np.exp(2j * np.pi * (d["svecs"][a:a + m] @ q)).mean()
                fce = d["fc"][d["p2s"][i], k] + (charge_sum[i, j] if charge_sum is not None else 0)
                blk += fce * ph
            D[3 * i:3 * i + 3, 3 * j:3 * j + 3] = blk / np.sqrt(d["mass"][i] * d["mass"][j])
    return (D + D.conj().T) / 2


def _p(a):
    return a.ctypes.data_as(ctypes.c_void_p)


def replay_at_q(trials=40, seed=0):
    from pvc import creplay
    lib = creplay.lib("dynmat")
    f = lib.dym_get_dynamical_matrix_at_q
    f.restype = ctypes.c_int64
    rng = np.random.default_rng(seed)
    for t in range(trials):
        d = _inputs(rng)
        for omp in (0, 1):
            out = np.zeros((3 * d["np_"], 3 * d["np_"], 2))
            f(_p(out), ctypes.c_int64(d["np_"]), ctypes.c_int64(d["ns"]), _p(d["fc"]), _p(d["q"]), _p(d["svecs"]), _p(d["multi"]), _p(d["mass"]),
              _p(d["s2p"]), _p(d["p2s"]), None, ctypes.c_int64(omp))
            got = out[..., 0] + 1j * out[..., 1]
            want = dspec(d)
            err = float(np.abs(got - want).max())
            if err > 1e-9:
                return {"reproduced": True, "real_code": {"function": "dym_get_dynamical_matrix_at_q", "use_openmp": omp, "max_abs_deviation_from_herm_Dspec": err,
                                                          "num_patom": d["np_"], "num_satom": d["ns"], "q": d["q"].tolist(), "multiplicities": d["multi"][..., 0].tolist()},
                        "expected": "output == Hermitian part of the multiplicity-averaged lattice Fourier sum"}
    return {"reproduced": False, "executions": 2 * trials, "reason": "real kernel agrees with the spec on %d random inputs" % (2 * trials)}


def replay_want(trials=40, seed=0):
    from pvc import creplay
    lib = creplay.lib("dynmat")
    f = lib.get_dynmat_want
    f.restype = None
    rng = np.random.default_rng(seed)
    for t in range(trials):
        d = _inputs(rng)
        born = rng.normal(size=(d["np_"], 3, 3))
        eps = np.eye(3) * 3 + 0.2 * rng.normal(size=(3, 3))
        rec = np.eye(3) + 0.1 * rng.normal(size=(3, 3))
        fac = float(rng.uniform(0.5, 2.0))
        for mode in ("finite q", "gamma+direction", "gamma"):
            q = d["q"] if mode == "finite q" else np.zeros(3)
            qdir = rng.normal(size=3) if mode == "gamma+direction" else None
            qdc = rec @ qdir if qdir is not None else None
            out = np.zeros((3 * d["np_"], 3 * d["np_"], 2))
            f(_p(out), _p(q), _p(d["fc"]), _p(d["svecs"]), _p(d["multi"]), ctypes.c_int64(d["np_"]), ctypes.c_int64(d["ns"]), _p(d["mass"]),
              _p(d["p2s"]), _p(d["s2p"]), _p(born), _p(eps), _p(rec), _p(qdir) if qdir is not None else None, _p(qdc) if qdc is not None else None,
              ctypes.c_double(fac), ctypes.c_double(1e-5))
            got = out[..., 0] + 1j * out[..., 1]
            n = rec @ q if mode == "finite q" else qdc
            cs = None
            if n is not None:
                ncell = d["ns"] // d["np_"]
                cs = np.zeros((d["np_"], d["np_"], 3, 3))
                for i in range(d["np_"]):
                    for j in range(d["np_"]):
                        cs[i, j] = np.outer(n @ born[i], n @ born[j]) * fac / ncell / (n @ eps @ n)
            want = dspec(d, q=q, charge_sum=cs)
            err = float(np.abs(got - want).max())
            if err > 1e-9:
                return {"reproduced": True, "real_code": {"function": "get_dynmat_want", "case": mode, "max_abs_deviation": err, "q": q.tolist(),
                                                          "q_direction": None if qdir is None else qdir.tolist()},
                        "expected": "herm(Dspec(q) + charge-sum term along n), n = Cartesian q or the given direction at Gamma"}
    return {"reproduced": False, "executions": 3 * trials, "reason": "real kernel agrees with the spec"}


def replay_d2f(trials=40, seed=0):
    from pvc import creplay
    lib = creplay.lib("dynmat")
    f = lib.dym_transform_dynmat_to_fc
    f.restype = None
    rng = np.random.default_rng(seed)
    for t in range(trials):
        d = _inputs(rng)
        np_, ns = d["np_"], d["ns"]
        N = ns // np_
        comm = rng.uniform(-0.5, 0.5, size=(N, 3))
        dm = rng.normal(size=(N, 3 * np_, 3 * np_, 2))
        s2pp = d["s2pp"]
        for full in (True, False):
            nrow = ns if full else np_
            idx = d["p2s"].copy() if full else np.arange(np_, dtype="int64")
            for omp in (0, 1):
                fc = np.zeros((nrow, ns, 3, 3))          # precondition of the contract: the Python layer passes a zeroed array
                before = fc.copy()
                f(_p(fc), _p(dm), _p(comm), _p(d["svecs"]), _p(d["multi"]), _p(d["mass"]), _p(s2pp), _p(idx), ctypes.c_int64(np_), ctypes.c_int64(ns), ctypes.c_int64(omp))
                want = before.copy()
                want.reshape(-1)[:np_ * ns * 9] = 0
                for i in range(np_):
                    for j in range(ns):
                        jp = s2pp[j]
                        m, a = d["multi"][j, i]
                        blk = np.zeros((3, 3))
                        for kq in range(N):
                            ph = np.exp(-2j * np.pi * (d["svecs"][a:a + m] @ comm[kq])).mean()
                            dmk = dm[kq, 3 * i:3 * i + 3, 3 * jp:3 * jp + 3, 0] + 1j * dm[kq, 3 * i:3 * i + 3, 3 * jp:3 * jp + 3, 1]
                            blk += (dmk * ph).real
                        want[idx[i], j] = blk * np.sqrt(d["mass"][i] * d["mass"][jp]) / N
                err = float(np.abs(fc - want).max())
                if err > 1e-9:
                    return {"reproduced": True, "real_code": {"function": "dym_transform_dynmat_to_fc", "use_openmp": omp, "full_fc": full, "max_abs_deviation": err,
                                                              "num_patom": np_, "num_satom": ns},
                            "expected": "fc[fc_index_map[i], j] == (sqrt(m_i m_j')/N) sum_k Re(dm_k[i, j'] mean_l exp(-2 pi i q_k . s_l)); other rows unchanged"}
    return {"reproduced": False, "executions": 4 * trials, "reason": "real kernel agrees with the spec"}


def replay_ddm(trials=30, seed=0):
    """ddm_get_derivative_dynmat_at_q without NAC against a central finite difference of herm(Dspec) in Cartesian q"""
    from pvc import creplay
    lib = creplay.lib("phonopy")
    f = lib.ddm_get_derivative_dynmat_at_q
    f.restype = None
    rng = np.random.default_rng(seed)
    for t in range(trials):
        d = _inputs(rng)
        np_, ns = d["np_"], d["ns"]
        lat = np.eye(3) * 3 + rng.normal(size=(3, 3)) * 0.4            # column vectors
        rec = np.linalg.inv(lat)                                       # reciprocal basis as columns of inv(lat).T ... passed as documented: column vectors
        for omp in (0, 1):
            out = np.zeros((3, 3 * np_, 3 * np_, 2))
            f(_p(out), ctypes.c_int64(np_), ctypes.c_int64(ns), _p(d["fc"]), _p(d["q"]), _p(np.ascontiguousarray(lat)), _p(np.ascontiguousarray(rec.T)),
              _p(d["svecs"]), _p(d["multi"]), _p(d["mass"]), _p(d["s2p"]), _p(d["p2s"]), ctypes.c_double(0.0), None, None, None, ctypes.c_int64(0), ctypes.c_int64(omp))
            got = out[..., 0] + 1j * out[..., 1]
            h = 1e-5
            worst = 0.0
            for c in range(3):
                e = np.zeros(3)
                e[c] = h
                # Cartesian displacement e of q (in units where q_cart = (lat^-1)^T q): dq_red = lat^T e
                dq = lat.T @ e
                num = (dspec(d, q=d["q"] + dq) - dspec(d, q=d["q"] - dq)) / (2 * h)
                worst = max(worst, float(np.abs(got[c] - num).max()) / max(1.0, float(np.abs(num).max())))
            if worst > 1e-4:
                return {"reproduced": True, "real_code": {"function": "ddm_get_derivative_dynmat_at_q", "use_openmp": omp, "relative_deviation_from_finite_difference": worst,
                                                          "lattice_columns": lat.tolist(), "q": d["q"].tolist()},
                        "expected": "each Cartesian component equals the q-derivative of herm(Dspec)"}
    return {"reproduced": False, "executions": 2 * trials, "reason": "real kernel agrees with the finite difference of the spec"}


def replay_get_dd(trials=60, seed=0):
    """real get_dd (Gonze-Lee reciprocal sum) against its spec, including K = G + q shorter / just longer than the tolerance"""
    from pvc import creplay
    lib = creplay.lib("dynmat")
    f = lib.get_dd
    f.restype = None
    rng = np.random.default_rng(seed)
    for t in range(trials):
        n = int(rng.integers(1, 3))
        nG = int(rng.integers(1, 5))
        G = rng.normal(size=(nG, 3))
        G[0] = 0.0                                        # the G = 0 term decides the zone-centre behaviour
        eps = np.eye(3) * 3 + 0.2 * rng.normal(size=(3, 3))
        eps = (eps + eps.T) / 2
        pos = rng.uniform(size=(n, 3))
        lam = float(rng.uniform(0.5, 2.0))
        tol = 1e-5
        scale = [0.0, 3e-6, 1e-4, 1e-3, 0.3][int(rng.integers(0, 5))]
        q = rng.normal(size=3)
        q = q / np.linalg.norm(q) * scale
        for with_dir in (False, True):
            qd = rng.normal(size=3) if with_dir else None
            old = rng.normal(size=(n, 3, n, 3, 2))
            dd = old.copy()
            for omp in (0, 1):
                dd = old.copy()
                f(_p(dd), _p(G), ctypes.c_int64(nG), ctypes.c_int64(n), _p(q), _p(qd) if qd is not None else None, _p(eps), _p(pos),
                  ctypes.c_double(lam), ctypes.c_double(tol), ctypes.c_int64(omp))
                want = old.copy()
                for g in range(nG):
                    K = G[g] + q
                    if np.sqrt(K @ K) < tol:
                        KK = np.zeros((3, 3)) if qd is None else np.outer(qd, qd) / (qd @ eps @ qd)
                    else:
                        keK = K @ eps @ K
                        KK = np.outer(K, K) / keK * np.exp(-keK / (4 * lam * lam))
                    for i in range(n):
                        for j in range(n):
                            ph = 2 * np.pi * ((pos[i] - pos[j]) @ G[g])
                            want[i, :, j, :, 0] += KK * np.cos(ph)
                            want[i, :, j, :, 1] += KK * np.sin(ph)
                err = float(np.abs(dd - want).max())
                if err > 1e-9:
                    return {"reproduced": True, "real_code": {"function": "get_dd", "max_abs_deviation": err, "|q_cart|": float(np.linalg.norm(q)), "tolerance": tol,
                                                              "q_direction_given": with_dir, "use_openmp": omp, "num_G": nG, "num_patom": n},
                            "expected": "sum over G of K K^T/(K.eps.K) exp(-K.eps.K/4 lambda^2) e^{2 pi i (x_i - x_j).G}, the |K| < tolerance term replaced by the direction term (or dropped)"}
    return {"reproduced": False, "executions": 4 * trials, "reason": "real kernel agrees with the spec"}
