"""C14 — access paths report the same phonons (Python side)."""
import ast

import z3

from pvc import pyexec
from pvc.core import CheckerError
from pvc.pyexec import PyExec, PState, Record, Opaque

MF = "phonopy/phonon/mesh.py"


def itermesh_next(run):
    """IterMesh.__next__ for both values of with_eigenvectors: returns normally (or StopIteration at the end),
    never UnboundLocalError, and the frequency expression is sqrt|e| sign(e) factor."""
    mod = pyexec.load(MF)
    m = mod.method("IterMesh", "__next__")
    pref = MF + ":IterMesh.__next__"
    hooks = {}
    ex = PyExec(mod, run.sink, pref, hooks=hooks, opaque_unknown=True, split=True)
    st = PState()
    with_ev = z3.Bool("with_eigenvectors")
    self_ref = st.new(Record("IterMesh", {"_q_count": z3.Int("q_count"), "_qpoints": Opaque("qpoints"),
                                          "_dynamical_matrix": Opaque("dynamical matrix object"),
                                          "_with_eigenvectors": with_ev, "_factor": z3.Real("factor")}))
    n0 = len(run.sink.obls)
    outs = ex.call_function(st, m, [], self_ref=self_ref, cls="IterMesh")
    kinds = sorted({o[1] for o in outs})
    run.functions.append({"file": MF, "function": "IterMesh.__next__", "line": m.lineno, "sha1": mod.sha(m),
                          "obligations": len(run.sink.obls) - n0})
    for ob in run.sink.obls[n0:]:
        if ob.kind == "unbound":
            ob.meta["witness"] = {"with_eigenvectors": z3.If(with_ev, z3.IntVal(1), z3.IntVal(0))}
            ob.replay = replay_itermesh
    if len(run.sink.obls) == n0:
        ob = run.sink.add(pref, "unbound", [], z3.BoolVal(True), meta={"label": "every local is bound on every path (%d paths: %s)" % (len(outs), kinds)})
        ob.status = "discharged"
        ob.solver = "path enumeration"
    run.abstracted += sorted(set(ex.abstracted))[:20]


def replay_itermesh(model):
    from pvc import creplay
    code = '''
import numpy as np
from phonopy.phonon.mesh import IterMesh
class DM:
    dynamical_matrix = np.eye(3, dtype=complex)
    def run(self, q): pass
it = IterMesh.__new__(IterMesh)
it._q_count = 0; it._qpoints = np.zeros((1, 3)); it._dynamical_matrix = DM(); it._with_eigenvectors = False; it._factor = 1.0
try:
    print("returned", it.__next__())
except UnboundLocalError as e:
    print("UnboundLocalError", e)
'''
    rc, out, err = creplay.py_eval(code)
    return {"reproduced": "UnboundLocalError" in out, "input": {"with_eigenvectors": False}, "real_code": out[-300:] or err[-300:],
            "expected": "iterating a mesh without eigenvectors yields (frequencies, None)"}


AF = "phonopy/api_phonopy.py"


def init_mesh_args(run):
    """Phonopy.init_mesh: the stored (Mesh) and the iterated (IterMesh) mesh must be constructed from the same
    values for every parameter they have in common, for a mesh given as three numbers and as a length."""
    mod = pyexec.load(AF)
    m = mod.method("Phonopy", "init_mesh")
    for scen in ("mesh=(n1,n2,n3)", "mesh=length"):
        pref = "%s:Phonopy.init_mesh[%s]" % (AF, scen)
        captured = {}

        def mk(name):
            def hook(ex, st, args, kwargs):
                captured[name] = (list(args), dict(kwargs), list(st.pc))
                return st.new(Record(name, {}))
            return hook
        shape = (z3.IntVal(3),) if scen.startswith("mesh=(") else ()
        hooks = {"new:IterMesh": mk("IterMesh"), "new:Mesh": mk("Mesh"),
                 "numpy.array": lambda ex, st, args, kwargs: st.new(Record("ndarray", {"shape": shape})),
                 "new:length2mesh": lambda ex, st, args, kwargs: tuple(z3.Int("len_mesh_%d" % i) for i in range(3))}
        ex = PyExec(mod, run.sink, pref, hooks=hooks, opaque_unknown=True, split=True)
        st = PState()
        pg = Opaque("point-group operations of the primitive cell")
        sym = st.new(Record("Symmetry", {"pointgroup_operations": pg}))
        prim = st.new(Record("Primitive", {"cell": Opaque("cell")}))
        self_ref = st.new(Record("Phonopy", {"_dynamical_matrix": Opaque("dm"), "_primitive_symmetry": sym, "_primitive": prim,
                                             "_group_velocity": Opaque("gv"), "_factor": z3.Real("factor"), "_mesh": None}))
        mesh = tuple(z3.Int("mesh_%d" % i) for i in range(3)) if shape else z3.Real("mesh_length")
        kw = {"shift": Opaque("shift"), "is_time_reversal": z3.Bool("is_time_reversal"), "is_mesh_symmetry": z3.Bool("is_mesh_symmetry"),
              "with_eigenvectors": z3.Bool("with_eigenvectors"), "with_group_velocities": False,
              "is_gamma_center": z3.Bool("is_gamma_center"), "use_iter_mesh": z3.Bool("use_iter_mesh")}
        n0 = len(run.sink.obls)
        ex.call_function(st, m, [mesh], kw, self_ref=self_ref, cls="Phonopy")
        if set(captured) != {"IterMesh", "Mesh"}:
            raise CheckerError("init_mesh[%s]: constructor calls found: %s" % (scen, sorted(captured)))
        (ia, ik, ipc), (ma, mk_, mpc) = captured["IterMesh"], captured["Mesh"]
        # both paths start from the same symbolic inputs; use_iter_mesh is the only difference in their conditions
        hy = [h for h in ipc if "use_iter_mesh" not in str(h)]
        for k in sorted(set(ik) & set(mk_)):
            a, b = ik[k], mk_[k]
            if isinstance(a, Opaque) or isinstance(b, Opaque):
                goal = z3.BoolVal(a is b)
            elif isinstance(a, (bool, int)) or isinstance(b, (bool, int)) or (pyexec.is_sym(a) and z3.is_bool(a)) or (pyexec.is_sym(b) and z3.is_bool(b)):
                goal = pyexec.truth(a) == pyexec.truth(b)
            else:
                x, y = pyexec.both_real(a, b)
                goal = x == y
            ob = run.sink.add(pref, "equiv", hy, goal, meta={"label": "IterMesh and Mesh receive the same '%s'" % k})
            ob.meta["witness"] = {"is_gamma_center": z3.If(z3.Bool("is_gamma_center"), z3.IntVal(1), z3.IntVal(0))}
            ob.replay = replay_init_mesh
        for cname in ("Mesh", "IterMesh"):
            got = captured[cname][1].get("rotations")
            run.sink.add(pref, "call-pre", list(captured[cname][2]), z3.BoolVal(got is pg), replay=replay_init_mesh_rotations, meta={
                "label": "%s samples the primitive cell's reciprocal mesh, so it receives the primitive cell's point-group operations, unchanged (got %r)" % (cname, got)})
        for idx, (a, b) in enumerate(zip(ia, ma)):
            same = (a is b) or (isinstance(a, tuple) and isinstance(b, tuple) and all((x is y) or (pyexec.is_sym(x) and x.eq(y)) for x, y in zip(a, b)))
            run.sink.add(pref, "equiv", hy, z3.BoolVal(bool(same)), meta={"label": "IterMesh and Mesh receive the same positional argument %d" % idx})
        run.functions.append({"file": AF, "function": "Phonopy.init_mesh[%s]" % scen, "line": m.lineno, "sha1": mod.sha(m),
                              "obligations": len(run.sink.obls) - n0})
        run.abstracted += sorted(set(ex.abstracted))[:20]


def replay_init_mesh_rotations(model):
    """real Phonopy.init_mesh, constructors intercepted: which rotations does each mesh class get?"""
    from pvc import creplay
    import json
    code = '''
import json, numpy as np
import phonopy.api_phonopy as api
got = {}
class FakeMesh:
    def __init__(self, *a, **k): got["Mesh"] = k.get("rotations")
class FakeIter:
    def __init__(self, *a, **k): got["IterMesh"] = k.get("rotations")
api.Mesh, api.IterMesh = FakeMesh, FakeIter
class Sym:
    def __init__(self, tag): self.pointgroup_operations = np.eye(3, dtype=int)[None] * tag
class Prim: cell = np.eye(3)
ph = api.Phonopy.__new__(api.Phonopy)
ph._dynamical_matrix = object(); ph._primitive_symmetry = Sym(1); ph._symmetry = Sym(2); ph._primitive = Prim(); ph._group_velocity = None; ph._factor = 1.0
ph.init_mesh(mesh=[4, 4, 4], use_iter_mesh=False)
ph.init_mesh(mesh=[4, 4, 4], use_iter_mesh=True)
print(json.dumps({k: bool(v is ph._primitive_symmetry.pointgroup_operations) for k, v in got.items()}))
'''
    rc, out, err = creplay.py_eval(code)
    if rc != 0:
        return {"reproduced": False, "reason": err[-400:]}
    r = json.loads(out.strip().splitlines()[-1])
    return {"reproduced": not all(r.values()), "real_code": {"receives_primitive_point_group": r},
            "expected": "Mesh and IterMesh receive Phonopy._primitive_symmetry.pointgroup_operations"}


def replay_init_mesh(model):
    """real classes, constructors intercepted: which is_gamma_center does each of them get for a length-specified mesh?"""
    from pvc import creplay
    code = '''
import json, numpy as np
import phonopy.api_phonopy as api
got = {}
class FakeMesh:
    def __init__(self, *a, **k): got["Mesh"] = k.get("is_gamma_center")
class FakeIter:
    def __init__(self, *a, **k): got["IterMesh"] = k.get("is_gamma_center")
api.Mesh, api.IterMesh = FakeMesh, FakeIter
api.length2mesh = lambda *a, **k: [4, 4, 4]
class Sym: pointgroup_operations = np.eye(3, dtype=int)[None]
class Prim: cell = np.eye(3)
ph = api.Phonopy.__new__(api.Phonopy)
ph._dynamical_matrix = object(); ph._primitive_symmetry = Sym(); ph._primitive = Prim(); ph._group_velocity = None; ph._factor = 1.0
ph.init_mesh(mesh=50.0, is_gamma_center=False, use_iter_mesh=False)
ph.init_mesh(mesh=50.0, is_gamma_center=False, use_iter_mesh=True)
print(json.dumps(got))
'''
    rc, out, err = creplay.py_eval(code)
    if rc != 0:
        return {"reproduced": False, "reason": err[-400:]}
    import json
    got = json.loads(out.strip().splitlines()[-1])
    return {"reproduced": got.get("Mesh") != got.get("IterMesh"), "input": {"mesh": 50.0, "is_gamma_center": False},
            "real_code": got, "expected": "stored and iterated mesh are built with the same is_gamma_center"}


QF = "phonopy/phonon/qpoints.py"


def qpoints_ownership(run):
    """QpointsPhonon._run: the dynamical matrices handed out must be the ones computed, whichever other outputs
    were requested and whether or not the extension was built with OpenMP (buffer-ownership obligation)."""
    mod = pyexec.load(QF)
    m = mod.method("QpointsPhonon", "_run")
    pref = QF + ":QpointsPhonon._run"
    omp = z3.Bool("use_openmp")
    solver_calls = []

    def solver_hook(ex, st, args, kwargs):
        solver_calls.append((list(args), dict(kwargs), list(st.pc)))
        return Opaque("dynmat buffer of run_dynamical_matrix_solver_c")
    hooks = {"phonopy._phonopy.use_openmp": lambda ex, st, args, kwargs: omp,
             "run_dynamical_matrix_solver_c": solver_hook,
             "QpointsPhonon._get_dynamical_matrix": lambda ex, st, args, kwargs: Opaque("dynamical matrix of this q (new array per run)")}
    ex = PyExec(mod, run.sink, pref, hooks=hooks, opaque_unknown=True, split=True)
    st = PState()
    with_ev, with_dm = z3.Bool("with_eigenvectors"), z3.Bool("with_dynamical_matrices")
    self_ref = st.new(Record("QpointsPhonon", {
        "_gv_obj": None, "_qpoints": Opaque("qpoints"), "_nac_q_direction": Opaque("nac_q_direction"), "_natom": z3.Int("natom"),
        "_with_dynamical_matrices": with_dm, "_with_eigenvectors": with_ev, "_dynamical_matrix": Opaque("dynamical matrix object"),
        "_factor": z3.Real("factor"), "_frequencies": None, "_eigenvalues": None, "_eigenvectors": None, "_dynamical_matrices": None,
        "_group_velocities": None}))
    n0 = len(run.sink.obls)
    outs = ex.call_function(st, m, [], self_ref=self_ref, cls="QpointsPhonon")
    # plumbing: the compiled all-q solver must be given this object's dynamical matrix, q-points and NAC direction
    # (the per-q Python path applies nac_q_direction at Gamma; dropping it here changes the spectrum at Gamma)
    if not solver_calls:
        raise CheckerError("QpointsPhonon._run never calls run_dynamical_matrix_solver_c")
    rec0 = st.heap[self_ref.id].attrs
    for (a_, k_, pc_) in solver_calls[:1]:
        allargs = list(a_) + [k_.get("nac_q_direction")]
        want = [rec0["_dynamical_matrix"], rec0["_qpoints"], rec0["_nac_q_direction"]]
        for nm, w in zip(("dynamical matrix", "q-points", "nac_q_direction"), want):
            run.sink.add(pref, "plumbing", pc_, z3.BoolVal(any(x is w for x in allargs)),
                         meta={"label": "run_dynamical_matrix_solver_c receives this object's %s" % nm})
    own = [o for o in run.sink.obls[n0:] if o.kind == "ownership"]
    if not own:
        raise CheckerError("QpointsPhonon._run: no ownership obligation generated (has the output assembly changed?)")
    for ob in own:
        ob.meta["witness"] = {"use_openmp": z3.If(omp, z3.IntVal(1), z3.IntVal(0)), "with_eigenvectors": z3.If(with_ev, z3.IntVal(1), z3.IntVal(0))}
        ob.replay = replay_qpoints
    run.functions.append({"file": QF, "function": "QpointsPhonon._run", "line": m.lineno, "sha1": mod.sha(m),
                          "obligations": len(run.sink.obls) - n0})
    run.abstracted += sorted(set(ex.abstracted))[:20]


def replay_qpoints(model):
    """real QpointsPhonon._run with a stub extension that reports OpenMP and returns known dynamical matrices"""
    from pvc import creplay
    code = r'''
import sys, types, json
import numpy as np
stub = types.ModuleType("phonopy._phonopy")
stub.use_openmp = lambda: True
sys.modules["phonopy._phonopy"] = stub
import phonopy
phonopy._phonopy = stub
import phonopy.phonon.qpoints as qp
rng = np.random.default_rng(0)
def herm(n):
    a = rng.normal(size=(n, n)) + 1j * rng.normal(size=(n, n)); return (a + a.conj().T) / 2
truth = np.array([herm(3), herm(3)])
qp.run_dynamical_matrix_solver_c = lambda dm, q, d=None: truth.copy()
o = qp.QpointsPhonon.__new__(qp.QpointsPhonon)
o._gv_obj = None; o._qpoints = np.zeros((2, 3)); o._nac_q_direction = None; o._natom = 1
o._with_dynamical_matrices = True; o._with_eigenvectors = True; o._dynamical_matrix = None; o._factor = 1.0
o._run()
print(json.dumps({"max_abs_diff_reported_vs_computed": float(np.abs(o._dynamical_matrices - truth).max())}))
'''
    rc, out, err = creplay.py_eval(code)
    if rc != 0:
        return {"reproduced": False, "reason": err[-500:]}
    import json
    r = json.loads(out.strip().splitlines()[-1])
    return {"reproduced": r["max_abs_diff_reported_vs_computed"] > 1e-9, "input": {"use_openmp": True, "with_eigenvectors": True, "with_dynamical_matrices": True},
            "real_code": r, "expected": "reported dynamical matrices == computed dynamical matrices"}


BF = "phonopy/phonon/band_structure.py"


def band_connection_pairing(run):
    """BandStructure._solve_dm_on_path with band connection: eigenvalues, eigenvectors (columns!) and group velocities of a
    q-point are re-ordered by the same band order, so that reported eigenvector j still belongs to reported frequency j."""
    mod = pyexec.load(BF)
    m = mod.method("BandStructure", "_solve_dm_on_path")
    pref = BF + ":BandStructure._solve_dm_on_path"
    order = Opaque("band order")
    ev0, ec0 = ("base", "eigvals"), ("base", "eigvecs")
    hooks = {"numpy.linalg.eigh": lambda ex, st, args, kwargs: (Opaque("eigvals", idx=ev0), Opaque("eigvecs", idx=ec0)),
             "numpy.linalg.eigvalsh": lambda ex, st, args, kwargs: Opaque("eigvals", idx=ev0),
             "estimate_band_connection": lambda ex, st, args, kwargs: order,
             "BandStructure._shift_point": lambda ex, st, args, kwargs: None}
    ex = PyExec(mod, run.sink, pref, hooks=hooks, opaque_unknown=True, split=True)
    # band_order = range(len(eigvals)) at the first point: identity order; model it by the same abstract order object
    ex.hooks["range-of-len"] = None
    st = PState()
    gvobj = st.new(Record("GroupVelocity", {"group_velocities": Opaque("gv", idx=("base", "gv")), "run": None}))
    self_ref = st.new(Record("BandStructure", {"_group_velocity": None, "_dynamical_matrix": Opaque("dynamical matrix object"),
                                               "_with_eigenvectors": True, "_is_band_connection": True, "_distance": z3.Real("distance")}))
    n0 = len(run.sink.obls)
    outs = ex.call_function(st, m, [Opaque("path")], self_ref=self_ref, cls="BandStructure")
    checked = 0
    for (s2, fl, v) in outs:
        if fl != "return" or not isinstance(v, tuple):
            continue
        evs, ecs = s2.heap[v[1].id].items, s2.heap[v[2].id].items
        if not evs or not ecs:
            continue
        e, c = evs[-1], ecs[-1]
        ei, ci = getattr(e, "idx", None), getattr(c, "idx", None)
        if not (isinstance(ei, tuple) and ei[0] == "take"):
            continue      # first q-point of the path: band_order = range(n), the identity (no re-ordering)
        checked += 1
        oid = ei[2]
        run.sink.add(pref, "pairing", list(s2.pc), z3.BoolVal(ei == ("take", ev0, oid)),
                     meta={"label": "eigenvalues re-ordered by the band order"})
        run.sink.add(pref, "pairing", list(s2.pc), z3.BoolVal(ci == ("T", ("take", ("T", ec0), oid))),
                     meta={"label": "eigenvector COLUMNS re-ordered by the same band order as the eigenvalues"})
    if not checked:
        raise CheckerError("_solve_dm_on_path: no band-connection path explored")
    run.functions.append({"file": BF, "function": "BandStructure._solve_dm_on_path", "line": m.lineno, "sha1": mod.sha(m),
                          "obligations": len(run.sink.obls) - n0})
    run.abstracted += sorted(set(ex.abstracted))[:15]
