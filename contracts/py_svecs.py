"""Python glue around the shortest-vector kernels (phonopy/structure/cells.py), 3x3 numpy mini-model:
 - Primitive._get_smallest_vectors: supercell-coordinate vectors -> primitive-cell coordinates (C02/C03/C05)
 - ShortestPairs._transform_cell_basis / _run_dense / _run_sparse: what is handed to the kernels (C05)
Obligations are exact rational-function identities in the entries of the symbolic basis matrices (sympy back end)."""
import z3

from pvc import pyexec
from pvc.core import CheckerError
from pvc.pyexec import PyExec, PState, Record, NDArr, Opaque, Ref
from contracts.py_cells import mat3, vals

CF = "phonopy/structure/cells.py"


def _row(st, name, sort=z3.Real):
    return st.new(NDArr((1, 3), [sort("%s_%d" % (name, i)) for i in range(3)]))


def _matmul_row(v, M):
    """row vector (3 terms) times 3x3 (flat list)"""
    return [sum(v[k] * M[k * 3 + j] for k in range(3)) for j in range(3)]


def _rint_hook(assumed):
    def hook(ex, st, args, kwargs):
        a = args[0]
        nd = ex.to_nd(st, a) if isinstance(a, Ref) else None
        if nd is not None and nd.shape == (3, 3):
            # np.rint(M).astype(int) followed by `assert (abs(M - rint(M)) < 1e-8).all()`: on the path that passes the
            # code's own assert the matrix is taken to be equal to its rounding (A-RINT; otherwise the call is refused)
            assumed.append("A-RINT: a 3x3 float matrix the code asserts to be within 1e-8 of its rounding is taken equal to it")
            r = st.new(nd.clone())
            st.heap[r.id].integral = True
            return r
        if nd is None:
            raise CheckerError("rint of a non-array in the shortest-vector glue")
        out = []
        for x in nd.flat:
            n = z3.Int("rint!%d" % next(Ref._ids))
            st.pc.append(z3.And(pyexec.num(x) - z3.ToReal(n) <= z3.RealVal("1/2"), pyexec.num(x) - z3.ToReal(n) >= -z3.RealVal("1/2")))
            out.append(z3.ToReal(n))
        return st.new(NDArr(nd.shape, out))
    return hook


def primitive_svecs_transform(run):
    """Primitive._get_smallest_vectors: the returned vectors, read in the primitive basis, are the same Cartesian vectors
    as the ones get_smallest_vectors returned in the supercell basis:  (svecs_out . A_p) == (svecs_in . A_s),
    for the class invariant A_p = M^T A_s of Primitive (M = primitive_matrix; established by _trim_cell/TrimmedCell, C04)."""
    mod = pyexec.load(CF)
    pref = CF + ":Primitive._get_smallest_vectors"
    m = mod.method("Primitive", "_get_smallest_vectors")
    st = PState()
    As = mat3(st, "As")
    M = mat3(st, "M")
    Asv, Mv = list(vals(st, As)), list(vals(st, M))
    Apv = [sum(Mv[k * 3 + i] * Asv[k * 3 + j] for k in range(3)) for i in range(3) for j in range(3)]       # M^T A_s
    Ap = st.new(NDArr((3, 3), Apv))
    sv = _row(st, "sv")
    svv = list(vals(st, sv))
    assumed = []
    hooks = {"get_smallest_vectors": lambda ex, st_, args, kwargs: (sv, Opaque("multiplicity")), "numpy.rint": _rint_hook(assumed)}
    scell = st.new(Record("Supercell", {"cell": As, "scaled_positions": Opaque("supercell positions")}))
    self_ref = st.new(Record("Primitive", {"_cell": Ap, "_primitive_matrix": M, "_p2s_map": Opaque("p2s"), "_store_dense_svecs": True,
                                           "_symprec": z3.Real("symprec")}))
    ex = PyExec(mod, run.sink, pref, hooks=hooks, opaque_unknown=True, split=True)
    ex.assert_as_assume = True
    n0 = len(run.sink.obls)
    outs = ex.call_function(st, m, [scell], self_ref=self_ref, cls="Primitive")
    nret = 0
    for (s2, fl, v) in outs:
        if fl != "return":
            continue
        if not (isinstance(v, tuple) and isinstance(v[0], Ref) and isinstance(s2.heap[v[0].id], NDArr)):
            raise CheckerError("Primitive._get_smallest_vectors: returned vectors were abstracted: %r" % (v,))
        nret += 1
        got = [pyexec.num(x) for x in s2.heap[v[0].id].flat]
        lhs = _matmul_row(got, Apv)
        rhs = _matmul_row(svv, Asv)
        for j in range(3):
            ob = run.sink.add(pref, "post", list(s2.pc), lhs[j] == rhs[j],
                              meta={"label": "Cartesian component %d of a shortest vector is unchanged by the change to primitive coordinates" % j})
            ob.backend = "poly"
            ob.replay = lambda model: replay_primitive_transform()
    if nret == 0:
        raise CheckerError("Primitive._get_smallest_vectors: no returning path")
    run.functions.append({"file": CF, "function": "Primitive._get_smallest_vectors", "line": m.lineno, "sha1": mod.sha(m),
                          "obligations": len(run.sink.obls) - n0})
    run.assumptions += sorted(set(assumed))
    run.abstracted += sorted(set(ex.abstracted))[:5]


def replay_primitive_transform():
    """real method on a stand-in Primitive: non-symmetric primitive matrix, random supercell basis"""
    from pvc import creplay
    import json
    code = r'''
import json
import numpy as np
import phonopy.structure.cells as cells
rng = np.random.default_rng(1)
As = rng.normal(size=(3, 3)) + 3 * np.eye(3)
Tint = np.array([[2, 1, 0], [0, 2, 0], [1, -1, 2]])            # supercell = Tint (rows) x primitive lattice
Ap = np.linalg.solve(Tint, As)                                   # As = Tint Ap
M = np.linalg.inv(Tint).T                                        # class invariant Ap = M^T As
sv = rng.normal(size=(5, 3))
cells.get_smallest_vectors = lambda *a, **k: (sv.copy(), np.zeros((1, 1, 2), dtype="int64"))
class S:
    cell = As
    scaled_positions = np.zeros((4, 3))
p = cells.Primitive.__new__(cells.Primitive)
p._p2s_map = np.array([0]); p._cell = Ap; p._primitive_matrix = M; p._store_dense_svecs = True; p._symprec = 1e-5
out, _ = p._get_smallest_vectors(S())
print(json.dumps({"max_abs_cartesian_difference": float(np.abs(out @ Ap - sv @ As).max())}))
'''
    rc, out, err = creplay.py_eval(code)
    if rc != 0:
        return {"reproduced": False, "reason": err[-500:]}
    r = json.loads(out.strip().splitlines()[-1])
    return {"reproduced": r["max_abs_cartesian_difference"] > 1e-9, "real_code": r,
            "input": "supercell = [[2,1,0],[0,2,0],[1,-1,2]] x primitive lattice, random bases and vectors",
            "expected": "svecs_out . A_p == svecs_in . A_s"}


def _numeric_pick(term, cands, syms):
    """candidate that agrees with the term at two rational sample points of the basis entries (selection only;
    the chosen equality is then an obligation of its own)"""
    import random
    from fractions import Fraction
    rnd = random.Random(7)
    pts = []
    for _ in range(2):
        pts.append([(s_, z3.RealVal(str(Fraction(rnd.randint(-9, 9), rnd.randint(1, 5)) + (3 if i % 4 == 0 else 0))))
                    for i, s_ in enumerate(syms)])

    def val(t, pt):
        v_ = z3.simplify(z3.substitute(t, *pt))
        return v_.as_fraction() if z3.is_rational_value(v_) else None
    tv = [val(term, p_) for p_ in pts]
    if any(x is None for x in tv):
        return None
    for c, name in cands:
        if [val(c, p_) for p_ in pts] == tv:
            return c, name
    return None


def _expected_points():
    pts = set()
    for i in (-1, 0, 1):
        for j in (-1, 0, 1):
            for k in (-1, 0, 1):
                for l in (-1, 0, 1):
                    pts.add((i - l, j - l, k - l))
    return pts


def shortest_pairs_glue(run):
    """ShortestPairs._run_dense / _run_sparse: what the Python layer hands to the counting/filling kernels.
    For symbolic supercell basis A (rows), symbolic reduced basis R of the same lattice, one generic supercell atom and
    one generic primitive atom:
      lattice    the lattice points passed are the 65 points {(i-l, j-l, k-l)} (precondition of the completeness lemma)
      wrapped    both position arrays passed lie in [-1/2, 1/2]^3 (idem)
      metric     for every vector v:  reduced_basis_arg . v  ==  Cartesian(trans_mat_arg . v)  =  (trans_mat_arg . v) . A
      image      trans_mat_arg . (pos_to_arg - pos_from_arg + L) - (pos_super - pos_prim)  ==  trans_mat_arg . (L - n_s + n_p)
                 with n_s, n_p the integer wrap vectors: an integer combination of supercell lattice vectors
    The two calls of the dense variant (count, fill) receive identical arguments."""
    mod = pyexec.load(CF)
    for meth, kern in (("_run_dense", "gsv_set_smallest_vectors_dense"), ("_run_sparse", "gsv_set_smallest_vectors_sparse")):
        pref = CF + ":ShortestPairs." + meth
        m = mod.method("ShortestPairs", meth)
        st = PState()
        A = mat3(st, "A")
        R = mat3(st, "R")
        Av = list(vals(st, A))
        ps, pp = _row(st, "ps"), _row(st, "pp")
        psv, ppv = list(vals(st, ps)), list(vals(st, pp))
        assumed = []
        rints = []
        intmats = []
        base = _rint_hook(assumed)

        def rint(ex, st_, args, kwargs, base=base, rints=rints):
            r = base(ex, st_, args, kwargs)
            nd_in, nd_out = ex.to_nd(st_, args[0]), st_.heap[r.id]
            if nd_in.shape != (3, 3):
                rints.append((list(nd_in.flat), list(nd_out.flat)))
            else:
                intmats.append([pyexec.num(x) for x in nd_out.flat])
            return r
        calls = []

        def kernel(ex, st_, args, kwargs, calls=calls):
            calls.append((st_, list(args)))
            return None
        hooks = {"get_reduced_bases": lambda ex, st_, args, kwargs: R, "numpy.rint": rint, "phonopy._phonopy." + kern: kernel}
        self_ref = st.new(Record("ShortestPairs", {"_supercell_bases": A, "_supercell_pos": ps, "_primitive_pos": pp,
                                                   "_symprec": z3.Real("symprec")}))
        ex = PyExec(mod, run.sink, pref, hooks=hooks, opaque_unknown=False, split=True)
        ex.assert_as_assume = True
        n0 = len(run.sink.obls)
        outs = ex.call_function(st, m, [], self_ref=self_ref, cls="ShortestPairs")
        if not calls:
            raise CheckerError("%s: the kernel is never called" % pref)
        want_calls = 2 if meth == "_run_dense" else 1
        if len(calls) != want_calls * len([o for o in outs if o[1] == "return"]):
            raise CheckerError("%s: %d kernel calls on %d returning paths" % (pref, len(calls), len(outs)))
        v = [z3.Real("v_%d" % i) for i in range(3)]
        L = [z3.Int("L_%d" % i) for i in range(3)]
        first = None
        for (s2, args) in calls:
            def nd(x):
                o = s2.heap[x.id] if isinstance(x, Ref) else None
                if not isinstance(o, NDArr):
                    raise CheckerError("%s: kernel argument was abstracted: %r" % (pref, x))
                return o
            # (svecs, multi, pos_to, pos_from, lattice_points, reduced_basis, trans_mat, [initialize,] symprec)
            pos_to, pos_from, lat, rb, tm = nd(args[2]), nd(args[3]), nd(args[4]), nd(args[5]), nd(args[6])
            hy = list(s2.pc)
            pts = set()
            for r in range(lat.shape[0]):
                row = tuple(pyexec.concrete_int(lat.flat[r * 3 + c]) for c in range(3))
                pts.add(row)
            ok = (pts == _expected_points() and lat.shape == (65, 3))
            o = run.sink.add(pref, "call-pre", [], z3.BoolVal(bool(ok)), meta={"label": "lattice: the 65 points {(i-l, j-l, k-l): i,j,k,l in -1..1}, each once, are passed"})
            for nm, arr in (("pos_to", pos_to), ("pos_from", pos_from)):
                for c in range(3):
                    x = pyexec.num(arr.flat[c])
                    run.sink.add(pref, "call-pre", hy, z3.And(x >= -z3.RealVal("1/2"), x <= z3.RealVal("1/2")),
                                 meta={"label": "wrapped: %s[%d] passed to the kernel lies in [-1/2, 1/2]" % (nm, c)})
            rbf = [pyexec.num(x) for x in rb.flat]
            tmf = [pyexec.num(x) for x in tm.flat]
            tv = [sum(tmf[l * 3 + k] * v[k] for k in range(3)) for l in range(3)]           # trans_mat_arg . v
            cart = _matmul_row(tv, Av)
            for l in range(3):
                lhs = sum(rbf[l * 3 + k] * v[k] for k in range(3))
                ob = run.sink.add(pref, "call-pre", hy, lhs == cart[l],
                                  meta={"label": "metric: component %d of reduced_basis_arg.v equals the Cartesian component of the stored vector trans_mat_arg.v" % l})
                ob.backend = "poly"
            if len(rints) < 2:
                raise CheckerError("%s: the positions are not wrapped with np.rint (has _transform_cell_basis changed?)" % pref)
            # image: stored vector - (pos_super - pos_prim) does not depend on the continuous positions and is an integer
            # combination of the wrap integers and L: every coefficient is an integer constant or (+-) an entry of a matrix
            # the code itself asserts to be integral (A-RINT)
            ints = [x for (_, outs_) in rints for x in outs_] + [z3.ToReal(c) for c in L]
            w = [pyexec.num(pos_to.flat[c]) - pyexec.num(pos_from.flat[c]) + z3.ToReal(L[c]) for c in range(3)]
            for l in range(3):
                expr = sum(tmf[l * 3 + k] * w[k] for k in range(3)) - (psv[l] - ppv[l])
                for nm, pv in (("pos_super", psv), ("pos_prim", ppv)):
                    for k in range(3):
                        d = z3.substitute(expr, (pv[k], z3.RealVal(1))) - z3.substitute(expr, (pv[k], z3.RealVal(0)))
                        ob = run.sink.add(pref, "call-pre", hy, d == 0, meta={
                            "label": "image: component %d of (stored vector - separation) does not depend on %s[%d]" % (l, nm, k)})
                        ob.backend = "poly"
                for q, nsym in enumerate(ints):
                    base_ = nsym.arg(0) if z3.is_app(nsym) and nsym.decl().kind() == z3.Z3_OP_TO_REAL else nsym
                    c1 = z3.substitute(expr, (base_, z3.IntVal(1))) - z3.substitute(expr, (base_, z3.IntVal(0)))
                    cands = [(z3.RealVal(0), "0"), (z3.RealVal(1), "1"), (z3.RealVal(-1), "-1")]
                    for mi, mat in enumerate(intmats):
                        for e, x in enumerate(mat):
                            cands += [(x, "M%d[%d]" % (mi, e)), (-x, "-M%d[%d]" % (mi, e))]
                    pick = _numeric_pick(c1, cands, Av + list(vals(s2, R)))
                    if pick is None:
                        ob = run.sink.add(pref, "call-pre", hy, z3.BoolVal(False), meta={
                            "label": "image: coefficient of integer #%d in component %d is not recognisably integral" % (q, l)})
                        ob.status, ob.solver, ob.detail = "unknown", "candidate search", "no integer constant / asserted-integral matrix entry matches"
                        continue
                    ob = run.sink.add(pref, "call-pre", hy, c1 == pick[0], meta={
                        "label": "image: coefficient of integer #%d in component %d of (stored vector - separation) is %s (integral)" % (q, l, pick[1])})
                    ob.backend = "poly"
            sig = [z3.simplify(pyexec.num(x)).sexpr() for a_ in (pos_to, pos_from, lat, rb, tm) for x in a_.flat]
            if first is None:
                first = sig
            else:
                o = run.sink.add(pref, "call-pre", [], z3.BoolVal(sig == first), meta={"label": "count pass and fill pass receive identical arguments"})
        for ob in run.sink.obls[n0:]:
            lab = ob.meta.get("label", "").split(":")[0]
            if ob.replay is None:
                ob.replay = (lambda model, d=(meth == "_run_dense"), lab=lab: _glue_replay_for(d, lab))
        run.functions.append({"file": CF, "function": "ShortestPairs." + meth, "line": m.lineno, "sha1": mod.sha(m),
                              "obligations": len(run.sink.obls) - n0})
        run.assumptions += sorted(set(assumed))
    run.not_decided += ["that the 65 lattice points suffice for a Niggli-reduced basis and wrapped positions (geometric lemma; the source says 'no proof that this is enough')",
                        "get_reduced_bases (spglib Niggli reduction) returns a basis of the same lattice"]


def replay_glue(dense):
    """real ShortestPairs on a sheared (not Niggli-reduced) supercell basis with a capturing stand-in for the kernel"""
    from pvc import creplay
    import json
    code = r'''
import sys, types, json
import numpy as np
cap = []
stub = types.ModuleType("phonopy._phonopy")
def _k(*a): cap.append([np.array(x, copy=True) if isinstance(x, np.ndarray) else x for x in a])
stub.gsv_set_smallest_vectors_dense = _k
stub.gsv_set_smallest_vectors_sparse = _k
sys.modules["phonopy._phonopy"] = stub
import phonopy
phonopy._phonopy = stub
from phonopy.structure.cells import ShortestPairs
rng = np.random.default_rng(3)
bad = []
for trial in range(6):
    B = np.diag([3.0, 3.5, 4.1]) + 0.05 * rng.normal(size=(3, 3))
    U = np.array([[1, 2, 0], [0, 1, 0], [1, 0, 1]]) if trial % 2 else np.array([[1, 0, 0], [3, 1, 0], [0, -2, 1]])
    A = U @ B                                     # same lattice, sheared description (rows = basis vectors)
    ps = rng.uniform(-0.5, 0.5, size=(4, 3)); pp = ps[:2].copy()
    del cap[:]
    ShortestPairs(A, ps, pp, store_dense_svecs=DENSE, symprec=1e-5)
    for a in cap:
        pos_to, pos_from, lat, rb, tm = a[2], a[3], a[4], a[5], a[6]
        if np.abs(pos_to).max() > 0.5 + 1e-12 or np.abs(pos_from).max() > 0.5 + 1e-12:
            bad.append("wrapped")
        pts = {tuple(int(x) for x in r) for r in lat}
        want = {(i - l, j - l, k - l) for i in (-1, 0, 1) for j in (-1, 0, 1) for k in (-1, 0, 1) for l in (-1, 0, 1)}
        if pts != want or len(lat) != 65:
            bad.append("lattice")
        v = rng.normal(size=3)
        if np.abs(rb @ v - (tm @ v) @ A).max() > 1e-9:
            bad.append("metric")
        for i in range(len(ps)):
            for j in range(len(pp)):
                L = lat[rng.integers(len(lat))]
                d = tm @ (pos_to[i] - pos_from[j] + L) - (ps[i] - pp[j])
                if np.abs(d - np.rint(d)).max() > 1e-9:
                    bad.append("image")
print(json.dumps({"violated": sorted(set(bad))}))
'''.replace("DENSE", "True" if dense else "False")
    rc, out, err = creplay.py_eval(code)
    if rc != 0:
        return {"reproduced": False, "reason": err[-500:]}
    r = json.loads(out.strip().splitlines()[-1])
    return {"reproduced": bool(r["violated"]), "real_code": r, "input": "sheared descriptions U.B of a near-orthorhombic lattice, random positions",
            "expected": "wrapped positions, the 65 lattice points, metric and image clauses hold for the arguments handed to the kernel"}


_GLUE = {}


def _glue_replay_for(dense, clause):
    if dense not in _GLUE:
        _GLUE[dense] = replay_glue(dense)
    r = dict(_GLUE[dense])
    if r.get("reproduced") and clause not in r["real_code"]["violated"]:
        r["reproduced"] = False
        r["reason"] = "the real code violates other clauses (%s), not this one" % r["real_code"]["violated"]
    return r


def entry_point_forwards_arguments(run):
    """get_smallest_vectors(...) (the entry point used by Primitive and by the force-constant code): the ShortestPairs object is
    built from exactly the arguments given -- bases, both position sets, the storage format and the tolerance symprec."""
    mod = pyexec.load(CF)
    fn = mod.funcs["get_smallest_vectors"]
    pref = CF + ":get_smallest_vectors"
    st = PState()
    given = {"supercell_bases": Opaque("supercell bases"), "supercell_pos": Opaque("supercell positions"), "primitive_pos": Opaque("primitive positions"),
             "store_dense_svecs": z3.Bool("store_dense_svecs"), "symprec": z3.Real("symprec")}
    cap = {}

    def mk(ex, st_, args, kwargs):
        cap["args"], cap["kw"], cap["pc"] = list(args), dict(kwargs), list(st_.pc)
        return st_.new(Record("ShortestPairs", {"shortest_vectors": Opaque("svecs"), "multiplicities": Opaque("multi")}))
    ex = PyExec(mod, run.sink, pref, hooks={"new:ShortestPairs": mk}, opaque_unknown=True, split=True)
    n0 = len(run.sink.obls)
    ex.call_function(st, fn, [given["supercell_bases"], given["supercell_pos"], given["primitive_pos"]],
                     {"store_dense_svecs": given["store_dense_svecs"], "symprec": given["symprec"]})
    if "kw" not in cap:
        raise CheckerError("get_smallest_vectors: ShortestPairs is never constructed")
    init = mod.method("ShortestPairs", "__init__")
    names = [a.arg for a in init.args.args[1:]]
    defaults = dict(zip(names[len(names) - len(init.args.defaults):], init.args.defaults))
    for k, want in given.items():
        if k in cap["kw"]:
            got = cap["kw"][k]
        elif k in names and names.index(k) < len(cap["args"]):
            got = cap["args"][names.index(k)]
        else:
            got = None           # not passed: ShortestPairs falls back to its default
        same = (got is want) or (pyexec.is_sym(got) and pyexec.is_sym(want) and got.eq(want))
        run.sink.add(pref, "call-pre", cap["pc"], z3.BoolVal(bool(same)), replay=lambda model: replay_entry_point(),
                     meta={"label": "ShortestPairs is built with the caller's %s%s" % (k, "" if same else " (got %r; its own default would be used)" % (got,))})
    run.functions.append({"file": CF, "function": "get_smallest_vectors", "line": fn.lineno, "sha1": mod.sha(fn), "obligations": len(run.sink.obls) - n0})


def replay_entry_point():
    from pvc import creplay
    import json
    code = r'''
import json
import numpy as np
import phonopy.structure.cells as cells
got = {}
class Fake:
    def __init__(self, *a, **k):
        got["symprec"] = k.get("symprec", a[4] if len(a) > 4 else "default")
        got["store_dense_svecs"] = k.get("store_dense_svecs", a[3] if len(a) > 3 else "default")
        self.shortest_vectors = None; self.multiplicities = None
cells.ShortestPairs = Fake
cells.get_smallest_vectors(np.eye(3), np.zeros((1, 3)), np.zeros((1, 3)), store_dense_svecs=True, symprec=1e-3)
print(json.dumps({"symprec_received": got["symprec"], "store_dense_svecs_received": got["store_dense_svecs"]}))
'''
    rc, out, err = creplay.py_eval(code)
    if rc != 0:
        return {"reproduced": False, "reason": err[-400:]}
    r = json.loads(out.strip().splitlines()[-1])
    return {"reproduced": r["symprec_received"] != 1e-3 or r["store_dense_svecs_received"] is not True, "real_code": r,
            "input": "get_smallest_vectors(..., store_dense_svecs=True, symprec=1e-3)", "expected": "both reach ShortestPairs"}
