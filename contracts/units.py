"""C17 (units part): symbolic unit consistency of the calculator table (interface/calculator.py) against
units.py, with the fundamental constants kept as positive real unknowns."""
import sympy as sp
import z3

from pvc import cas, pyexec
from pvc.core import CheckerError
from pvc.pyexec import PyExec, PState

UF = "phonopy/units.py"
CF = "phonopy/interface/calculator.py"
FUND = ["pi", "EV", "AMU", "PlanckConstant", "Me", "SpeedOfLight", "kb_J", "Avogadro"]
CALCS = [None, "vasp", "aims", "lammps", "pwmat", "abinit", "qe", "wien2k", "elk", "siesta", "abacus", "cp2k", "crystal",
         "dftbp", "turbomole", "castep", "fleur"]


def _globals():
    g = {n: z3.Real(n) for n in FUND}
    return g


def unit_values(run):
    """symbolic values of the names defined in units.py"""
    mod = pyexec.load(UF)
    ex = PyExec(mod, run.sink, UF + ":module", globals_=_globals())
    st = PState()
    st.pc.extend([z3.Real(n) > 0 for n in FUND])
    vals = {}
    g = _globals()
    for name in mod.consts:
        vals[name] = g[name] if name in g else ex.eval(st, mod.consts[name], {})
    vals["pi"] = g["pi"]
    return vals


def fc_unit_SI(u, U):
    """SI value [J/m^2] of a force-constant unit string, from the symbolic units.py values U"""
    EV, A = U["EV"], U["Angstrom"]
    bohr_m = U["Bohr"] * A        # Bohr is in Angstrom in units.py
    table = {"eV/angstrom^2": EV / (A * A), "eV/angstrom.au": EV / (A * bohr_m), "Ry/au^2": U["Rydberg"] * EV / (bohr_m * bohr_m),
             "mRy/au^2": U["Rydberg"] / 1000 * EV / (bohr_m * bohr_m), "hartree/au^2": U["Hartree"] * EV / (bohr_m * bohr_m),
             "hartree/angstrom.au": U["Hartree"] * EV / (A * bohr_m)}
    if u not in table:
        raise CheckerError("unknown force constant unit string %r" % u)
    return table[u]


def _sym(t):
    e = cas.to_sympy(pyexec.num(t))
    return e.subs({s: sp.Symbol(s.name, positive=True) for s in e.free_symbols})


def build(run):
    U = unit_values(run)
    cmod = pyexec.load(CF)
    fn = cmod.funcs["get_default_physical_units"]
    pref = "lemma:C17:units"
    pi = sp.Symbol("pi", positive=True)
    # e^2/(4 pi eps0) in eV Angstrom
    e2 = _sym(U["EV"]) * sp.Float(1e10).as_integer_ratio()[0] / (4 * pi * _sym(U["Epsilon0"])) if False else _sym(U["EV"]) * sp.Integer(10) ** 10 / (4 * pi * _sym(U["Epsilon0"]))
    run.lemma(pref, "const", "Hartree*Bohr == e^2/(4 pi eps0) in eV Angstrom (from the definitions in units.py)", [], None, backend="poly",
              pairs=[(sp.srepr(_sym(U["Hartree"]) * _sym(U["Bohr"])), sp.srepr(e2))])
    for calc in CALCS:
        ex = PyExec(cmod, run.sink, "%s:get_default_physical_units[%s]" % (CF, calc), globals_=_globals())
        st = PState()
        st.pc.extend([z3.Real(n) > 0 for n in FUND])
        outs = ex.call_function(st, fn, [calc])
        if len(outs) != 1 or outs[0][1] != "return":
            raise CheckerError("get_default_physical_units(%r): expected one return" % calc)
        d = outs[0][2]
        run.functions.append({"file": CF, "function": "get_default_physical_units[%s]" % calc, "line": fn.lineno,
                              "sha1": cmod.sha(fn), "obligations": 2})
        fcu = d["force_constants_unit"]
        fc_si = _sym(fc_unit_SI(fcu, U))
        want = sp.sqrt(fc_si / _sym(U["AMU"])) / (2 * pi) / sp.Integer(10) ** 12
        run.lemma(pref, "factor", "%s: factor == sqrt(%s / AMU)/(2 pi) in THz" % (calc, fcu), [], None, backend="poly",
                  pairs=[(sp.srepr(_sym(d["factor"])), sp.srepr(want))])
        if d["nac_factor"] is not None:
            fc_eVA2 = fc_si / (_sym(U["EV"]) / _sym(U["Angstrom"]) ** 2)
            dist = _sym(d["distance_to_A"])
            want_nac = _sym(U["Hartree"]) * _sym(U["Bohr"]) / (fc_eVA2 * dist ** 3)
            ob = run.lemma(pref, "nac", "%s: nac_factor == e^2/(4 pi eps0) in (%s) x (%s)^3" % (calc, fcu, d["length_unit"]), [], None,
                           backend="poly", pairs=[(sp.srepr(_sym(d["nac_factor"])), sp.srepr(want_nac))])
            ob.meta["calc"] = calc
            ob.replay = (lambda calc: lambda model: replay_nac(calc))(calc)
        # declared length unit vs distance_to_A
        lu = d["length_unit"]
        wantd = sp.Integer(1) if lu == "angstrom" else _sym(U["Bohr"])
        run.lemma(pref, "length", "%s: distance_to_A is the declared length unit (%s) in Angstrom" % (calc, lu), [], None, backend="poly",
                  pairs=[(sp.srepr(_sym(d["distance_to_A"])), sp.srepr(wantd))])
        if d.get("force_to_eVperA") is not None:
            fu = d["force_unit"]
            tab = {"Ry/au": _sym(U["Rydberg"]) / _sym(U["Bohr"]), "mRy/au": _sym(U["Rydberg"]) / 1000 / _sym(U["Bohr"]),
                   "hartree/au": _sym(U["Hartree"]) / _sym(U["Bohr"]), "eV/angstrom": sp.Integer(1)}
            run.lemma(pref, "force", "%s: force_to_eVperA is the declared force unit (%s) in eV/Angstrom" % (calc, fu), [], None, backend="poly",
                      pairs=[(sp.srepr(_sym(d["force_to_eVperA"])), sp.srepr(tab[fu]))])
    # conversion table: get_force_constant_conversion_factor(u, X) == SI(u) / SI(force-constant unit of X)
    fnc = cmod.funcs["get_force_constant_conversion_factor"]
    for calc in CALCS:
        for u in ("eV/angstrom^2", "eV/Angstrom^2", "eV/angstrom.au", "Ry/au^2", "mRy/au^2", "hartree/au^2", "hartree/angstrom.au"):
            ex = PyExec(cmod, None, "%s:get_force_constant_conversion_factor[%s,%s]" % (CF, u, calc), globals_=_globals())
            st = PState()
            st.pc.extend([z3.Real(n) > 0 for n in FUND])
            outs = ex.call_function(st, fnc, [u, calc])
            rets = [o for o in outs if o[1] == "return"]
            if len(rets) != 1:
                raise CheckerError("get_force_constant_conversion_factor(%r, %r): %s" % (u, calc, [o[1] for o in outs]))
            ex2 = PyExec(cmod, None, "", globals_=_globals())
            d = ex2.call_function(PState(), fn, [calc])[0][2]
            want = _sym(fc_unit_SI(u.replace("Angstrom", "angstrom"), U)) / _sym(fc_unit_SI(d["force_constants_unit"], U))
            run.lemma(pref, "table", "conversion of %s to the unit of %s" % (u, calc), [], None, backend="poly",
                      pairs=[(sp.srepr(_sym(rets[0][2])), sp.srepr(want))])
    run.assumptions.append("CODATA values of the fundamental constants are not checked; only the mutual consistency of the tables (symbolic)")


def replay_nac(calc):
    """numeric evaluation with the real modules: nac_factor against e^2/(4 pi eps0) in the declared units"""
    import json
    from pvc import creplay
    code = (
        "import json\n"
        "from phonopy.interface.calculator import get_default_physical_units as g\n"
        "from phonopy.units import Hartree, Bohr, Rydberg\n"
        "u = g(%r)\n"
        "fc = {'eV/angstrom^2': 1.0, 'eV/angstrom.au': 1.0/Bohr, 'Ry/au^2': Rydberg/Bohr**2, 'mRy/au^2': Rydberg/1000/Bohr**2,\n"
        "      'hartree/au^2': Hartree/Bohr**2, 'hartree/angstrom.au': Hartree/Bohr}[u['force_constants_unit']]\n"
        "print(json.dumps({'nac_factor': u['nac_factor'], 'expected': Hartree*Bohr/(fc*u['distance_to_A']**3),\n"
        "                  'force_constants_unit': u['force_constants_unit'], 'length_unit': u['length_unit']}))\n" % calc)
    rc, out, err = creplay.py_eval(code)
    if rc != 0:
        return {"reproduced": False, "reason": err[-300:]}
    r = json.loads(out)
    bad = abs(r["nac_factor"] - r["expected"]) > 1e-9 * max(1.0, abs(r["expected"]))
    return {"reproduced": bool(bad), "input": {"calculator": calc}, "real_code": r,
            "expected": "nac_factor == e^2/(4 pi eps0) expressed in force-constant unit x length unit^3"}
