"""C08 — non-analytical term correction: Wang charge-sum kernels and their limits, Gonze-Lee Born contraction."""
from contracts import c_dynmat as D
from contracts import c_nac as N

from contracts import py_bz as BZ
from contracts import py_dmnac as DN


def build(run):
    qc, dp, cs = D.get_q_cart_contract(), D.get_dielectric_part_contract(), D.charge_sum_contract()
    run.verify_c([qc, dp, cs])
    atq = D.dynmat_at_q_contract()
    run.verify_c([D.dynmat_want_contract()], registry={"get_q_cart": qc, "get_dielectric_part": dp, "dym_get_charge_sum": cs,
                                                        "dym_get_dynamical_matrix_at_q": atq})
    mb = N.multiply_borns_at_ij_contract()
    run.verify_c([mb])
    run.verify_c([N.multiply_borns_contract()], registry={"multiply_borns_at_ij": mb})
    run.verify_c([N.multiply_borns_safety_contract()])
    gd = N.get_dd_at_g_contract()
    run.verify_c([gd])
    run.verify_c([N.get_dd_contract()], registry={"get_dielectric_part": dp, "get_dd_at_g": gd})
    N.wang_lemmas(run)
    BZ.brillouin_zone(run)
    DN.nac_factor_contract(run)
    DN.gl_cartesian_q(run)
