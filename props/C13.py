"""C13 — compiled kernels: bounds, division, NULL, OpenMP race freedom (schedule independence)."""
from contracts import c13


FILES = ["c/dynmat.c", "c/phonopy.c", "c/derivative_dynmat.c", "c/rgrid.c", "c/tetrahedron_method.c"]


def build(run):
    for c in c13.all_contracts():
        run.verify_c([c], files=FILES)
    c, reg = c13.tetrahedron_dos_safety(run.sink)
    run.verify_c([c], files=FILES, registry=reg)
    c, reg = c13.tetrahedra_frequencies_safety()
    run.verify_c([c], files=FILES, registry=reg)
    run.verify_c([c13.derivative_dynmat_safety()], files=FILES)
    c, reg = c13.qpoints_driver_safety()
    run.verify_c([c], files=FILES, registry=reg)
    # "same result as the reference semantics": the functional contracts of the kernels (proved in the
    # per-property checks) are part of this property too
    from contracts import c_svecs as SV
    from contracts import c_nac as NAC
    run.verify_c([SV.dense_contract(run.sink), SV.sparse_contract(run.sink), SV.sparse_contract(run.sink, tie_bound=False)])
    mb = NAC.multiply_borns_at_ij_contract()
    run.verify_c([mb])
    run.verify_c([NAC.multiply_borns_contract()], registry={"multiply_borns_at_ij": mb})
    run.verify_c([NAC.multiply_borns_safety_contract()])
    from contracts import c_dynmat as DM
    gd = NAC.get_dd_at_g_contract()
    run.verify_c([gd])
    run.verify_c([NAC.get_dd_contract()], registry={"get_dielectric_part": DM.get_dielectric_part_contract(), "get_dd_at_g": gd})
    import importlib
    for pid in ("C02", "C06", "C07", "C01", "C12", "C10"):
        importlib.import_module("props." + pid).build(run)
    importlib.import_module("props.C11").build(run, with_vertex=False)
