"""C13 — compiled kernels: bounds, division, NULL, OpenMP race freedom (schedule independence)."""
from contracts import c13


def build(run):
    for c in c13.all_contracts():
        run.verify_c([c], files=["c/dynmat.c", "c/phonopy.c", "c/derivative_dynmat.c", "c/rgrid.c", "c/tetrahedron_method.c"])
