"""scratch"""
from contracts import py_gruneisen2 as G


def build(run):
    run.py_contract(G.GF, "GruneisenBase.__init__", lambda: G.strain_and_difference(run), G.replay_strain)
