"""C20 — equations of state and QHA."""
from contracts import eos


def build(run):
    eos.build(run)
    run.not_decided += ["scipy.optimize.leastsq convergence (EOSFit.fit)", "numpy.polyfit fits in QHA"]
