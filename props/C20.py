"""C20 — equations of state and QHA."""
from contracts import eos, qha


def build(run):
    eos.build(run)
    qha.init_contract(run)
    qha.thermal_expansion_contract(run)
    run.not_decided += ["scipy.optimize.leastsq convergence (EOSFit.fit)", "numpy.polyfit fits in QHA"]
