"""C15 — a Phonopy object answers from its current state, whatever its history."""
from contracts import py_phonopy as PP
from contracts import py_dmnac as DN


def build(run):
    PP.class_invariant(run)
    PP.copy_forwards_options(run)
    PP.atoms_getters_return_copies(run)
    PP.masses_setter_index_functions(run)
    PP.dataset_setter_copies(run)
    DN.nac_params_not_modified(run)
    run.not_decided += ["ownership of arrays handed in/out (force_constants setter keeps the caller's array by documented design)",
                        "result objects (mesh, band structure, ...) computed before a state change",
                        "copy() beyond the forwarding of constructor options; getters of Phonopy itself (force_constants, nac_params return internal objects by design)"]
