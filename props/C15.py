"""C15 — a Phonopy object answers from its current state, whatever its history."""
from contracts import py_phonopy as PP


def build(run):
    PP.class_invariant(run)
    run.not_decided += ["ownership of arrays handed in/out (force_constants setter keeps the caller's array by documented design)",
                        "result objects (mesh, band structure, ...) computed before a state change", "copy() independence"]
