"""C10 — thermal properties: closed forms, C<->Py equality, thermodynamic identities, finiteness, mesh kernel."""
from contracts import thermal as TH


def build(run):
    ex = run.verify_c(TH.c_contracts())
    TH.KB_VALUE.update(ex.macro_values)
    TH.py_extract(run)
    TH.lemmas(run)
    TH.finite_obligations(run, run.finding_status("E5"))
    run.verify_c([TH.kernel_contract()], registry=TH.scalar_call_contracts())
    TH.init_ownership(run)
    run.py_contract(TH.PF, "ThermalProperties._run_c_thermal_properties", lambda: TH.c_driver(run), TH.replay_c_driver)
    TH.py_drivers(run)
    run.axioms += ["A-LIBM: exp>0, exp(x)>1 for x>0, exp(x)<1 for x<0, sinh sign, cosh>=1 (instances added per query)",
                   "AX-SINH sinh(y)>=y for y>=0 (C_V <= k_B), AX-TANH tanh(y)<=y (dC_V/dT >= 0): cited, only the reductions are decided",
                   "limits T->0 / T->infinity (S >= 0, C_V -> k_B) are cited, not decided"]
    run.axioms += ["A-UNIF: numpy vectorised operations / reductions are uniform in the array length: the contracts of vectorised Python glue are proved on a generic small instance with distinct symbolic elements (one temperature row) and taken to hold for every length"]
