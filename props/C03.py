"""C03 — dynamical matrix: Hermitian, time reversal, scaling; reciprocal operations; coordinate change of shortest vectors."""
from contracts import c_dynmat as D
from contracts import lemmas_dynmat as L
from contracts import py_svecs as PS
from contracts import py_symmetry as PY
from contracts import py_phonopy as PP


def build(run):
    # Hermiticity of what the kernel returns: postcondition of make_Hermitian and of the driver (callees by contract)
    gij, mh = D.get_dynmat_ij_contract(), D.make_hermitian_contract()
    run.verify_c([mh])
    run.verify_c([D.dynmat_at_q_contract()], registry={"get_dynmat_ij": gij, "make_Hermitian": mh})
    L.time_reversal(run)
    L.scaling(run)
    PS.primitive_svecs_transform(run)
    PY.pointgroup_operations(run)
    PP.masses_setter_index_functions(run)      # mass scaling reaches all three cells consistently
    run.not_decided += ["invariance of the spectrum under q -> q + G and q -> R q (needs angle addition and unitary similarity of spectra)",
                        "three zero eigenvalues at Gamma from the acoustic sum rule (eigenvalue reasoning)"]
    run.axioms += ["A-UNIF: numpy vectorised operations / reductions are uniform in the array length: the contracts of vectorised Python glue are proved on a generic small instance with distinct symbolic elements (two symmetry operations) and taken to hold for every length"]
