"""C19 — thermal and random displacements: scalar core."""
from contracts import py_thermal_disp as TD


def build(run):
    TD.build(run)
    TD.cif_convention(run)
    TD.sampling_supercell_matrix(run)
