"""C14 — one spectrum through every access path."""
from contracts import py_access as PA


def build(run):
    PA.itermesh_next(run)
    PA.init_mesh_args(run)
    PA.qpoints_ownership(run)
    PA.band_connection_pairing(run)
