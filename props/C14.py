"""C14 — one spectrum through every access path."""
from contracts import py_access as PA

from contracts import py_gv_state as GV
from contracts import py_layout as PL

def build(run):
    PA.itermesh_next(run)
    PA.init_mesh_args(run)
    PA.qpoints_ownership(run)
    PA.band_connection_pairing(run)
    run.py_contract(GV.VF, "GroupVelocity.run", lambda: GV.run_history_independence(run), GV.replay_gv_history)
    run.py_contract(PL.DF, "run_dynamical_matrix_solver_c[q-point layout]", lambda: PL.solver_qpoint_layout(run), PL.replay_layout)
    GV.mesh_iteration_restart(run)
