"""C07 — force-constant symmetrisers."""
from contracts import c_symm as S
from contracts import py_fc as PF

from contracts import py_fc_layout as FL

def build(run):
    ipf, trf = S.index_permutation_full_contract(), S.translational_full_contract()
    run.verify_c([ipf, trf])
    run.verify_c([S.perm_trans_full_contract(ipf, trf)], registry={"set_index_permutation_symmetry_fc": ipf, "set_translational_symmetry_fc": trf})
    run.verify_c([S.translational_compact_contract()])
    PF.nsym_list_and_s2pp(run)
    known = run.finding_status("E2") == "known"
    run.verify_c([S.compact_index_permutation_contract(known, True), S.compact_index_permutation_contract(known, False)])
    run.py_contract(FL.FF, "compact_fc_to_full_fc", lambda: FL.layout_conversions(run), FL.replay_layout)
    run.py_contract(FL.AF, "Phonopy.symmetrize_force_constants_by_space_group", lambda: FL.space_group_symmetrizer_call(run), FL.replay_space_group)
    FL.tensor_symmetry_cartesian_rotations(run)
