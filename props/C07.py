"""C07 — force-constant symmetrisers."""
from contracts import c_symm as S


def build(run):
    run.verify_c([S.index_permutation_full_contract(), S.translational_full_contract()])
    run.verify_c([S.translational_compact_contract()])
    known = run.finding_status("E2") == "known"
    run.verify_c([S.compact_index_permutation_contract(known, True), S.compact_index_permutation_contract(known, False)])
