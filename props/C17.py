"""C17 — calculator interfaces: physical units (symbolic); structure-file round trips are not decided."""
from contracts import units


def build(run):
    units.build(run)
    run.not_decided += ["structure file writer/reader round trips of the 16 interfaces (text formatting and parsing)",
                        "check_agreements_of_displacements pairing of forces with atoms"]
