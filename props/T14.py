"""scratch"""
from contracts import py_gv_state as G


def build(run):
    G.run_history_independence(run)
