"""C02 — phonons equal the lattice Fourier sum (C kernels of c/dynmat.c; Python path; lemmas)."""
from contracts import c_dynmat as D
from contracts import py_svecs as PS

from contracts import py_layout as PL

def build(run):
    gdm = D.get_dm_contract()
    gij = D.get_dynmat_ij_contract()
    mh = D.make_hermitian_contract()
    run.verify_c([gdm])
    run.verify_c([gij], registry={"get_dm": gdm})
    run.verify_c([mh])
    run.verify_c([D.dynmat_at_q_contract()], registry={"get_dynmat_ij": gij, "make_Hermitian": mh})
    qc, dp, cs = D.get_q_cart_contract(), D.get_dielectric_part_contract(), D.charge_sum_contract()
    run.verify_c([qc, dp, cs])
    atq = D.dynmat_at_q_contract()
    run.verify_c([D.dynmat_want_contract()], registry={"get_q_cart": qc, "get_dielectric_part": dp, "dym_get_charge_sum": cs,
                                                        "dym_get_dynamical_matrix_at_q": atq})
    # the phase uses the shortest vectors in primitive-cell coordinates: the change of coordinates keeps the Cartesian vector
    PS.primitive_svecs_transform(run)
    # the batched solver must hand the compiled kernel the q-points the caller gave (dtype / memory layout of the raw pointer)
    run.py_contract(PL.DF, "run_dynamical_matrix_solver_c[q-point layout]", lambda: PL.solver_qpoint_layout(run), PL.replay_layout)
