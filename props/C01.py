"""C01 — finite-displacement solver: symmetry expansion kernel and the displacement-direction search."""
from contracts import c_dist as CD
from contracts import py_displacement as PD


def build(run):
    run.verify_c([CD.distribute_fc2_contract()])
    PD.displacement_search(run)
    run.not_decided += ["least-squares solve of the first-atom rows (_solve_force_constants_svd: numpy.linalg.pinv and its cutoff)",
                        "phpy_compute_permutation", "get_least_displacements bookkeeping around the direction search, is_minus_displacement"]
