"""C01 — finite-displacement solver: symmetry expansion kernels."""
from contracts import c_dist as CD


def build(run):
    run.verify_c([CD.distribute_fc2_contract()])
