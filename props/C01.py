"""C01 — finite-displacement solver: symmetry expansion kernel and the displacement-direction search."""
from contracts import c_dist as CD
from contracts import py_displacement as PD
from contracts import c_perm as CP


def build(run):
    run.verify_c([CD.distribute_fc2_contract()])
    PD.displacement_search(run)
    nc = CP.nint_contract()
    run.verify_c([nc])
    run.verify_c([CP.compute_permutation_contract(run.sink)], registry={"nint": nc})
    run.not_decided += ["least-squares solve of the first-atom rows (_solve_force_constants_svd: numpy.linalg.pinv and its cutoff)",
                        "get_least_displacements bookkeeping around the direction search, is_minus_displacement"]
