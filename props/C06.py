"""C06 — force constants <-> dynamical matrices at commensurate points."""
from contracts import c_d2f as D2F

from contracts import py_d2f as PD
from contracts import py_phonopy as PP


def build(run):
    ij = D2F.ij_contract()
    run.verify_c([ij])
    run.verify_c([D2F.driver_contract()], registry={"transform_dynmat_to_fc_ij": ij})
    PD.commensurate_points_matrix(run)
    PP.copy_forwards_options(run)          # ph2ph builds its two working objects with _copy
