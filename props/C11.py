"""C11 — densities of states: tetrahedron weights (C and Python), grid index arithmetic."""
import z3
from contracts import c_tetrahedron as T
from contracts import py_tetrahedron as PT
from contracts import c_rgrid as RG


def build(run, with_vertex=True):
    gen = T.generic_contracts()
    run.verify_c(T.region_instances(gen))
    pref = "c/tetrahedron_method.c:regions"
    T.region_lemmas(lambda kind, label, hyps, goal, **kw: run.lemma(pref, kind, label, hyps, goal, **kw))
    so = T.sort_omegas_contract()
    run.verify_c([so])
    reg = dict(gen)
    reg["sort_omegas"] = so
    vc = T.vertex_contracts(run.finding_status("E4") == "known") if with_vertex else []
    run.verify_c(T.weight_contracts() + T.top_contracts() + vc, registry=reg)
    cs, reg2 = RG.all_contracts()
    run.verify_c(cs, registry=reg2)
    # Python implementation: same terms, same ladder
    PT.extract(run)
    PT.equiv_lemmas(run)
    PT.ladder_equiv(run)
    if with_vertex:
        # smearing DOS (Python): total = weighted kernel sum, kernels >= 0 and normalised, projections add up
        from contracts import py_dos as PD
        run.py_contract(PD.PF_, "TotalDos._get_density_of_states_at_freq", lambda: PD.total_dos_at_freq(run), PD.replay_smearing)
        PD.kernel_lemmas(run)
        run.py_contract(PD.PF_, "ProjectedDos._run_smearing_method", lambda: PD.projected_dos_smearing(run), PD.replay_smearing)
    run.axioms += ["A-UNIF: numpy vectorised operations / reductions are uniform in the array length: the contracts of vectorised Python glue are proved on a generic small instance with distinct symbolic elements (2 q-points x 2 bands x 2 projections) and taken to hold for every length"]
