"""C04 — supercell and primitive cell are exact re-tilings."""
from contracts import py_cells as PC


def build(run):
    PC.supercell_lattice(run)
    PC.simple_supercell_replication(run)
    PC.trimmed_cell_reorder(run)
