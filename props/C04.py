"""C04 — supercell and primitive cell are exact re-tilings."""
from contracts import py_cells as PC


def build(run):
    PC.supercell_lattice(run)
    PC.simple_supercell_replication(run)
    PC.trimmed_cell_reorder(run)
    run.py_contract(PC.CF, "Supercell._get_simple_supercell[SNF lattice points]", lambda: PC.snf_lattice_points(run), PC.replay_snf)
    run.axioms += ["A-UNIF: numpy vectorised operations / reductions are uniform in the array length: the contracts of vectorised Python glue are proved on a generic small instance with distinct symbolic elements (two lattice points, one atom) and taken to hold for every length"]
