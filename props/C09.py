"""C09 — symmetry-reduced mesh sampling equals full mesh sampling."""
from contracts import py_grid as PG
from contracts import py_access as PA

from contracts import py_bz as BZ


def build(run):
    PG.gridpoints_spglib_call(run)
    PG.shift2boolean_contract(run)
    PG.extract_ir_grid_points_contract(run)
    PA.init_mesh_args(run)
    PG.meshbase_gridpoints_call(run)
    BZ.brillouin_zone(run)
