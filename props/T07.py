"""scratch: layout conversions only"""
from contracts import py_fc_layout as L


def build(run):
    run.py_contract(L.FF, "compact_fc_to_full_fc", lambda: L.layout_conversions(run), L.replay_layout)
    run.py_contract(L.AF, "Phonopy.symmetrize_force_constants_by_space_group", lambda: L.space_group_symmetrizer_call(run), L.replay_space_group)
    L.tensor_symmetry_cartesian_rotations(run)
