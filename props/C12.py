"""C12 — group velocities / derivative of the dynamical matrix."""
from contracts import c_ddm as DD
from contracts import py_gruneisen as PG

from contracts import py_gruneisen2 as PG2

def build(run):
    reg = {"get_derivative_dynmat_at_q": DD.block_contract(), "get_derivative_nac": DD.nac_contract()}
    run.verify_c([DD.hermitian_contract()], registry=reg)
    DD.nac_scalar_lemmas(run)
    run.verify_c([DD.derivative_block_contract()])
    PG.band_order_pairing(run)
    run.py_contract(PG2.GF, "GruneisenBase.__init__", lambda: PG2.strain_and_difference(run), PG2.replay_strain)
