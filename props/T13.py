"""scratch"""
from contracts import py_layout as G


def build(run):
    G.solver_qpoint_layout(run)
