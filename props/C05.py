"""C05 — shortest-vector tables: the counting/filling kernels, the Python glue around them, storage conversions."""
from contracts import c_svecs as SV
from contracts import py_svecs as PS


def build(run):
    run.verify_c([SV.dense_contract(run.sink), SV.sparse_contract(run.sink), SV.sparse_contract(run.sink, tie_bound=False)])
    PS.shortest_pairs_glue(run)
    PS.primitive_svecs_transform(run)
    PS.entry_point_forwards_arguments(run)
