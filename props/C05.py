"""C05 — shortest-vector tables: the counting/filling kernels and the storage conversions."""
from contracts import c_svecs as SV


def build(run):
    run.verify_c([SV.dense_contract(run.sink), SV.sparse_contract(run.sink), SV.sparse_contract(run.sink, tie_bound=False)])
