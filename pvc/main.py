"""Driver: ./check Cxx --tier quick|thorough.  Exit 0 held / 1 violation / 2 undecided / 3 checker error."""
import argparse
import importlib
import os
import sys
import traceback

sys.path.insert(0, os.path.dirname(os.path.dirname(os.path.abspath(__file__))))
sys.setrecursionlimit(20000)

from pvc.run import Run          # noqa: E402
from pvc.core import CheckerError  # noqa: E402


def main():
    ap = argparse.ArgumentParser()
    ap.add_argument("pid")
    ap.add_argument("--tier", default=os.environ.get("VERIF_TIER", "quick"))
    ap.add_argument("--list", action="store_true")
    ap.add_argument("--relock", action="store_true", help="rewrite this property's entry of contracts/obligations.lock.json")
    a = ap.parse_args()
    seed = int(os.environ.get("VERIF_SEED", "0") or 0)
    try:
        mod = importlib.import_module("props." + a.pid)
        run = Run(a.pid, a.tier, seed)
        mod.build(run)
        if a.list:
            for o in run.sink.obls:
                print(o.name, o.kind, o.meta.get("label"))
            return 0
        if a.relock:
            run.lock = {}
        rc = run.finish()
        if a.relock:
            run.write_lock()
            print("lock rewritten for %s: %d obligations" % (a.pid, sum(1 for o in run.sink.obls if o.status == "discharged")))
        if os.environ.get("PVC_DUMP"):
            # PVC_DUMP=<substring of obligation name>:<dir> writes the SMT-LIB text of matching obligations
            pat, _, d = os.environ["PVC_DUMP"].partition("@")
            os.makedirs(d or "/tmp/pv/dump", exist_ok=True)
            for o in run.sink.obls:
                if pat in o.name and o.backend == "smt":
                    open(os.path.join(d or "/tmp/pv/dump", o.name.replace("/", "_").replace(":", "__") + ".smt2"), "w").write(o.smt2())
        if os.environ.get("PVC_TIMES"):
            for o in sorted(run.sink.obls, key=lambda o: -o.time)[:25]:
                print("  %.2fs %s %s %s [%s]" % (o.time, o.status, o.solver, o.name, o.meta.get("label")))
        n = len(run.sink.obls)
        d = sum(1 for o in run.sink.obls if o.status == "discharged")
        print("%s %s: %d/%d obligations discharged, %d functions under contract, %.1fs" % (
            a.pid, a.tier, d, n, len(run.functions), __import__("time").time() - run.t0))
        return rc
    except CheckerError as e:
        if os.environ.get("PVC_TRACE"):
            traceback.print_exc()
        print("CHECKER-ERROR %s: %s" % (a.pid, e))
        return 3
    except Exception:
        traceback.print_exc()
        print("CHECKER-ERROR %s: internal error" % a.pid)
        return 3


if __name__ == "__main__":
    sys.exit(main())
