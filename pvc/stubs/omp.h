/* Stub used only for clang's AST dump (clang 14 has no omp.h here and cannot parse gcc 12's).
   The repository uses exactly one OpenMP API function. */
#ifndef PVC_STUB_OMP_H
#define PVC_STUB_OMP_H
int omp_get_max_threads(void);
int omp_get_thread_num(void);
int omp_get_num_threads(void);
#endif
