"""Obligations and the contract data model shared by the C and Python executors."""
import z3


class CheckerError(Exception):
    """Machinery problem (unsupported construct, missing invariant ...): exit 3."""


class Obligation:
    __slots__ = ("name", "kind", "hyps", "goal", "backend", "meta", "replay",
                 "expect", "status", "detail", "time", "model", "solver")

    def __init__(self, name, kind, hyps, goal, backend="smt", meta=None,
                 replay=None, expect="valid"):
        self.name = name
        self.kind = kind
        self.hyps = list(hyps)
        self.goal = goal
        self.backend = backend     # 'smt' | 'poly' | 'eval'
        self.meta = meta or {}
        self.replay = replay       # callable(model_dict) -> dict(reproduced=bool, ...)
        self.expect = expect       # 'valid' (hyps => goal) | 'sat' (cover: hyps & goal satisfiable)
        self.status = None         # 'discharged' | 'refuted' | 'unknown' | 'error'
        self.detail = ""
        self.time = 0.0
        self.model = None
        self.solver = None

    def smt2(self):
        s = z3.Solver()
        self.add_to(s)
        return s.to_smt2()

    def add_to(self, s):
        hyps, goal = self.hyps, self.goal
        if (self.meta.get("drop_quantified") and self.expect == "valid") or (self.meta.get("relaxed_witness") and self.expect == "sat"):
            # sound weakening: fewer hypotheses (quantified facts are dropped in the first, fast attempt)
            hyps = [h for h in hyps if not _has_quantifier(h)]
        if self.meta.get("abstract_mul") and self.expect == "valid":
            # sound weakening: products of two non-numeral terms become an uninterpreted function, so the
            # query is linear + UF (valid under UF multiplication => valid for real multiplication)
            hyps = [abstract_mul(h) for h in hyps]
            goal = abstract_mul(goal)
        for h in hyps:
            s.add(h)
        if self.expect == "valid":
            s.add(z3.Not(goal))
        else:
            s.add(goal)
        # A-LIBM: axiom instances for every libm application occurring in the query
        from .special import libm_axioms
        for ax in libm_axioms(list(self.hyps) + [self.goal]):
            if self.meta.get("abstract_mul") and self.expect == "valid":
                ax = abstract_mul(ax)
            if self.meta.get("drop_quantified") and self.expect == "valid" and _has_quantifier(ax):
                continue
            s.add(ax)
        # witness terms: their model values are reported under the name pvc!w!<key>
        for k, t in (self.meta.get("witness") or {}).items():
            s.add(z3.Const("pvc!w!" + k, t.sort()) == t)


def _has_quantifier(e, _memo={}):
    k = e.get_id()
    if k in _memo:
        return _memo[k]
    if z3.is_quantifier(e):
        r = True
    else:
        r = any(_has_quantifier(c) for c in e.children())
    _memo[k] = r
    return r


_UMUL_R = z3.Function("umul_r", z3.RealSort(), z3.RealSort(), z3.RealSort())
_UMUL_I = z3.Function("umul_i", z3.IntSort(), z3.IntSort(), z3.IntSort())
_UDIV_R = z3.Function("udiv_r", z3.RealSort(), z3.RealSort(), z3.RealSort())


_UMUL_MEMO = {}      # ast id -> (expr kept alive, abstracted expr): shared by all obligations of a run (and inherited by forked workers)


def abstract_mul(e):
    cache = _UMUL_MEMO

    def isnum(x):
        if z3.is_int_value(x) or z3.is_rational_value(x):
            return True
        # (to_real 4): an integer literal cast to double in the C source is a numeral too
        return z3.is_app(x) and x.decl().kind() == z3.Z3_OP_TO_REAL and z3.is_int_value(x.arg(0))

    def rec(x):
        k = x.get_id()
        if k in cache:
            return cache[k][1]
        if z3.is_quantifier(x):
            body = rec(x.body())
            vs = [z3.Const(x.var_name(i), x.var_sort(i)) for i in range(x.num_vars())]
            # rebuild with de Bruijn substitution
            inst = z3.substitute_vars(body, *reversed(vs))
            pats = []
            r = z3.ForAll(vs, inst) if x.is_forall() else z3.Exists(vs, inst)
        elif z3.is_var(x) or not z3.is_app(x) or x.num_args() == 0:
            r = x
        else:
            ch = [rec(c) for c in x.children()]
            kk = x.decl().kind()
            if kk == z3.Z3_OP_MUL:
                nums = [c for c in ch if isnum(c)]
                oth = [c for c in ch if not isnum(c)]
                if len(oth) <= 1:
                    r = x.decl()(*ch)
                else:
                    f = _UMUL_R if x.sort() == z3.RealSort() else _UMUL_I
                    acc = oth[0]
                    for c in oth[1:]:
                        acc = f(acc, c)
                    for n_ in nums:
                        acc = n_ * acc
                    r = acc
            elif kk == z3.Z3_OP_DIV and not isnum(ch[1]):
                r = _UDIV_R(ch[0], ch[1])
            else:
                r = x.decl()(*ch)
        cache[k] = (x, r)
        return r
    return rec(e)


class Sink:
    """Collects obligations; names are unique (ordinal suffix per prefix)."""

    def __init__(self):
        self.obls = []
        self._count = {}
        self._seen = {}

    def add(self, prefix, kind, hyps, goal, **kw):
        # trivial / duplicate suppression keeps names stable but avoids solver calls
        n = self._count.get((prefix, kind), 0)
        self._count[(prefix, kind)] = n + 1
        name = "%s:%s:%d" % (prefix, kind, n)
        ob = Obligation(name, kind, hyps, goal, **kw)
        self.obls.append(ob)
        return ob


class LoopSpec:
    def __init__(self, invariant=None, name=None, decreases=None, unfold=None, capture=None, fill=False, define=None):
        self.invariant = invariant     # callable(V) -> list[(label, BoolRef)] or list[BoolRef]
        self.name = name
        self.unfold = unfold           # callable(V) -> list[BoolRef] (instances of spec-function definitions)
        self.capture = capture         # callable(ex, Vhead, Vend): custom obligations on one symbolic iteration
        self.fill = fill               # loop is an instance of the fill schema (checked syntactically)
        self.define = define           # callable(V) -> {scalar name: expr}: 'name == expr' is added to the invariant and
                                       # the variable is replaced by the expression in the loop body (index de-flattening)


class Contract:
    def __init__(self, file, func, *, shapes=None, nullable=(), requires=None,
                 ensures=None, modifies=(), loops=None, inline=False,
                 local_shapes=None, split=False, ghost=None, facts=None,
                 unroll_limit=200, use_contracts=(), scalars=None, notes="",
                 tag="", fixed=None, after=None, hints=None, macros=None, gen=None, interp=None, lib="phonopy", auto_range=False, race=False, abstract_mul=False, derived=None, replay_ensures=None, prune=False, replay_py=None, pre_py=None, replay_fn=None):
        self.file = file
        self.func = func
        self.shapes = shapes or {}
        self.nullable = set(nullable)
        self.requires = requires or (lambda V: [])
        self.ensures = ensures or (lambda V: [])
        self.modifies = tuple(modifies)
        self.loops = loops or {}
        self.inline = inline
        self.local_shapes = local_shapes or {}
        self.split = split
        self.facts = facts             # callable(V)->list[BoolRef]: definitional instances usable everywhere
        self.unroll_limit = unroll_limit
        self.use_contracts = set(use_contracts)
        self.notes = notes
        self.tag = tag
        self.fixed = fixed or {}
        self.after = after             # callable(ex, outs): extra obligations from the final states
        self.hints = hints             # callable(label, V) -> dict(backend=..., ...) for post obligations
        self.macros = macros or {}     # macro name -> z3 symbol (floating literals spelled via that macro)
        self.gen = gen                 # callable(random.Random) -> dict of concrete inputs (replay only)
        self.interp = interp           # callable(harness, evaluator, env) -> {spec function name: python callable}
        self.lib = lib
        self.auto_range = auto_range   # symbolic for-loops without an entry get the invariant v >= init
        self.race = race               # generate OpenMP race-freedom obligations for parallel loops
        self.abstract_mul = abstract_mul  # try the UF-multiplication weakening first for this function's VCs
        self.derived = derived         # callable(V) -> [(label, formula)]: proved once from the requires, then usable as facts
        self.replay_ensures = replay_ensures  # callable(V): function-level clauses evaluated on the real code in replay only
        self.replay_py = replay_py     # callable(env) -> [violated labels]: numpy transcription of the spec, replay only
        self.replay_fn = replay_fn     # callable() -> replay dict: real-code harness shared by helpers without a generator of their own
        self.pre_py = pre_py           # callable(env) -> bool: numpy transcription of the requires clauses, replay only
        self.prune = prune             # drop branches whose condition is unsatisfiable under the path condition (solver)

    def instance(self, tag=None, **fixed):
        import copy
        c = copy.copy(self)
        c.fixed = dict(self.fixed)
        c.fixed.update(fixed)
        c.tag = tag if tag is not None else "[" + ",".join("%s=%s" % kv for kv in sorted(c.fixed.items())) + "]"
        return c


def labelled(items, default):
    out = []
    for k, it in enumerate(items):
        if isinstance(it, tuple):
            out.append(it)
        else:
            out.append(("%s%d" % (default, k), it))
    return out
