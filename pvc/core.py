"""Obligations and the contract data model shared by the C and Python executors."""
import z3


class CheckerError(Exception):
    """Machinery problem (unsupported construct, missing invariant ...): exit 3."""


class Obligation:
    __slots__ = ("name", "kind", "hyps", "goal", "backend", "meta", "replay",
                 "expect", "status", "detail", "time", "model", "solver")

    def __init__(self, name, kind, hyps, goal, backend="smt", meta=None,
                 replay=None, expect="valid"):
        self.name = name
        self.kind = kind
        self.hyps = list(hyps)
        self.goal = goal
        self.backend = backend     # 'smt' | 'poly' | 'eval'
        self.meta = meta or {}
        self.replay = replay       # callable(model_dict) -> dict(reproduced=bool, ...)
        self.expect = expect       # 'valid' (hyps => goal) | 'sat' (cover: hyps & goal satisfiable)
        self.status = None         # 'discharged' | 'refuted' | 'unknown' | 'error'
        self.detail = ""
        self.time = 0.0
        self.model = None
        self.solver = None

    def smt2(self):
        s = z3.Solver()
        for h in self.hyps:
            s.add(h)
        if self.expect == "valid":
            s.add(z3.Not(self.goal))
        else:
            s.add(self.goal)
        # A-LIBM: axiom instances for every libm application occurring in the query
        from .special import libm_axioms
        for ax in libm_axioms(list(self.hyps) + [self.goal]):
            s.add(ax)
        # witness terms: their model values are reported under the name pvc!w!<key>
        for k, t in (self.meta.get("witness") or {}).items():
            s.add(z3.Const("pvc!w!" + k, t.sort()) == t)
        return s.to_smt2()


class Sink:
    """Collects obligations; names are unique (ordinal suffix per prefix)."""

    def __init__(self):
        self.obls = []
        self._count = {}
        self._seen = {}

    def add(self, prefix, kind, hyps, goal, **kw):
        # trivial / duplicate suppression keeps names stable but avoids solver calls
        n = self._count.get((prefix, kind), 0)
        self._count[(prefix, kind)] = n + 1
        name = "%s:%s:%d" % (prefix, kind, n)
        ob = Obligation(name, kind, hyps, goal, **kw)
        self.obls.append(ob)
        return ob


class LoopSpec:
    def __init__(self, invariant=None, name=None, decreases=None, unfold=None, capture=None, fill=False):
        self.invariant = invariant     # callable(V) -> list[(label, BoolRef)] or list[BoolRef]
        self.name = name
        self.unfold = unfold           # callable(V) -> list[BoolRef] (instances of spec-function definitions)
        self.capture = capture         # callable(ex, Vhead, Vend): custom obligations on one symbolic iteration
        self.fill = fill               # loop is an instance of the fill schema (checked syntactically)


class Contract:
    def __init__(self, file, func, *, shapes=None, nullable=(), requires=None,
                 ensures=None, modifies=(), loops=None, inline=False,
                 local_shapes=None, split=False, ghost=None, facts=None,
                 unroll_limit=200, use_contracts=(), scalars=None, notes="",
                 tag="", fixed=None, after=None, hints=None, macros=None, gen=None, interp=None, lib="phonopy", auto_range=False, race=False):
        self.file = file
        self.func = func
        self.shapes = shapes or {}
        self.nullable = set(nullable)
        self.requires = requires or (lambda V: [])
        self.ensures = ensures or (lambda V: [])
        self.modifies = tuple(modifies)
        self.loops = loops or {}
        self.inline = inline
        self.local_shapes = local_shapes or {}
        self.split = split
        self.facts = facts             # callable(V)->list[BoolRef]: definitional instances usable everywhere
        self.unroll_limit = unroll_limit
        self.use_contracts = set(use_contracts)
        self.notes = notes
        self.tag = tag
        self.fixed = fixed or {}
        self.after = after             # callable(ex, outs): extra obligations from the final states
        self.hints = hints             # callable(label, V) -> dict(backend=..., ...) for post obligations
        self.macros = macros or {}     # macro name -> z3 symbol (floating literals spelled via that macro)
        self.gen = gen                 # callable(random.Random) -> dict of concrete inputs (replay only)
        self.interp = interp           # callable(harness, evaluator, env) -> {spec function name: python callable}
        self.lib = lib
        self.auto_range = auto_range   # symbolic for-loops without an entry get the invariant v >= init
        self.race = race               # generate OpenMP race-freedom obligations for parallel loops

    def instance(self, tag=None, **fixed):
        import copy
        c = copy.copy(self)
        c.fixed = dict(self.fixed)
        c.fixed.update(fixed)
        c.tag = tag if tag is not None else "[" + ",".join("%s=%s" % kv for kv in sorted(c.fixed.items())) + "]"
        return c


def labelled(items, default):
    out = []
    for k, it in enumerate(items):
        if isinstance(it, tuple):
            out.append(it)
        else:
            out.append(("%s%d" % (default, k), it))
    return out
