"""Back ends: z3 (in-process API in forked workers), cvc5 CLI for z3's unknowns,
sympy polynomial normalisation.  A 16-process pool with hard timeouts."""
import multiprocessing as mp
import os
import subprocess
import tempfile
import time

import z3

from . import cas

JOBS = int(os.environ.get("PVC_JOBS", "16"))


def _model_to_dict(m):
    out = {}
    for d in m.decls():
        try:
            v = m[d]
            out[d.name()] = str(v) if not z3.is_as_array(v) else str(m.eval(v))
        except Exception as e:  # pragma: no cover
            out[d.name()] = "?"
    return out


WALL_FACTOR = 8.0


def _cpu_limit(seconds):
    import math
    import resource
    lim = max(1, int(math.ceil(seconds)))
    try:
        resource.setrlimit(resource.RLIMIT_CPU, (lim, lim + 2))
    except (ValueError, OSError):
        pass


def _smt_worker(ob, expect, timeout_ms, conn, tactic):
    """runs in a forked child: the obligation's z3 terms live in the (copied) parent context"""
    t0 = time.time()
    try:
        # The budget is CPU time of this worker (RLIMIT_CPU), so that a verdict does not depend on how busy the other
        # cores are; the solver's own wall-clock timeout is only a generous backstop.
        _cpu_limit(timeout_ms / 1000.0)
        wall_ms = int(timeout_ms * WALL_FACTOR)
        if isinstance(ob, str):
            ctx = z3.Context()
            s = z3.Solver(ctx=ctx)
            s.set("timeout", wall_ms)
            s.from_string(ob)
        else:
            s = z3.Tactic(tactic).solver() if tactic else z3.Solver()
            s.set("timeout", wall_ms)
            if ob.meta.get("random_seed") is not None:
                s.set("smt.random_seed", int(ob.meta["random_seed"]))
            if ob.meta.get("mbqi") is False:
                # E-matching only: sound for proving (unsat stays unsat); 'sat'/'unknown' answers are discarded
                s.set("auto_config", False)
                s.set("smt.mbqi", False)
            ob.add_to(s)
        r = s.check()
        res = {"result": str(r), "time": time.time() - t0}
        if r == z3.sat:
            try:
                res["model"] = _model_to_dict(s.model())
            except Exception as e:
                res["model"] = {"error": str(e)}
        elif r == z3.unknown:
            res["reason"] = s.reason_unknown()
        conn.send(res)
    except Exception as e:
        conn.send({"result": "error", "reason": repr(e), "time": time.time() - t0})
    finally:
        conn.close()


def _poly_worker(ob_repr, conn, cpu_s=None):
    t0 = time.time()
    try:
        if cpu_s:
            _cpu_limit(cpu_s)
        if isinstance(ob_repr, tuple) and ob_repr and ob_repr[0] == "POSCOEF":
            ok, detail = cas.check_poscoef(ob_repr[1:])
        else:
            r_ = cas.check_identity_srepr(ob_repr)
            ok, detail = r_[0], r_[1]
            if not ok and len(r_) > 2:
                conn.send({"result": "sat", "reason": detail, "model": r_[2], "time": time.time() - t0})
                return
        conn.send({"result": "unsat" if ok else "unknown", "reason": detail, "time": time.time() - t0})
    except Exception as e:
        conn.send({"result": "error", "reason": repr(e), "time": time.time() - t0})
    finally:
        conn.close()


def _cvc5(smt2, timeout_s):
    if "(Array Int Int" in smt2:
        return None
    txt = "(set-logic ALL)\n" + smt2
    with tempfile.NamedTemporaryFile("w", suffix=".smt2", delete=False) as f:
        f.write(txt)
        path = f.name
    try:
        p = subprocess.run(["/usr/bin/cvc5", "--tlimit=%d" % int(timeout_s * WALL_FACTOR * 1000), path],
                           capture_output=True, text=True, timeout=timeout_s * WALL_FACTOR + 5,
                           preexec_fn=lambda: _cpu_limit(timeout_s))
        out = p.stdout.strip().splitlines()
        return out[0] if out else None
    except Exception:
        return None
    finally:
        os.unlink(path)


def discharge(obls, budget_s=20.0, jobs=None, progress=None):
    """Decide every obligation whose status is None.  Sets .status/.detail/.time/.model/.solver."""
    jobs = jobs or JOBS
    todo = []
    for ob in obls:
        if ob.status is not None:
            continue
        if ob.backend == "poscoef":
            todo.append((ob, "poly", ("POSCOEF",) + tuple(ob.meta["poscoef"])))
        elif ob.backend == "poly":
            todo.append((ob, "poly", ob.meta.get("pairs") or cas.identity_to_srepr(ob.goal)))
        else:
            todo.append((ob, "smt", ob))
    running = []   # (proc, conn, ob, kind, t_start, payload, stage)
    requeue = []
    ctx = mp.get_context("fork")
    queue = list(todo)
    done = 0

    def launch(ob, kind, payload, stage):
        parent, child = ctx.Pipe(duplex=False)
        if kind == "poly":
            p = ctx.Process(target=_poly_worker, args=(payload, child, budget_s * 3))
        else:
            tactic = ob.meta.get("tactic") if stage == 0 else None
            b_ = min(budget_s, 3.0) if ob.kind in ("cover", "canary") else (min(budget_s, 6.0) if ob.meta.get("finding_witness") else budget_s)
            p = ctx.Process(target=_smt_worker, args=(payload, ob.expect, int(b_ * 1000), child, tactic))
        p.start()
        child.close()
        running.append([p, parent, ob, kind, time.time(), payload, stage])

    def finish(ob, res, kind, payload):
        r = res.get("result")
        ob.time += res.get("time", 0.0)
        ob.solver = "sympy" if kind == "poly" else "z3-%s" % z3.get_version_string()
        if ob.expect == "valid":
            if r == "unsat":
                ob.status = "discharged"
            elif r == "sat":
                ob.status = "refuted"
                ob.model = res.get("model")
            else:
                ob.status = "unknown"
                ob.detail = str(res.get("reason", ""))
        else:  # cover / canary: must be satisfiable
            if r == "sat":
                ob.status = "discharged"
                ob.model = res.get("model")
            elif r == "unsat":
                ob.status = "refuted"
                ob.detail = "vacuous: expected satisfiable"
            else:
                ob.status = "unknown"
                ob.detail = str(res.get("reason", ""))
        if ob.status == "unknown" and kind == "poly" and ob.backend == "poscoef" and ob.goal is not None and not z3.is_true(ob.goal):
            ob.backend = "smt"
            ob.status = None
            ob.detail = "poscoef: " + str(res.get("reason", ""))
            requeue.append(ob)
            return
        if ob.status == "unknown" and kind == "smt":
            r2 = _cvc5(payload.smt2() if not isinstance(payload, str) else payload, budget_s)
            if r2 in ("unsat", "sat"):
                ob.solver = "cvc5"
                if ob.expect == "valid":
                    ob.status = "discharged" if r2 == "unsat" else "unknown"   # cvc5 sat without model: keep undecided
                else:
                    ob.status = "discharged" if r2 == "sat" else "refuted"

    while queue or running or requeue:
        while requeue:
            ob_ = requeue.pop()
            queue.append((ob_, "smt", ob_))
            todo.append(None)
        while queue and len(running) < jobs:
            ob, kind, payload = queue.pop(0)
            launch(ob, kind, payload, 0)
        time.sleep(0.005)
        for item in list(running):
            p, conn, ob, kind, t0, payload, stage = item
            if conn.poll():
                try:
                    res = conn.recv()
                except EOFError:
                    res = {"result": "error", "reason": "worker died"}
                p.join()
                running.remove(item)
                finish(ob, res, kind, payload)
                done += 1
            elif not p.is_alive():
                running.remove(item)
                finish(ob, {"result": "unknown", "reason": "CPU budget exhausted (or worker exited)", "time": time.time() - t0}, kind, payload)
                done += 1
            elif time.time() - t0 > budget_s * WALL_FACTOR + 10:
                p.terminate()
                p.join()
                running.remove(item)
                finish(ob, {"result": "unknown", "reason": "hard timeout", "time": time.time() - t0}, kind, payload)
                done += 1
        if progress:
            progress(done, len(todo))
    return obls
