"""Symbolic executor / VC generator for the C kernels (clang JSON AST).

Semantics (see DESIGN.md 2.1): int/int64_t/char -> mathematical Int with C
truncating / and %; double -> Real; pointers are (block, flat offset); every
block has a logical row-major shape and is a multi-index z3 array; flat offsets
are de-flattened by exact polynomial division and each component gets a range
obligation (which is the bounds check).  Loops with concrete trip counts are
unrolled, all others need an invariant from the sidecar contract.  Calls are
inlined unless the caller's contract lists the callee in ``use_contracts``.
"""
import itertools
from decimal import Decimal
from fractions import Fraction

import z3

from . import cfront
from .cfront import parse_type, node_type, sizeof_elems, scalar_of, arr_dims
from .core import CheckerError, Sink, labelled
from .poly import Poly, from_z3, decompose

MATH_FUNS = {}
for _n in ("sqrt", "exp", "log", "cos", "sin", "cosh", "sinh", "fabs", "tanh"):
    MATH_FUNS[_n] = z3.Function("c_" + _n, z3.RealSort(), z3.RealSort())


def Z(v):
    if isinstance(v, bool):
        return z3.BoolVal(v)
    if isinstance(v, int):
        return z3.IntVal(v)
    if isinstance(v, Fraction):
        return z3.RealVal(v)
    return v


def simp(e):
    return z3.simplify(e)


def is_concrete_bool(e):
    e = simp(e)
    if z3.is_true(e):
        return True
    if z3.is_false(e):
        return False
    return None


def to_bool(v):
    if isinstance(v, Ptr):
        return z3.Not(Z(v.null)) if not isinstance(v.null, bool) else z3.BoolVal(not v.null)
    v = Z(v)
    if z3.is_bool(v):
        return v
    if v.sort() == z3.IntSort():
        return v != 0
    return v != 0


def to_int(v):
    v = Z(v)
    if z3.is_bool(v):
        return z3.If(v, z3.IntVal(1), z3.IntVal(0))
    return v


def to_real(v):
    v = to_int(v)
    if v.sort() == z3.IntSort():
        return z3.ToReal(v)
    return v


def tdiv(a, b):
    """C truncating integer division on mathematical ints (z3 div is Euclidean)."""
    sa, sb = simp(a), simp(b)
    if z3.is_int_value(sa) and z3.is_int_value(sb) and sb.as_long() != 0:
        x, y = sa.as_long(), sb.as_long()
        q = abs(x) // abs(y)
        return z3.IntVal(q if (x >= 0) == (y > 0) else -q)
    absa = z3.If(a >= 0, a, -a)
    absb = z3.If(b >= 0, b, -b)
    q = absa / absb
    # the common case first (kept as one opaque term so that index polynomials do not cancel through it)
    return z3.If(z3.And(a >= 0, b > 0), a / b, z3.If((a >= 0) == (b > 0), q, -q))


def tmod(a, b):
    sa, sb = simp(a), simp(b)
    if z3.is_int_value(sa) and z3.is_int_value(sb) and sb.as_long() != 0:
        x, y = sa.as_long(), sb.as_long()
        q = abs(x) // abs(y)
        q = q if (x >= 0) == (y > 0) else -q
        return z3.IntVal(x - y * q)
    return z3.If(z3.And(a >= 0, b > 0), a % b, a - b * tdiv(a, b))


def trunc(x):
    return z3.If(x >= 0, z3.ToInt(x), -z3.ToInt(-x))


class Block:
    _ids = itertools.count()

    def __init__(self, name, kind, shape, const_data=None):
        self.name = name
        self.kind = kind              # 'real' | 'int'
        self.shape = [Z(s) if s is not None else None for s in shape]
        self.id = next(Block._ids)
        self.const_data = const_data  # dict idx tuple -> python number (global tables)

    def elem_sort(self):
        return z3.RealSort() if self.kind == "real" else z3.IntSort()

    def fresh(self, tag=""):
        doms = [z3.IntSort()] * len(self.shape)
        return z3.Const("%s%s!%d" % (self.name, tag, next(Block._ids)),
                        z3.ArraySort(*doms, self.elem_sort()))

    def __repr__(self):
        return "<Block %s %s>" % (self.name, self.shape)


class Ptr:
    __slots__ = ("block", "off", "pointee", "null")

    def __init__(self, block, off, pointee, null=False):
        self.block = block
        self.off = off          # z3 Int term, in scalar cells
        self.pointee = pointee  # C type the pointer points to
        self.null = null        # python bool or z3 Bool

    def shifted(self, idx):
        return Ptr(self.block, self.off + to_int(idx) * sizeof_elems(self.pointee),
                   self.pointee, self.null)


class FnRef:
    def __init__(self, name):
        self.name = name


class SizeOf:
    def __init__(self, ctype, count=1):
        self.ctype = ctype
        self.count = count


class LVar:
    def __init__(self, did, name):
        self.did = did
        self.name = name


class State:
    def __init__(self):
        self.vars = {}     # decl id -> value
        self.names = {}    # decl id -> C name
        self.mem = {}      # Block -> z3 array term
        self.pc = []
        self.ghost = {}

    def clone(self):
        s = State()
        s.vars = dict(self.vars)
        s.names = self.names
        s.mem = dict(self.mem)
        s.pc = list(self.pc)
        s.ghost = dict(self.ghost)
        return s


def merge_states(states):
    """Merge states that share a pc prefix into one (ITE on the differing part)."""
    if len(states) == 1:
        return states[0]
    n = min(len(s.pc) for s in states)
    k = 0
    while k < n and all(s.pc[k] is states[0].pc[k] or s.pc[k].eq(states[0].pc[k]) for s in states):
        k += 1
    conds = [z3.And(*s.pc[k:]) if len(s.pc) > k else z3.BoolVal(True) for s in states]
    out = State()
    out.names = states[0].names
    out.pc = list(states[0].pc[:k])
    # the disjunction of the branch conditions stays in the pc (exhaustive forks make it True)
    disj = simp(z3.Or(*conds))
    if not z3.is_true(disj):
        out.pc.append(disj)

    def ite(vals):
        r = vals[-1]
        for c, v in zip(reversed(conds[:-1]), reversed(vals[:-1])):
            if v is r or (hasattr(v, "eq") and hasattr(r, "eq") and v.eq(r)):
                continue
            r = z3.If(c, v, r)
        return r

    keys = set()
    for s in states:
        keys.update(s.vars)
    for key in keys:
        vals = [s.vars.get(key) for s in states]
        if any(v is None for v in vals):
            continue  # declared in a branch only: dead afterwards
        v0 = vals[0]
        if isinstance(v0, Ptr) or any(isinstance(v, Ptr) for v in vals):
            blks = {id(v.block): v.block for v in vals if isinstance(v, Ptr) and v.block is not None}
            if all(isinstance(v, Ptr) for v in vals) and len(blks) <= 1:
                # same target, or NULL/uninitialised in some branches (then its null flag is set there)
                blk = next(iter(blks.values())) if blks else None
                ref = next((v for v in vals if v.block is not None), v0)
                nulls = [Z(v.null) if v.block is not None else z3.BoolVal(True) for v in vals]
                offs = [Z(v.off) if v.block is not None else Z(ref.off) for v in vals]
                out.vars[key] = Ptr(blk, ite(offs), ref.pointee, ite(nulls))
            else:
                out.vars[key] = v0  # differing targets: not supported, keep first (checked on use)
        elif isinstance(v0, (FnRef, SizeOf)):
            out.vars[key] = v0
        else:
            out.vars[key] = ite([Z(v) for v in vals])
    blocks = set()
    for s in states:
        blocks.update(s.mem)
    for b in sorted(blocks, key=lambda b_: b_.id):
        vals = [s.mem.get(b) for s in states]
        if any(v is None for v in vals):
            # allocated in some branches only: contents are irrelevant where it does not exist
            have = next(v for v in vals if v is not None)
            vals = [v if v is not None else have for v in vals]
        out.mem[b] = ite(vals)
    gk = set()
    for s in states:
        gk.update(s.ghost)
    for g in gk:
        vals = [s.ghost.get(g) for s in states]
        if all(v is not None for v in vals):
            if isinstance(vals[0], tuple):
                out.ghost[g] = (vals[0][0], ite([v[1] for v in vals]))
            else:
                out.ghost[g] = ite([Z(v) for v in vals])
    return out


def merge_outcomes(outs):
    """[(state, ret)] of one function -> (merged state, merged return value)"""
    if len(outs) == 1:
        return outs[0]
    sts = []
    for s_, r_ in outs:
        s2 = s_.clone()
        if r_ is not None and not isinstance(r_, Ptr):
            s2.vars["__ret"] = r_
        sts.append(s2)
    m = merge_states(sts)
    return m, m.vars.pop("__ret", None)


class ArrayView:
    """Contract-side view of a block through a pointer: logical multi-index access."""

    def __init__(self, ex, arr, block, base_off, shape):
        self.ex = ex
        self.arr = arr
        self.block = block
        self.base = base_off
        self.shape = [Z(s) for s in shape]

    def flat(self, idx):
        if len(idx) != len(self.shape):
            raise CheckerError("view of %s: %d indices for shape %s" % (self.block.name, len(idx), self.shape))
        f = Z(self.base)
        stride = z3.IntVal(1)
        for d in range(len(idx) - 1, -1, -1):
            f = f + Z(idx[d]) * stride
            stride = stride * self.shape[d]
        return f

    def __getitem__(self, idx):
        if not isinstance(idx, tuple):
            idx = (idx,)
        comps = self.ex.split_index(self.block, self.flat(idx))
        if comps is None:
            raise CheckerError("contract view of %s: cannot de-flatten index %s against shape %s"
                               % (self.block.name, idx, self.block.shape))
        return z3.Select(self.arr, *comps)

    def inrange(self, idx):
        return z3.And(*[z3.And(Z(i) >= 0, Z(i) < s) for i, s in zip(idx, self.shape)])


class NS:
    def __init__(self, d):
        self.__dict__.update(d)

    def __getitem__(self, k):
        return self.__dict__[k]

    def __contains__(self, k):
        return k in self.__dict__


class CExec:
    def __init__(self, files, contracts, sink, prefix_fn=None):
        self.files = files            # list of CFile
        self.contracts = contracts    # name -> Contract
        self.sink = sink
        self.globals_blocks = {}
        self.trace = []
        self.abstracted = []

    # ------------------------------------------------------------ lookup
    def find_function(self, name):
        for f in self.files:
            if name in f.functions:
                return f, f.functions[name]
        return None, None

    # ------------------------------------------------------------ obligations
    def oblige(self, kind, st, goal, node=None, label=None, extra_hyps=()):
        g = simp(goal)
        meta = {}
        if node is not None:
            meta["line"] = self.cur_file.line_of(node)
            meta["src"] = self.cur_file.src(node)[:160]
        if label:
            meta["label"] = label
        ob = self.sink.add(self.prefix, kind, list(st.pc) + list(self.facts) + list(extra_hyps), goal, meta=meta)
        if z3.is_true(g):
            ob.status = "discharged"
            ob.solver = "simplify"
        return ob

    # ------------------------------------------------------------ memory
    def split_index(self, block, flat):
        if len(block.shape) == 1:
            return [simp(Z(flat))]
        p = from_z3(simp(Z(flat)))
        # substitute known equalities of the form var == polynomial?  (not needed: exec keeps terms expanded)
        comps = decompose(p, [from_z3(s) if s is not None else Poly.const(1) for s in block.shape])
        if comps is None:
            return None
        return [c.to_z3() for c in comps]

    def locate(self, st, ptr, node, write=False):
        if ptr.block is None:
            raise CheckerError("dereference of NULL/unknown pointer at %s" % self.cur_file.src(node))
        if not isinstance(ptr.null, bool) or ptr.null:
            self.oblige("nonnull", st, z3.Not(Z(ptr.null)), node)
        b = ptr.block
        comps = self.split_index(b, ptr.off)
        if comps is None:
            raise CheckerError("%s: cannot de-flatten index %s of %s with shape %s" % (
                self.prefix, simp(Z(ptr.off)), b.name, b.shape))
        conds = []
        for c, dim in zip(comps, b.shape):
            conds.append(c >= 0)
            if dim is not None:
                conds.append(c < dim)
        self.oblige("bounds", st, z3.And(*conds), node, label=b.name)
        return b, comps

    def load(self, st, ptr, node):
        b, comps = self.locate(st, ptr, node)
        if b.const_data is not None:
            return self.const_lookup(b, comps)
        if self.write_log is not None:
            self.write_log.append(("r", b, comps, list(st.pc), node))
        return z3.Select(st.mem[b], *comps)

    def const_lookup(self, b, comps):
        cs = [simp(c) for c in comps]
        dims = [simp(d).as_long() for d in b.shape]

        def rec(k, idx):
            if k == len(cs):
                v = b.const_data[tuple(idx)]
                return z3.IntVal(v) if b.kind == "int" else z3.RealVal(v)
            if z3.is_int_value(cs[k]):
                return rec(k + 1, idx + [cs[k].as_long()])
            r = rec(k + 1, idx + [dims[k] - 1])
            for j in range(dims[k] - 2, -1, -1):
                r = z3.If(cs[k] == j, rec(k + 1, idx + [j]), r)
            return r
        return rec(0, [])

    def store(self, st, ptr, val, node):
        b, comps = self.locate(st, ptr, node, write=True)
        if b.const_data is not None:
            raise CheckerError("write to constant table %s" % b.name)
        val = to_real(val) if b.kind == "real" else to_int(val)
        st.mem[b] = z3.Store(st.mem[b], *comps, val)
        if self.write_log is not None:
            self.write_log.append(("w", b, comps, list(st.pc), node))

    # ------------------------------------------------------------ globals
    def global_block(self, cf, decl):
        key = (cf.relpath, decl["name"])
        if key in self.globals_blocks:
            return self.globals_blocks[key]
        full = None
        for n in cf.ast["inner"]:
            if n.get("kind") == "VarDecl" and n.get("name") == decl["name"] and n.get("inner"):
                full = n
        t = node_type(full or decl)
        dims = arr_dims(t)
        kind = scalar_of(t)
        data = {}

        def fill(node, idx):
            k = node.get("kind")
            if k == "InitListExpr":
                for j, c in enumerate(node.get("inner", [])):
                    fill(c, idx + [j])
            else:
                data[tuple(idx)] = self.const_eval(node)
        if full is None:
            raise CheckerError("global %s without initialiser" % decl["name"])
        fill([c for c in full["inner"] if c.get("kind") == "InitListExpr"][0], [])
        for idx in itertools.product(*[range(d) for d in dims]):
            data.setdefault(idx, 0)
        b = Block(decl["name"], kind, dims, const_data=data)
        self.globals_blocks[key] = b
        return b

    def const_eval(self, n):
        k = n.get("kind")
        if k in ("ImplicitCastExpr", "ParenExpr", "ConstantExpr", "CStyleCastExpr"):
            return self.const_eval(n["inner"][0])
        if k == "IntegerLiteral":
            return int(n["value"])
        if k == "FloatingLiteral":
            return Fraction(Decimal(n["value"]))
        if k == "UnaryOperator" and n["opcode"] == "-":
            return -self.const_eval(n["inner"][0])
        raise CheckerError("constant initialiser too complex: %s" % k)

    # ------------------------------------------------------------ expressions
    def rvalue(self, st, n):
        k = n["kind"]
        if k in ("ParenExpr", "ConstantExpr"):
            return self.rvalue(st, n["inner"][0])
        if k == "IntegerLiteral":
            return z3.IntVal(int(n["value"]))
        if k == "FloatingLiteral":
            mac = getattr(self.cur_contract, "macros", None)
            if mac:
                b = n.get("range", {}).get("begin", {})
                if "expansionLoc" in b:
                    e = b["expansionLoc"]
                    nm = self.cur_file.text[e["offset"]:e["offset"] + e.get("tokLen", 0)]
                    if nm in mac:
                        # literal spelled through a macro the contract keeps symbolic (its numeric value is a
                        # separate obligation of the contract)
                        self.macro_values[nm] = Fraction(Decimal(n["value"]))
                        return mac[nm]
            return z3.RealVal(Fraction(Decimal(n["value"])))
        if k == "CharacterLiteral":
            return z3.IntVal(int(n["value"]))
        if k == "StringLiteral":
            return None
        if k in ("ImplicitCastExpr", "CStyleCastExpr"):
            return self.cast(st, n)
        if k == "DeclRefExpr":
            rd = n["referencedDecl"]
            if rd["kind"] == "FunctionDecl":
                return FnRef(rd["name"])
            return self.read_place(st, self.lvalue(st, n), n)
        if k == "ArraySubscriptExpr":
            return self.read_place(st, self.lvalue(st, n), n)
        if k == "UnaryOperator":
            return self.unary(st, n)
        if k == "BinaryOperator":
            return self.binary(st, n)
        if k == "CompoundAssignOperator":
            return self.compound_assign(st, n)
        if k == "CallExpr":
            return self.call(st, n)
        if k == "UnaryExprOrTypeTraitExpr":
            if n.get("name") == "sizeof":
                at = n.get("argType")
                if at:
                    return SizeOf(parse_type(at.get("desugaredQualType") or at["qualType"]))
                return SizeOf(node_type(n["inner"][0]))
        if k == "InitListExpr":
            return [self.rvalue(st, c) for c in n.get("inner", [])]
        raise CheckerError("unsupported expression kind %s at %s" % (k, self.cur_file.src(n)))

    def read_place(self, st, place, node):
        if isinstance(place, LVar):
            if place.did not in st.vars:
                raise CheckerError("read of unbound variable %s" % place.name)
            v = st.vars[place.did]
            if v is None:
                # uninitialised scalar: havoc (sound), remembered as such
                raise CheckerError("read of uninitialised variable %s at line %s" % (place.name, self.cur_file.line_of(node)))
            return v
        # memory place
        t = place.pointee
        if isinstance(t, tuple) and t[0] == "arr":
            return place  # array lvalue; decays later
        return self.load(st, place, node)

    def lvalue(self, st, n):
        k = n["kind"]
        if k == "ParenExpr":
            return self.lvalue(st, n["inner"][0])
        if k == "DeclRefExpr":
            rd = n["referencedDecl"]
            did = rd["id"]
            if did in st.vars:
                v = st.vars[did]
                t = parse_type(rd["type"].get("desugaredQualType") or rd["type"]["qualType"])
                if isinstance(t, tuple) and t[0] == "arr" and isinstance(v, Ptr):
                    return v  # local array: place of array type
                return LVar(did, rd["name"])
            # global?
            for cf in self.files:
                if rd["name"] in cf.globals:
                    b = self.global_block(cf, cf.globals[rd["name"]])
                    t = node_type(cf.globals[rd["name"]])
                    return Ptr(b, z3.IntVal(0), t)
            raise CheckerError("unknown variable %s" % rd["name"])
        if k == "ArraySubscriptExpr":
            base = self.rvalue(st, n["inner"][0])
            idx = self.rvalue(st, n["inner"][1])
            if not isinstance(base, Ptr):
                raise CheckerError("subscript of non-pointer at %s" % self.cur_file.src(n))
            return base.shifted(idx)
        if k == "UnaryOperator" and n["opcode"] == "*":
            base = self.rvalue(st, n["inner"][0])
            return base
        if k in ("ImplicitCastExpr",) and n.get("castKind") == "NoOp":
            return self.lvalue(st, n["inner"][0])
        raise CheckerError("unsupported lvalue kind %s" % k)

    def assign(self, st, place, val, node):
        if isinstance(place, LVar):
            st.vars[place.did] = val
        else:
            self.store(st, place, val, node)

    def cast(self, st, n):
        ck = n.get("castKind")
        inner = n["inner"][0]
        if ck == "LValueToRValue":
            return self.read_place(st, self.lvalue(st, inner), inner)
        if ck == "ArrayToPointerDecay":
            p = self.lvalue(st, inner)
            if isinstance(p, Ptr):
                t = p.pointee
                if isinstance(t, tuple) and t[0] == "arr":
                    return Ptr(p.block, p.off, t[2], p.null)
            if inner["kind"] == "StringLiteral":
                return None
            raise CheckerError("array decay of non-array at %s" % self.cur_file.src(n))
        if ck == "FunctionToPointerDecay":
            return self.rvalue(st, inner)
        v = self.rvalue(st, inner)
        if ck in ("IntegralCast", "NoOp", "FloatingCast"):
            return v
        if ck == "BitCast":
            if isinstance(v, Ptr):
                # (T*)malloc(...) : retype
                tgt = node_type(n)
                return Ptr(v.block, v.off, tgt[1], v.null)
            return v
        if ck == "IntegralToFloating":
            return to_real(v)
        if ck == "FloatingToIntegral":
            return trunc(v)
        if ck == "NullToPointer":
            t = node_type(n)
            return Ptr(None, z3.IntVal(0), t[1] if isinstance(t, tuple) else "void", True)
        if ck in ("IntegralToBoolean", "FloatingToBoolean", "PointerToBoolean"):
            return to_bool(v)
        if ck == "BuiltinFnToFnPtr":
            return v
        raise CheckerError("unsupported cast %s at %s" % (ck, self.cur_file.src(n)))

    def unary(self, st, n):
        op = n["opcode"]
        inner = n["inner"][0]
        if op in ("++", "--"):
            place = self.lvalue(st, inner)
            old = self.read_place(st, place, inner)
            if isinstance(old, Ptr):
                new = old.shifted(1 if op == "++" else -1)
            else:
                new = simp(old + (1 if op == "++" else -1))
            self.assign(st, place, new, n)
            return old if n.get("isPostfix") else new
        if op == "-":
            return -self.rvalue(st, inner)
        if op == "+":
            return self.rvalue(st, inner)
        if op == "!":
            return z3.Not(to_bool(self.rvalue(st, inner)))
        if op == "&":
            p = self.lvalue(st, inner)
            if isinstance(p, Ptr):
                return p
            raise CheckerError("address of scalar variable not supported")
        if op == "*":
            return self.read_place(st, self.lvalue(st, n), n)
        raise CheckerError("unsupported unary %s" % op)

    def arith(self, st, op, a, b, node, is_int):
        if op == "+":
            return a + b
        if op == "-":
            return a - b
        if op == "*":
            return a * b
        if op == "/":
            if is_int:
                self.oblige("div", st, b != 0, node)
                return tdiv(a, b)
            self.oblige("div", st, b != 0, node)
            return a / b
        if op == "%":
            self.oblige("div", st, b != 0, node)
            return tmod(a, b)
        raise CheckerError("unsupported arithmetic %s" % op)

    def binary(self, st, n):
        op = n["opcode"]
        L, R = n["inner"]
        if op == "=":
            val = self.rvalue(st, R)
            place = self.lvalue(st, L)
            if isinstance(val, tuple) and val and val[0] == "malloc":
                if not isinstance(place, LVar):
                    raise CheckerError("malloc result stored through memory")
                val = self.bind_malloc(st, place.name, node_type(L), val)
            self.assign(st, place, val, n)
            return val
        if op == ",":
            self.rvalue(st, L)
            return self.rvalue(st, R)
        if op in ("&&", "||"):
            a = to_bool(self.rvalue(st, L))
            ca = is_concrete_bool(a)
            if op == "&&":
                if ca is False:
                    return z3.BoolVal(False)
                st.pc.append(a)
                b = to_bool(self.rvalue(st, R))
                st.pc.pop()
                return z3.And(a, b)
            else:
                if ca is True:
                    return z3.BoolVal(True)
                st.pc.append(z3.Not(a))
                b = to_bool(self.rvalue(st, R))
                st.pc.pop()
                return z3.Or(a, b)
        a = self.rvalue(st, L)
        b = self.rvalue(st, R)
        if isinstance(a, SizeOf) or isinstance(b, SizeOf):
            if op != "*":
                raise CheckerError("sizeof arithmetic other than *")
            if isinstance(a, SizeOf) and isinstance(b, SizeOf):
                raise CheckerError("sizeof*sizeof")
            s, c = (a, b) if isinstance(a, SizeOf) else (b, a)
            return SizeOf(s.ctype, s.count * to_int(c) if not isinstance(s.count, int) or s.count != 1 else to_int(c))
        if isinstance(a, Ptr) or isinstance(b, Ptr):
            if op == "+":
                return a.shifted(b) if isinstance(a, Ptr) else b.shifted(a)
            if op == "-" and isinstance(a, Ptr) and not isinstance(b, Ptr):
                return a.shifted(-to_int(b))
            if op in ("==", "!="):
                an = to_bool(a) if isinstance(a, Ptr) else None
                bn = to_bool(b) if isinstance(b, Ptr) else None
                # only comparisons against NULL are supported
                if isinstance(b, Ptr) and b.block is None:
                    r = z3.Not(an)
                elif isinstance(a, Ptr) and a.block is None:
                    r = z3.Not(bn)
                else:
                    raise CheckerError("pointer comparison")
                return r if op == "==" else z3.Not(r)
            raise CheckerError("unsupported pointer arithmetic %s" % op)
        t = node_type(n)
        if op in ("<", ">", "<=", ">=", "==", "!="):
            a, b = to_int(a), to_int(b)
            if a.sort() != b.sort():
                a, b = to_real(a), to_real(b)
            return {"<": a < b, ">": a > b, "<=": a <= b, ">=": a >= b,
                    "==": a == b, "!=": a != b}[op]
        is_int = (t == "int")
        if is_int:
            a, b = to_int(a), to_int(b)
        else:
            a, b = to_real(a), to_real(b)
        return self.arith(st, op, a, b, n, is_int)

    def compound_assign(self, st, n):
        op = n["opcode"][:-1]
        L, R = n["inner"]
        place = self.lvalue(st, L)
        old = self.read_place(st, place, L)
        r = self.rvalue(st, R)
        if isinstance(old, Ptr):
            new = old.shifted(r if op == "+" else -to_int(r))
        else:
            ct = n.get("computeResultType", {}).get("qualType", "")
            lt = node_type(L)
            rt = parse_type(n["computeResultType"].get("desugaredQualType") or ct) if ct else lt
            if rt == "int":
                new = self.arith(st, op, to_int(old), to_int(r), n, True)
            else:
                new = self.arith(st, op, to_real(old), to_real(r), n, False)
                if lt == "int":
                    new = trunc(new)
        self.assign(st, place, new, n)
        return new

    # ------------------------------------------------------------ calls
    def call(self, st, n):
        callee = self.rvalue(st, n["inner"][0])
        argn = n["inner"][1:]
        if not isinstance(callee, FnRef):
            raise CheckerError("indirect call through unknown pointer at %s" % self.cur_file.src(n))
        name = callee.name
        if name == "fabs":
            a = to_real(self.rvalue(st, argn[0]))
            return z3.If(a >= 0, a, -a)
        if name in MATH_FUNS:
            a = to_real(self.rvalue(st, argn[0]))
            if name == "sqrt":
                self.oblige("domain", st, a >= 0, n, label="sqrt")
            if name == "log":
                self.oblige("domain", st, a > 0, n, label="log")
            return MATH_FUNS[name](a)
        if name == "malloc":
            sz = self.rvalue(st, argn[0])
            if not isinstance(sz, SizeOf):
                raise CheckerError("malloc argument is not sizeof(T)*n")
            return ("malloc", sz)
        if name == "free":
            # the freed block's final contents stay visible to the contract as a ghost (V.a.<name>)
            a0 = self._strip(argn[0])
            if a0.get("kind") == "DeclRefExpr":
                pv = st.vars.get(a0["referencedDecl"]["id"])
                if isinstance(pv, Ptr) and pv.block is not None and pv.block in st.mem:
                    st.ghost["freed:" + a0["referencedDecl"]["name"]] = (pv, st.mem[pv.block])
            return None
        if name in ("printf", "fprintf"):
            return None
        if name == "omp_get_max_threads":
            return z3.Int("omp_max_threads")
        args = [self.rvalue(st, a) for a in argn]
        if name in self.cur_contract.use_contracts:
            return self.call_contract(st, name, args, n)
        cf, fn = self.find_function(name)
        if fn is None:
            raise CheckerError("call to unknown function %s" % name)
        outs = self.run_function(cf, fn, st, args)
        # merge outcomes (states differ by pc suffix)
        sts = [o[0] for o in outs]
        rets = [o[1] for o in outs]
        if len(outs) == 1:
            new = sts[0]
            ret = rets[0]
        else:
            for k, (s_, r_) in enumerate(zip(sts, rets)):
                if r_ is not None and not isinstance(r_, (Ptr,)):
                    s_.vars["__ret"] = r_
            new = merge_states(sts)
            ret = new.vars.pop("__ret", None)
        st.vars = new.vars
        st.mem = new.mem
        st.pc = new.pc
        st.ghost = new.ghost
        return ret

    def run_function(self, cf, fn, st, args, top=False):
        """Execute fn's body inline on (a clone of) st.  Returns [(state, retval)]."""
        saved = (self.cur_file, self.depth)
        self.cur_file = cf
        self.depth += 1
        if self.depth > 12:
            raise CheckerError("call depth")
        self.fn_stack.append((fn["name"], self.ids_of(fn)))
        params = [c for c in fn["inner"] if c["kind"] == "ParmVarDecl"]
        body = [c for c in fn["inner"] if c["kind"] == "CompoundStmt"][0]
        s = st.clone() if not top else st
        for p, a in zip(params, args):
            s.vars[p["id"]] = a
            s.names[p["id"]] = p["name"]
        outs = []
        try:
            for s2, flow, val in self.exec_stmt(s, body):
                outs.append((s2, val if flow == "return" else None))
        finally:
            self.fn_stack.pop()
            self.cur_file, self.depth = saved
        return outs

    def ids_of(self, fn):
        key = fn["id"]
        if key not in self._ids_cache:
            ids = set()

            def _ids(x):
                if isinstance(x, dict):
                    if x.get("kind") in ("VarDecl", "ParmVarDecl"):
                        ids.add(x["id"])
                    for c_ in x.get("inner", []) or []:
                        _ids(c_)
            _ids(fn)
            self._ids_cache[key] = ids
        return self._ids_cache[key]

    def ordinal_of(self, loop_node):
        fname = self.fn_stack[-1][0]
        if fname not in self.loop_ordinals:
            cf, fn = self.find_function(fname)
            self.number_loops(fn)
            self.loop_ordinals[fname] = self.loop_ordinal
        return self.loop_ordinals[fname].get(loop_node["id"])

    def check_pure(self, ret, contract, lab):
        allowed = set(self.param_blocks) | set(self.cur_P.__dict__) | {str(m_) for m_ in (contract.macros or {}).values()}
        seen = set()

        def walk(e):
            if e.get_id() in seen:
                return
            seen.add(e.get_id())
            if z3.is_const(e) and e.decl().kind() == z3.Z3_OP_UNINTERPRETED:
                if e.decl().name() not in allowed:
                    raise CheckerError("%s: definitional clause %s but the value depends on %s" % (self.prefix, lab, e))
            for c in e.children():
                walk(c)
        if ret is not None:
            walk(ret)
        ob = self.sink.add(self.prefix, "pure", [], z3.BoolVal(True), meta={"label": lab + ": value is a function of the arguments"})
        ob.status = "discharged"
        ob.solver = "syntactic"

    def view_for(self, st, contract, pname, ptr, mem, P):
        shape = contract.shapes[pname](P)
        return ArrayView(self, mem[ptr.block], ptr.block, ptr.off, shape)

    def _callee_region(self, c, pname, ptr, P):
        """multi-index (in the caller's logical shape of the block) of an access a callee taken by contract may perform through
        parameter `pname`: anywhere in the block in general; if the callee's declared view has the shape of the trailing
        dimensions of the block and starts at a multi-index whose trailing components are zero, the leading components are
        those of the start and only the trailing ones are unknown (e.g. one matrix out of an array of matrices)."""
        b = ptr.block
        unk = [z3.Int("callee!idx!%d" % next(Block._ids)) for _ in b.shape]
        try:
            vshape = [Z(x) for x in c.shapes[pname](P)] if pname in c.shapes else None
        except Exception:      # noqa: BLE001
            vshape = None
        if not vshape or len(vshape) >= len(b.shape):
            return unk
        k = len(b.shape) - len(vshape)
        if not all(b.shape[k + t] is not None and simp(vshape[t] - Z(b.shape[k + t])).eq(z3.IntVal(0)) for t in range(len(vshape))):
            return unk
        comps = self.split_index(b, ptr.off)
        if comps is None or not all(simp(comps[k + t]).eq(z3.IntVal(0)) for t in range(len(vshape))):
            return unk
        return list(comps[:k]) + unk[k:]

    def call_contract(self, st, name, args, node):
        c = self.contracts[name]
        cf, fn = self.find_function(name)
        params = [p for p in fn["inner"] if p["kind"] == "ParmVarDecl"]
        scal = {}
        ptrs = {}
        for p, a in zip(params, args):
            if isinstance(a, Ptr):
                ptrs[p["name"]] = a
            elif isinstance(a, FnRef):
                pass
            else:
                t = node_type(p)
                scal[p["name"]] = to_real(a) if t == "real" else to_int(a)
        P = NS(scal)
        nulls = {k: Z(v.null) for k, v in ptrs.items()}
        pre_mem = dict(st.mem)

        def views(mem):
            d = {}
            for k, v in ptrs.items():
                if v.block is not None and k in c.shapes:
                    d[k] = self.view_for(st, c, k, v, mem, P)
            return NS(d)
        Vpre = NS({"p": P, "a": views(pre_mem), "null": NS(nulls), "old": None, "ret": None})
        for lab, r in labelled(c.requires(Vpre), "pre"):
            self.oblige("call-pre", st, r, node, label="%s:%s" % (name, lab))
        # havoc modifies
        for m in c.modifies:
            if m in ptrs and ptrs[m].block is not None:
                b = ptrs[m].block
                st.mem[b] = b.fresh("@" + name)
                if self.write_log is not None:
                    # inside a parallel region a callee taken by contract writes somewhere inside its VIEW of this block
                    self.write_log.append(("w", b, self._callee_region(c, m, ptrs[m], P), list(st.pc), node))
        if self.write_log is not None:
            for pn, pv in ptrs.items():
                if pv.block is not None and pn not in c.modifies:
                    self.write_log.append(("r", pv.block, self._callee_region(c, pn, pv, P), list(st.pc), node))
        rt = parse_type(fn["type"]["qualType"].split("(")[0].strip())
        ret = None
        if rt == "real":
            ret = z3.Real("%s!ret%d" % (name, next(Block._ids)))
        elif rt == "int":
            ret = z3.Int("%s!ret%d" % (name, next(Block._ids)))
        Vold = NS({"p": P, "a": views(pre_mem), "null": NS(nulls)})
        Vpost = NS({"p": P, "a": views(st.mem), "null": NS(nulls), "old": Vold, "ret": ret})
        for lab, e in labelled(c.ensures(Vpost), "post"):
            st.pc.append(e)
        # frame of modified blocks outside the callee's view is part of the callee's ensures
        return ret

    # ------------------------------------------------------------ statements
    def exec_block(self, st, stmts):
        """Run a list of statements; returns [(state, flow, val)]."""
        cur = [(st, "normal", None)]
        for s in stmts:
            nxt = []
            for (x, fl, v) in cur:
                if fl != "normal":
                    nxt.append((x, fl, v))
                else:
                    nxt.extend(self.exec_stmt(x, s))
            cur = nxt
        return cur

    def exec_stmt(self, st, n):
        k = n["kind"]
        if k == "CompoundStmt":
            return self.exec_block(st, n.get("inner", []))
        if k == "DeclStmt":
            for d in n["inner"]:
                self.declare(st, d)
            return [(st, "normal", None)]
        if k == "NullStmt":
            return [(st, "normal", None)]
        if k == "ReturnStmt":
            v = self.rvalue(st, n["inner"][0]) if n.get("inner") else None
            return [(st, "return", v)]
        if k == "BreakStmt":
            return [(st, "break", None)]
        if k == "ContinueStmt":
            return [(st, "continue", None)]
        if k == "IfStmt":
            return self.exec_if(st, n)
        if k == "ForStmt":
            return self.exec_loop(st, n, is_for=True)
        if k == "WhileStmt":
            return self.exec_loop(st, n, is_for=False)
        if k == "SwitchStmt":
            return self.exec_switch(st, n)
        if k == "OMPParallelForDirective":
            return self.exec_omp(st, n)
        # expression statement
        v = self.rvalue(st, n)
        if isinstance(v, tuple) and v and v[0] == "malloc":
            raise CheckerError("malloc result unused")
        return [(st, "normal", None)]

    def declare(self, st, d):
        if d["kind"] != "VarDecl":
            return
        t = node_type(d)
        st.names[d["id"]] = d["name"]
        if isinstance(t, tuple) and t[0] == "arr":
            dims = arr_dims(t)
            b = Block(d["name"], scalar_of(t), dims)
            st.mem[b] = b.fresh()
            st.vars[d["id"]] = Ptr(b, z3.IntVal(0), t)
            if d.get("inner"):
                init = self.rvalue(st, d["inner"][0])
                flat = []

                def fl(x):
                    if isinstance(x, list):
                        for y in x:
                            fl(y)
                    else:
                        flat.append(x)
                fl(init)
                for idx, v in zip(itertools.product(*[range(x) for x in dims]), flat):
                    val = to_real(v) if b.kind == "real" else to_int(v)
                    st.mem[b] = z3.Store(st.mem[b], *[z3.IntVal(i) for i in idx], val)
            return
        if d.get("inner"):
            v = self.rvalue(st, d["inner"][0])
            v = self.bind_malloc(st, d["name"], t, v)
            st.vars[d["id"]] = v
        else:
            if isinstance(t, tuple) and t[0] == "ptr":
                st.vars[d["id"]] = Ptr(None, z3.IntVal(0), t[1], True)
            else:
                # uninitialised scalar: fresh unknown
                st.vars[d["id"]] = (z3.Real if t == "real" else z3.Int)("%s!u%d" % (d["name"], next(Block._ids)))

    def bind_malloc(self, st, vname, t, v):
        if isinstance(v, tuple) and v and v[0] == "malloc":
            sz = v[1]
            elem = t[1]
            kind = scalar_of(elem)
            n_elem = simp(Z(sz.count) * sizeof_elems(sz.ctype))
            shp = None
            if vname in self.cur_contract.local_shapes:
                shp = self.cur_contract.local_shapes[vname](self.cur_V(st))
                # obligation: declared shape has exactly the malloc'ed size
                tot = z3.IntVal(1)
                for s_ in shp:
                    tot = tot * Z(s_)
                self.oblige("malloc-shape", st, tot == n_elem, None, label=vname)
            else:
                shp = [n_elem]
            b = Block(vname, kind, shp)
            st.mem[b] = b.fresh()
            return Ptr(b, z3.IntVal(0), elem, False)
        return v

    def cur_V(self, st):
        return self.make_V(st)

    def exec_if(self, st, n):
        inner = n["inner"]
        cond = to_bool(self.rvalue(st, inner[0]))
        cc = is_concrete_bool(cond)
        then_s = inner[1]
        else_s = inner[2] if len(inner) > 2 else None
        if cc is True:
            return self.exec_stmt(st, then_s)
        if cc is False:
            return self.exec_stmt(st, else_s) if else_s is not None else [(st, "normal", None)]
        if getattr(self.cur_contract, "prune", False):
            # solver-based pruning of branches that are infeasible under the path condition (sound: a branch is
            # dropped only when pc /\ cond is unsatisfiable)
            if not self.feasible(st, cond):
                return self.exec_stmt(st, else_s) if else_s is not None else [(st, "normal", None)]
            if not self.feasible(st, z3.Not(cond)):
                return self.exec_stmt(st, then_s)
        s1 = st.clone()
        s1.pc.append(cond)
        s2 = st.clone()
        s2.pc.append(z3.Not(cond))
        o1 = self.exec_stmt(s1, then_s)
        o2 = self.exec_stmt(s2, else_s) if else_s is not None else [(s2, "normal", None)]
        outs = o1 + o2
        if self.split_here():
            return outs
        normal = [o for o in outs if o[1] == "normal"]
        other = [o for o in outs if o[1] != "normal"]
        if len(normal) > 1:
            m = merge_states([o[0] for o in normal])
            normal = [(m, "normal", None)]
        return normal + other

    def feasible(self, st, cond):
        """False only if pc /\\ cond is unsatisfiable (first with the linear hypotheses only, which is fast)"""
        def linear(e, memo={}):
            k = e.get_id()
            if k in memo:
                return memo[k]
            r = True
            if z3.is_quantifier(e):
                r = False
            elif z3.is_app(e):
                kk = e.decl().kind()
                ch = e.children()
                if kk == z3.Z3_OP_MUL and sum(1 for c in ch if not (z3.is_int_value(c) or z3.is_rational_value(c))) > 1:
                    r = False
                elif kk == z3.Z3_OP_DIV and not (z3.is_int_value(ch[1]) or z3.is_rational_value(ch[1])):
                    r = False
                else:
                    r = all(linear(c) for c in ch)
            memo[k] = r
            return r
        hyps = list(st.pc) + list(self.facts)
        for subset in ([h for h in hyps if linear(h)], hyps):
            sol = z3.Solver()
            sol.set("timeout", 1500)
            for h in subset:
                sol.add(h)
            sol.add(cond)
            if sol.check() == z3.unsat:
                return False
            if len(subset) == len(hyps):
                break
        return True

    def split_here(self):
        sp = self.cur_contract.split
        if sp is True:
            sp = 1
        return bool(sp) and self.depth <= sp

    def exec_switch(self, st, n):
        cond = to_int(self.rvalue(st, n["inner"][0]))
        body = n["inner"][1]
        stmts = body.get("inner", [])
        # flatten labels: list of (label value or 'default' or None, stmt)
        seq = []
        for s in stmts:
            while s["kind"] in ("CaseStmt", "DefaultStmt"):
                if s["kind"] == "CaseStmt":
                    lab = self.const_eval(s["inner"][0])
                    seq.append((lab, None))
                    s = s["inner"][-1]
                else:
                    seq.append(("default", None))
                    s = s["inner"][-1]
            seq.append((None, s))
        labels = [(i, l) for i, (l, s) in enumerate(seq) if l is not None]
        outs = []
        sc = simp(cond)

        def run_from(state, pos):
            res = []
            cur = [(state, "normal", None)]
            for (l, s) in seq[pos:]:
                if s is None:
                    continue
                nxt = []
                for (x, fl, v) in cur:
                    if fl != "normal":
                        nxt.append((x, fl, v))
                    else:
                        nxt.extend(self.exec_stmt(x, s))
                cur = nxt
            for (x, fl, v) in cur:
                if fl == "break":
                    res.append((x, "normal", None))
                else:
                    res.append((x, fl, v))
            return res
        default_pos = next((i for i, l in labels if l == "default"), None)
        if z3.is_int_value(sc):
            v = sc.as_long()
            pos = next((i for i, l in labels if l == v), default_pos)
            if pos is None:
                return [(st, "normal", None)]
            return run_from(st, pos)
        notany = []
        for i, l in labels:
            if l == "default":
                continue
            s1 = st.clone()
            s1.pc.append(cond == l)
            notany.append(cond != l)
            outs.extend(run_from(s1, i))
        s2 = st.clone()
        s2.pc.append(z3.And(*notany))
        if default_pos is not None:
            outs.extend(run_from(s2, default_pos))
        else:
            outs.append((s2, "normal", None))
        normal = [o for o in outs if o[1] == "normal"]
        other = [o for o in outs if o[1] != "normal"]
        if len(normal) > 1:
            normal = [(merge_states([o[0] for o in normal]), "normal", None)]
        return normal + other

    # ---- loops
    def loop_parts(self, n, is_for):
        inner = n["inner"]
        if is_for:
            # [init, condvar(None -> {}), cond, inc, body]
            init, _cv, cond, inc, body = inner
            return init, cond, inc, body
        cond, body = inner
        return None, cond, None, body

    def exec_loop(self, st, n, is_for):
        ordinal = self.ordinal_of(n)
        init, cond, inc, body = self.loop_parts(n, is_for)
        if init and init.get("kind"):
            self.exec_stmt(st, init)
        if self.depth == 1:
            spec = self.cur_contract.loops.get(ordinal)
        else:
            spec = self.cur_contract.loops.get((self.fn_stack[-1][0], ordinal))
        if spec is None and getattr(self.cur_contract, "auto_range", False) and is_for:
            spec = self.auto_range_spec(st, n, cond, inc)
        if spec is not None:
            if getattr(spec, "fill", False):
                return self.exec_loop_fill(st, n, cond, inc, body, ordinal)
            return self.exec_loop_inv(st, n, cond, inc, body, spec, ordinal)
        # unroll with concrete condition
        results = []
        cur = [st]
        count = 0
        while cur:
            nxt = []
            for s in cur:
                c = to_bool(self.rvalue(s, cond)) if cond and cond.get("kind") else z3.BoolVal(True)
                cc = is_concrete_bool(c)
                if cc is None:
                    raise CheckerError("%s: loop #%s at line %d has a symbolic trip count and no invariant (cond %s)" % (
                        self.prefix, ordinal, self.cur_file.line_of(n), simp(c)))
                if cc is False:
                    results.append((s, "normal", None))
                    continue
                for (x, fl, v) in self.exec_stmt(s, body):
                    if fl in ("normal", "continue"):
                        if inc and inc.get("kind"):
                            self.rvalue(x, inc)
                        nxt.append(x)
                    elif fl == "break":
                        results.append((x, "normal", None))
                    else:
                        results.append((x, fl, v))
            count += 1
            if count > self.cur_contract.unroll_limit:
                raise CheckerError("unroll limit exceeded in %s loop #%s" % (self.prefix, ordinal))
            cur = nxt
        if not self.split_here():
            normal = [o for o in results if o[1] == "normal"]
            other = [o for o in results if o[1] != "normal"]
            if len(normal) > 1:
                normal = [(merge_states([o[0] for o in normal]), "normal", None)]
            results = normal + other
        return results

    def modset(self, st, stmt):
        """Syntactic over-approximation of (scalar decl ids, blocks) written by stmt."""
        vars_, blocks = set(), set()
        ptr_assigned = {}

        def root(e):
            k = e["kind"]
            if k in ("ParenExpr", "ImplicitCastExpr", "CStyleCastExpr", "ConstantExpr"):
                return root(e["inner"][0])
            if k == "ArraySubscriptExpr":
                return root(e["inner"][0])
            if k == "UnaryOperator" and e["opcode"] in ("*", "&"):
                return root(e["inner"][0])
            if k == "BinaryOperator" and e["opcode"] in ("+", "-"):
                return root(e["inner"][0])
            if k == "DeclRefExpr":
                return e["referencedDecl"]
            return None

        def is_mem_lvalue(e):
            k = e["kind"]
            if k == "ParenExpr":
                return is_mem_lvalue(e["inner"][0])
            return k == "ArraySubscriptExpr" or (k == "UnaryOperator" and e["opcode"] == "*")

        def note_write(e):
            if is_mem_lvalue(e):
                r = root(e)
                if r is not None:
                    self._mod_block(st, r, blocks, ptr_assigned)
            else:
                r = root(e)
                if r is not None:
                    vars_.add(r["id"])

        def walk(e):
            if not isinstance(e, dict):
                return
            k = e.get("kind")
            if k == "BinaryOperator" and e["opcode"] == "=":
                L, R = e["inner"]
                if not is_mem_lvalue(L):
                    r = root(L)
                    if r is not None:
                        rr = root(R)
                        if rr is not None:
                            ptr_assigned.setdefault(r["id"], []).append(rr)
                note_write(L)
            elif k == "CompoundAssignOperator":
                note_write(e["inner"][0])
            elif k == "UnaryOperator" and e["opcode"] in ("++", "--"):
                note_write(e["inner"][0])
            elif k == "CallExpr":
                cal = root(e["inner"][0])
                name = cal["name"] if cal else None
                if name not in MATH_FUNS and name not in ("free", "printf", "malloc"):
                    cf, fn = self.find_function(name)
                    if fn is not None:
                        params = [p for p in fn["inner"] if p["kind"] == "ParmVarDecl"]
                        con = self.contracts.get(name)
                        for p, a in zip(params, e["inner"][1:]):
                            qt = p["type"].get("desugaredQualType") or p["type"]["qualType"]
                            t = parse_type(qt)
                            if isinstance(t, tuple) and t[0] in ("ptr", "arr"):
                                writable = not qt.strip().startswith("const")
                                if con is not None and name in self.cur_contract.use_contracts:
                                    writable = p["name"] in con.modifies
                                if writable:
                                    r = root(a)
                                    if r is not None:
                                        self._mod_block(st, r, blocks, ptr_assigned)
            elif k == "VarDecl":
                vars_.add(e["id"])
            for c in e.get("inner", []) or []:
                walk(c)
        walk(stmt)
        return vars_, blocks

    def _mod_block(self, st, decl, blocks, ptr_assigned, seen=None):
        seen = seen or set()
        if decl["id"] in seen:
            return
        seen.add(decl["id"])
        v = st.vars.get(decl["id"])
        if isinstance(v, Ptr) and v.block is not None:
            blocks.add(v.block)
        for rr in ptr_assigned.get(decl["id"], []):
            self._mod_block(st, rr, blocks, ptr_assigned, seen)

    def make_V(self, st, pre=None):
        """View object handed to contract lambdas: .v scalars by C name, .a arrays, .old, .pre"""
        scal = {}
        arrs = {}
        nulls = {}
        for did, val in st.vars.items():
            nm = st.names.get(did)
            if nm is None or did not in self.fn_stack[-1][1]:
                continue
            if isinstance(val, Ptr):
                if val.block is not None:
                    shp = None
                    skey = nm if len(self.fn_stack) == 1 else "%s.%s" % (self.fn_stack[-1][0], nm)
                    if skey in self.cur_contract.shapes and self.cur_P is not None:
                        shp = self.cur_contract.shapes[skey](self.cur_P)
                    elif nm in self.cur_contract.local_shapes:
                        shp = val.block.shape
                    else:
                        shp = val.block.shape
                    if val.block.const_data is None and val.block in st.mem:
                        arrs[nm] = ArrayView(self, st.mem[val.block], val.block, val.off, shp)
                nulls[nm] = Z(val.null)
            elif isinstance(val, (FnRef, SizeOf)) or val is None:
                continue
            else:
                scal[nm] = val
        for gk, gv in st.ghost.items():
            if gk.startswith("freed:") and isinstance(gv, tuple):
                nm = gk[6:]
                if nm not in arrs:
                    pv, arrt = gv
                    arrs[nm] = ArrayView(self, arrt, pv.block, pv.off, pv.block.shape)
        V = NS({"v": NS(scal), "p": self.cur_P, "a": NS(arrs), "null": NS(nulls),
                "old": self.cur_old, "pre": pre, "ret": None, "g": NS({k_: v_ for k_, v_ in st.ghost.items() if not isinstance(v_, tuple)}), "ex": self, "st": st})
        return V

    def custom(self, V, kind, label, goal, hyps=(), backend="smt", pairs=None, replay=None, tactic=None):
        """Contract-emitted obligation under the path condition of V's state."""
        ob = self.oblige(kind, V.st, goal, None, label=label, extra_hyps=hyps)
        ob.backend = backend
        if pairs is not None:
            ob.meta["pairs"] = pairs
        if tactic:
            ob.meta["tactic"] = tactic
        ob.replay = replay
        return ob

    def exec_loop_inv(self, st, n, cond, inc, body, spec, ordinal):
        tag = "loop%d" % ordinal
        pre_state = st.clone()
        Vpre = self.make_V(pre_state)
        if not hasattr(self, "outer_pres"):
            self.outer_pres = []
        Vpre.__dict__["outer"] = list(self.outer_pres)
        if spec.define:
            base_inv = spec.invariant
            dfn = spec.define

            def inv_with_defs(V, base_inv=base_inv, dfn=dfn):
                return list(base_inv(V)) + [("def:" + nm, V.v[nm] == ex_) for nm, ex_ in dfn(V).items()]
            from .core import LoopSpec as _LS
            spec = _LS(inv_with_defs, unfold=spec.unfold, capture=spec.capture, define=dfn)
        # establish
        V0 = self.make_V(st, pre=Vpre)
        extra0 = spec.unfold(V0) if spec.unfold else []
        for lab, e in labelled(spec.invariant(V0), "inv"):
            self.oblige("establish", st, e, n, label="%s:%s" % (tag, lab), extra_hyps=extra0)
        # havoc
        mv, mb = self.modset(st, {"kind": "CompoundStmt", "inner": [body] + ([inc] if inc and inc.get("kind") else [])})
        h = st.clone()
        # deterministic order (clang's node ids and object addresses differ from run to run): fresh names, and with them
        # the text handed to the solver, must not depend on set iteration order
        mv = sorted(mv, key=lambda d: (h.names.get(d, ""), list(h.vars).index(d) if d in h.vars else -1))
        mb = sorted(mb, key=lambda b_: b_.id)
        for did in mv:
            if did in h.vars and not isinstance(h.vars[did], (Ptr, FnRef, SizeOf)) and h.vars[did] is not None:
                old = Z(h.vars[did])
                nm = h.names.get(did, "v")
                if old.sort() == z3.IntSort():
                    h.vars[did] = z3.Int("%s@%s!%d" % (nm, tag, next(Block._ids)))
                elif old.sort() == z3.RealSort():
                    h.vars[did] = z3.Real("%s@%s!%d" % (nm, tag, next(Block._ids)))
                else:
                    h.vars[did] = z3.Bool("%s@%s!%d" % (nm, tag, next(Block._ids)))
            elif did in h.vars and isinstance(h.vars[did], Ptr):
                # pointer locals assigned inside the loop: must be re-assigned before use; mark unknown
                p = h.vars[did]
                h.vars[did] = Ptr(p.block, z3.Int("%s@%s!off%d" % (h.names.get(did, "p"), tag, next(Block._ids))), p.pointee, p.null)
        for b in mb:
            if b in h.mem:
                h.mem[b] = b.fresh("@" + tag)
        Vh = self.make_V(h, pre=Vpre)
        inv_h = [e for _, e in labelled(spec.invariant(Vh), "inv")]
        h.pc.extend(inv_h)
        if spec.define:
            # the invariant states name == expr: use the expression from here on (sound substitution of equals)
            defs = spec.define(Vh)
            for did, val in list(h.vars.items()):
                nm = h.names.get(did)
                if nm in defs and did in self.fn_stack[-1][1]:
                    h.vars[did] = defs[nm]
        if spec.unfold:
            h.pc.extend(spec.unfold(Vh))
        results = []
        # exit path
        ex = h.clone()
        c_ex = to_bool(self.rvalue(ex, cond))
        ex.pc.append(z3.Not(c_ex))
        results.append((ex, "normal", None))
        # body path
        bd = h.clone()
        c_bd = to_bool(self.rvalue(bd, cond))
        bd.pc.append(c_bd)
        self.outer_pres.append(Vpre)
        try:
            body_outs = self.exec_stmt(bd, body)
        finally:
            self.outer_pres.pop()
        for (x, fl, v) in body_outs:
            if fl in ("normal", "continue"):
                if inc and inc.get("kind"):
                    self.rvalue(x, inc)
                Vx = self.make_V(x, pre=Vpre)
                extra = spec.unfold(Vx) if spec.unfold else []
                for lab, e in labelled(spec.invariant(Vx), "inv"):
                    self.oblige("preserve", x, e, n, label="%s:%s" % (tag, lab), extra_hyps=extra)
                if spec.capture:
                    spec.capture(self, Vh, Vx)
            elif fl == "break":
                results.append((x, "normal", None))
            else:
                results.append((x, fl, v))
        return results

    def auto_range_spec(self, st, n, cond, inc):
        """for (v = e; v < hi; v++) with symbolic trip count and no contract entry: the invariant v >= e
        (checked like any other invariant); None if the loop is concrete or does not match."""
        from .core import LoopSpec
        c = self._strip(cond) if cond and cond.get("kind") else None
        if c is None or c["kind"] != "BinaryOperator" or c["opcode"] not in ("<", "<="):
            return None
        iv = self._strip(c["inner"][0])
        if iv["kind"] != "DeclRefExpr":
            return None
        did = iv["referencedDecl"]["id"]
        if not (inc and inc.get("kind") == "UnaryOperator" and inc["opcode"] == "++" and
                self._strip(inc["inner"][0]).get("referencedDecl", {}).get("id") == did):
            return None
        cc = is_concrete_bool(to_bool(self.rvalue(st.clone(), cond)))
        if cc is not None:
            return None
        init = st.vars[did]
        name = iv["referencedDecl"]["name"]

        def inv(V, init=init, name=name):
            return [("auto-range", V.v[name] >= init)]
        return LoopSpec(inv)

    def exec_loop_fill(self, st, n, cond, inc, body, ordinal):
        """Schema for `for (i = 0; i < N; i++) { a[i] = c; ... }` over the whole flat extent of a block:
        accepted only if the pattern is matched syntactically and N equals the block's size as a polynomial;
        the effect is `forall cells: a[cell] == c` (row-major indexing is a bijection onto [0, N))."""
        from .poly import from_z3 as _p
        stmts = body.get("inner", []) if body["kind"] == "CompoundStmt" else [body]
        if cond["kind"] != "BinaryOperator" or cond["opcode"] != "<":
            raise CheckerError("fill schema: loop condition is not i < N")
        ivar = self._strip(cond["inner"][0])
        if ivar["kind"] != "DeclRefExpr":
            raise CheckerError("fill schema: loop variable")
        i_id = ivar["referencedDecl"]["id"]
        if not (inc and inc["kind"] == "UnaryOperator" and inc["opcode"] == "++" and self._strip(inc["inner"][0])["referencedDecl"]["id"] == i_id):
            raise CheckerError("fill schema: increment is not i++")
        i0 = simp(Z(st.vars[i_id]))
        if not (z3.is_int_value(i0) and i0.as_long() == 0):
            raise CheckerError("fill schema: loop does not start at 0")
        N = to_int(self.rvalue(st, cond["inner"][1]))
        tag = "fill%d" % ordinal
        for s_ in stmts:
            if not (s_["kind"] == "BinaryOperator" and s_["opcode"] == "="):
                raise CheckerError("fill schema: body statement is not an assignment")
            L, Rr = s_["inner"]
            # L must be base[i] or base[i][const]...
            chain = []
            e = self._strip(L)
            while e["kind"] == "ArraySubscriptExpr":
                chain.append(self._strip(e["inner"][1]))
                e = self._strip(e["inner"][0])
            chain.reverse()
            if e["kind"] != "DeclRefExpr" or not chain:
                raise CheckerError("fill schema: target is not an array element")
            if not (chain[0]["kind"] == "DeclRefExpr" and chain[0]["referencedDecl"]["id"] == i_id):
                raise CheckerError("fill schema: first subscript is not the loop variable")
            base = st.vars[e["referencedDecl"]["id"]]
            if not isinstance(base, Ptr) or base.block is None:
                raise CheckerError("fill schema: unknown base")
            rest = [self.const_eval(c) for c in chain[1:]]
            val = self.rvalue(st, Rr)
            if isinstance(val, (Ptr,)) or not z3.is_rational_value(simp(to_real(val))) and not z3.is_int_value(simp(Z(val))):
                raise CheckerError("fill schema: value is not a constant")
            b = base.block
            per = sizeof_elems(base.pointee)
            size = z3.IntVal(1)
            for d in b.shape:
                size = size * d
            if not (simp(Z(base.off)).eq(z3.IntVal(0))):
                raise CheckerError("fill schema: base pointer is offset")
            lhs, rhs = _p(simp(N * per)), _p(simp(size))
            rows = None
            if not (lhs - rhs).is_zero():
                # a prefix of leading rows: N*per == r * (product of the trailing dimensions), r <= shape[0]
                trail = z3.IntVal(1)
                for d in b.shape[1:]:
                    trail = trail * d
                comps = decompose(lhs, [_p(z3.IntVal(1)), _p(simp(trail))])
                if comps is None or not comps[1].is_zero():
                    raise CheckerError("fill schema: N*%d (%s) is not a whole number of leading rows of %s (block size %s)" % (per, lhs, b.name, rhs))
                rows = comps[0].to_z3()
                self.oblige("fill", st, z3.And(rows >= 0, rows <= b.shape[0]), n, label="fill%d: %s rows of %s" % (ordinal, rows, b.name))
            # which cells of each group of `per` are written: offset of rest within pointee
            dims = arr_dims(base.pointee)
            off = 0
            for c, d in zip(rest, dims):
                off = off * d + c
            if len(rest) != len(dims):
                raise CheckerError("fill schema: partial subscript")
            new = b.fresh("@" + tag)
            idx = [z3.Int("q%d!%s" % (k, tag)) for k in range(len(b.shape))]
            rng = z3.And(*[z3.And(x >= 0, x < d) for x, d in zip(idx, b.shape)])
            flat = idx[0]
            for x, d in zip(idx[1:], b.shape[1:]):
                flat = flat * d + x
            v = to_real(val) if b.kind == "real" else to_int(val)
            if per == 1:
                hit = z3.BoolVal(True)
            else:
                hit = (flat % per == off)
            if rows is not None:
                hit = z3.And(hit, idx[0] < rows)
            st.pc.append(z3.ForAll(idx, z3.Implies(rng, z3.Select(new, *idx) == z3.If(hit, v, z3.Select(st.mem[b], *idx)))))
            st.mem[b] = new
            ob = self.sink.add(self.prefix, "fill", [], z3.BoolVal(True), meta={"label": "%s: loop matches the fill schema for %s" % (tag, b.name)})
            ob.status = "discharged"
            ob.solver = "syntactic"
        self.oblige("fill", st, N >= 0, n, label=tag + ": extent is non-negative")
        st.vars[i_id] = N
        return [(st, "normal", None)]

    def _strip(self, e):
        while e["kind"] in ("ParenExpr", "ImplicitCastExpr", "CStyleCastExpr", "ConstantExpr"):
            e = e["inner"][0]
        return e

    def exec_omp(self, st, n):
        # sequential semantics: run the associated loop; race obligations are produced by omp.py
        def find_for(x):
            if isinstance(x, dict):
                if x.get("kind") == "ForStmt":
                    return x
                for c in x.get("inner", []) or []:
                    r = find_for(c)
                    if r is not None:
                        return r
            return None
        cap = [c for c in n["inner"] if c.get("kind") == "CapturedStmt"][0]
        f = find_for(cap)
        if not getattr(self.cur_contract, "race", False):
            return self.exec_loop(st, f, True)
        return self.exec_omp_race(st, n, f)

    def pragma_text(self, for_node):
        """source text of the '#pragma omp ...' line(s) in front of the loop"""
        off = for_node["range"]["begin"].get("offset")
        if off is None:
            off = for_node["range"]["begin"]["expansionLoc"]["offset"]
        txt = self.cur_file.text[:off]
        k = txt.rfind("#pragma omp")
        if k < 0:
            raise CheckerError("no #pragma omp in front of the parallel loop")
        seg = txt[k:]
        seg = seg.replace("\\\n", " ")
        seg = seg.split("#endif")[0]
        return " ".join(seg.replace("\\", " ").split())

    def exec_omp_race(self, st, n, f):
        import re
        prag = self.pragma_text(f)
        priv = set()
        for m in re.finditer(r"private\s*\(([^)]*)\)", prag):
            priv.update(x.strip() for x in m.group(1).split(","))
        init, cond, inc, body = self.loop_parts(f, True)
        lv = self._strip(init["inner"][0] if init["kind"] == "BinaryOperator" else init)
        if init["kind"] != "BinaryOperator" or lv["kind"] != "DeclRefExpr":
            raise CheckerError("omp loop init is not 'v = e'")
        loop_id = lv["referencedDecl"]["id"]
        loop_name = lv["referencedDecl"]["name"]
        ordinal = self.ordinal_of(f)
        tag = "omp%d" % ordinal
        # (a) every scalar assigned in the body is the loop variable, declared inside, or private
        mv, mb = self.modset(st, body)
        declared_inside = set()

        def decls(x):
            if isinstance(x, dict):
                if x.get("kind") == "VarDecl":
                    declared_inside.add(x["id"])
                for c_ in x.get("inner", []) or []:
                    decls(c_)
        decls(body)
        for did in sorted(mv):
            nm = st.names.get(did, "?")
            if did == loop_id or did in declared_inside or nm in priv:
                continue
            v = st.vars.get(did)
            ob = self.sink.add(self.prefix, "race", list(st.pc), z3.BoolVal(False),
                               meta={"label": "%s: scalar '%s' is assigned in the parallel body but is shared (not private)" % (tag, nm),
                                     "line": self.cur_file.line_of(f), "src": prag})
        ob = self.sink.add(self.prefix, "race", [], z3.BoolVal(True),
                           meta={"label": "%s: scalars assigned in the body are private/local (%s)" % (tag, prag), "src": prag})
        ob.status = "discharged"
        ob.solver = "syntactic"
        # (b) array accesses: run the loop (sequential semantics) with access logging
        start_id = next(Block._ids)
        saved_log = self.write_log
        self.write_log = []
        self.omp_private_names = priv
        outs = self.exec_loop(st, f, True)
        log = self.write_log
        self.write_log = saved_log
        # group accesses by block / index tuple
        by_block = {}
        for kind, b, comps, pc, node in log:
            if b.id > start_id:
                continue                      # block created inside the parallel region: thread-private
            if b.name in priv:
                continue                      # listed in private(...)
            key = (kind, tuple(simp(c).sexpr() for c in comps))
            ent = by_block.setdefault(b, {})
            if key not in ent:
                ent[key] = [kind, comps, [pc], node]
            else:
                ent[key][2].append(pc)
        for b, ent in by_block.items():
            writes = [e for e in ent.values() if e[0] == "w"]
            if not writes:
                continue
            for w in writes:
                for e in ent.values():
                    self.race_obligation(tag, b, w, e, start_id, loop_name, f)
        return outs

    def race_obligation(self, tag, b, w, e, start_id, loop_name, f):
        """no two different iterations touch the same cell of b through accesses w (write) and e"""
        def pcs(lst):
            alts = [z3.And(*p) if p else z3.BoolVal(True) for p in lst]
            return z3.Or(*alts) if len(alts) > 1 else alts[0]
        wc, ec = w[1], e[1]
        wpc, epc = pcs(w[2]), pcs(e[2])
        # rename iteration-local symbols (created after the parallel region started) in the second access
        consts = {}

        seen_c = set()

        def collect(x):
            if x.get_id() in seen_c:
                return
            seen_c.add(x.get_id())
            if z3.is_quantifier(x):
                collect(x.body())
                return
            if z3.is_const(x) and x.decl().kind() == z3.Z3_OP_UNINTERPRETED:
                consts[x.decl().name()] = x
            for c_ in x.children():
                collect(c_)
        for t in list(ec) + [epc]:
            collect(t)
        sub = []
        lv1 = lv2 = None
        for nm, c_ in consts.items():
            import re as _re
            mm = _re.search(r"!\D*(\d+)$", nm)
            local = bool(mm) and int(mm.group(1)) > start_id
            if local:
                sub.append((c_, z3.Const(nm + "!other", c_.sort())))
        ec2 = [z3.substitute(c_, *sub) if sub else c_ for c_ in ec]
        epc2 = z3.substitute(epc, *sub) if sub else epc
        # the loop variable inside the body is the havoc symbol named '<loop_name>@loopN!id'
        ivs = [c_ for nm, c_ in consts.items() if nm.startswith(loop_name + "@loop")]
        wconsts = {}

        seen_w = set()

        def collect2(x):
            if x.get_id() in seen_w:
                return
            seen_w.add(x.get_id())
            if z3.is_quantifier(x):
                collect2(x.body())
                return
            if z3.is_const(x) and x.decl().kind() == z3.Z3_OP_UNINTERPRETED:
                wconsts[x.decl().name()] = x
            for c_ in x.children():
                collect2(c_)
        for t in list(wc) + [wpc]:
            collect2(t)
        ivw = [c_ for nm, c_ in wconsts.items() if nm.startswith(loop_name + "@loop")]
        if not ivw or not ivs:
            # an access that does not depend on the iteration: any write to it is a race unless single iteration
            distinct = z3.BoolVal(True)
        else:
            distinct = ivw[0] != z3.Const(ivs[0].decl().name() + "!other", ivs[0].sort())
        same = z3.And(*[a == b_ for a, b_ in zip(wc, ec2)])
        goal = z3.Not(z3.And(wpc, epc2, distinct, same))
        self.sink.add(self.prefix, "race", list(self.facts), goal,
                      meta={"label": "%s: write of %s (line %s: %s) vs %s (line %s: %s) in another iteration" % (
                          tag, b.name, self.cur_file.line_of(w[3]) if w[3] else "?", self.cur_file.src(w[3])[:60] if w[3] else "",
                          "write" if e[0] == "w" else "read", self.cur_file.line_of(e[3]) if e[3] else "?", self.cur_file.src(e[3])[:60] if e[3] else ""),
                          "line": self.cur_file.line_of(w[3]) if w[3] else None})

    # ------------------------------------------------------------ top level
    def number_loops(self, fn):
        self.loop_ordinal = {}
        cnt = itertools.count()

        def walk(x):
            if isinstance(x, dict):
                if x.get("kind") in ("ForStmt", "WhileStmt"):
                    if x["id"] not in self.loop_ordinal:
                        self.loop_ordinal[x["id"]] = next(cnt)
                if x.get("kind") == "OMPParallelForDirective":
                    # only the CapturedStmt child holds the real loop; the other children are helper exprs
                    for c in x.get("inner", []):
                        if c.get("kind") == "CapturedStmt":
                            walk(c)
                    return
                for c in x.get("inner", []) or []:
                    walk(c)
        walk(fn)

    def verify(self, contract):
        """Generate all obligations for one function under contract."""
        cf, fn = self.find_function(contract.func)
        if fn is None:
            raise CheckerError("function %s not found in %s" % (contract.func, [f.relpath for f in self.files]))
        self.cur_file = cf
        self.cur_contract = contract
        self.depth = 0
        self.prefix = "%s:%s%s" % (cf.relpath, contract.func, getattr(contract, "tag", "") or "")
        self.facts = []
        self.write_log = None
        self.macro_values = getattr(self, "macro_values", {})
        self.loop_ordinals = {}
        self._ids_cache = {}
        self.fn_stack = [(fn["name"], self.ids_of(fn))]
        st = State()
        params = [c for c in fn["inner"] if c["kind"] == "ParmVarDecl"]
        scal = {}
        args = []
        # scalars first (shapes may depend on them)
        for p in params:
            t = node_type(p)
            fx = getattr(contract, "fixed", None) or {}
            if p["name"] in fx:
                scal[p["name"]] = z3.RealVal(fx[p["name"]]) if t == "real" else z3.IntVal(fx[p["name"]])
            elif t == "real":
                scal[p["name"]] = z3.Real(p["name"])
            elif t == "int":
                scal[p["name"]] = z3.Int(p["name"])
        P = NS(scal)
        self.cur_P = P
        blocks = {}
        for p in params:
            t = node_type(p)
            if t in ("real", "int"):
                args.append(scal[p["name"]])
            elif t == ("fn",) or (isinstance(t, tuple) and t[0] == "fn"):
                raise CheckerError("function-pointer parameter in top-level function %s" % contract.func)
            else:
                # pointer / array parameter
                if t[0] == "arr":
                    pointee = t[2]
                    deflt = arr_dims(t)
                else:
                    pointee = t[1]
                    deflt = None
                if p["name"] in contract.shapes:
                    shp = contract.shapes[p["name"]](P)
                elif deflt is not None and all(d is not None for d in deflt):
                    shp = deflt
                else:
                    raise CheckerError("contract for %s lacks a shape for pointer parameter %s" % (contract.func, p["name"]))
                b = Block(p["name"], scalar_of(pointee), shp)
                # stable name: terms extracted from different contract instances share their symbols
                st.mem[b] = z3.Const(p["name"], z3.ArraySort(*([z3.IntSort()] * len(b.shape)), b.elem_sort()))
                blocks[p["name"]] = b
                null = z3.Bool(p["name"] + "_is_null") if p["name"] in contract.nullable else False
                args.append(Ptr(b, z3.IntVal(0), pointee, null))
        self.param_blocks = blocks
        for p, a in zip(params, args):
            st.vars[p["id"]] = a
            st.names[p["id"]] = p["name"]
        self.cur_old = None
        Vold = self.make_V(st)
        self.cur_old = Vold
        init_mem = dict(st.mem)
        V0 = self.make_V(st)
        reqs = labelled(contract.requires(V0), "pre")
        for lab, r in reqs:
            st.pc.append(r)
        if contract.facts:
            self.facts = list(contract.facts(V0))
        if contract.derived:
            for item in contract.derived(V0):
                lab, fm = item[0], item[1]
                hy = list(st.pc)
                if len(item) > 2:
                    # proved from an explicitly named subset of the precondition (keeps the query small)
                    hy = []
                    for h in item[2]:
                        if not any(h.eq(p_) for p_ in st.pc):
                            raise CheckerError("%s: derived fact %s uses a hypothesis that is not a requires clause: %s" % (self.prefix, lab, h))
                        hy.append(h)
                self.sink.add(self.prefix, "derived", hy, fm, meta={"label": lab})
                self.facts.append(fm)
        # cover: precondition satisfiable
        ob = self.sink.add(self.prefix, "cover", [], z3.And(*st.pc) if st.pc else z3.BoolVal(True), expect="sat",
                           meta={"label": "precondition satisfiable"})
        self.fn_stack = []
        outs = self.run_function(cf, fn, st, args, top=True)
        self.fn_stack = [(fn["name"], self.ids_of(fn))]
        nret = 0
        for (s, ret) in outs:
            V = self.make_V(s)
            V.ret = ret
            V.__dict__["old"] = Vold
            for lab, e in labelled(contract.ensures(V), "post"):
                if lab.startswith("def"):
                    # definitional clause "ret == spec_f(args)": spec_f is introduced as the name of this
                    # function's value; sound iff the value is a function of the arguments alone.
                    self.check_pure(ret, contract, lab)
                    continue
                ob = self.oblige("post", s, e, fn, label=lab)
                if contract.hints and ob.status is None:
                    h = contract.hints(lab, V, e) or {}
                    for hk, hv in h.items():
                        if hk == "backend":
                            ob.backend = hv
                        else:
                            ob.meta[hk] = hv
            # frame
            for name, b in blocks.items():
                if name in contract.modifies:
                    continue
                if not s.mem[b].eq(init_mem[b]):
                    self.oblige("frame", s, s.mem[b] == init_mem[b], fn, label=name)
            nret += 1
        if contract.after:
            contract.after(self, outs, Vold)
        # canary: some exit is reachable
        if outs:
            reach = z3.Or(*[z3.And(*s.pc) if s.pc else z3.BoolVal(True) for s, _ in outs])
            self.sink.add(self.prefix, "canary", [], reach, expect="sat", meta={"label": "normal exit reachable"})
        return outs
