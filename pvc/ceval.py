"""Concrete evaluation of contract formulas (z3 ASTs) on real inputs/outputs, used only for *replay*:
a refuted or no-longer-proved obligation is confirmed by running the real function on concrete
inputs and evaluating the contract's ensures clauses on what it returned."""
import math

import numpy as np
import z3

TOL = 1e-9


class Unsupported(Exception):
    pass


class Evaluator:
    def __init__(self, env, funcs=None, qrange=None):
        self.env = dict(env)          # name -> python number | numpy array
        self.funcs = dict(funcs or {})  # uninterpreted function name -> callable(*python values)
        self.funcs.setdefault("c_exp", math.exp)
        self.funcs.setdefault("c_log", lambda x: math.log(x) if x > 0 else float("nan"))
        self.funcs.setdefault("c_sqrt", lambda x: math.sqrt(x) if x >= 0 else float("nan"))
        self.funcs.setdefault("c_cos", math.cos)
        self.funcs.setdefault("c_sin", math.sin)
        self.funcs.setdefault("c_cosh", math.cosh)
        self.funcs.setdefault("c_sinh", math.sinh)
        self.funcs.setdefault("c_fabs", abs)
        self.funcs.setdefault("c_pow", lambda a, b: a ** b)
        self.funcs.setdefault("c_rint", lambda a: float(np.rint(a)))
        self.qrange = qrange or (-1, 8)
        self.cache = {}

    def close(self, a, b):
        if isinstance(a, (int, np.integer)) and isinstance(b, (int, np.integer)):
            return a == b
        if math.isnan(a) or math.isnan(b):
            return False
        return abs(a - b) <= TOL * max(1.0, abs(a), abs(b))

    def ev(self, e, bound=None):
        bound = bound or {}
        if z3.is_quantifier(e):
            return self.quant(e, bound)
        if z3.is_var(e):
            return bound["__db__"][len(bound["__db__"]) - 1 - z3.get_var_index(e)]
        if z3.is_int_value(e):
            return e.as_long()
        if z3.is_rational_value(e):
            return e.numerator_as_long() / e.denominator_as_long()
        if z3.is_true(e):
            return True
        if z3.is_false(e):
            return False
        d = e.decl()
        k = d.kind()
        ch = e.children()
        if k == z3.Z3_OP_UNINTERPRETED:
            nm = d.name()
            if not ch:
                if nm in self.env:
                    return self.env[nm]
                raise Unsupported("no value for constant %s" % nm)
            if nm in self.funcs:
                return self.funcs[nm](*[self.ev(c, bound) for c in ch])
            raise Unsupported("no interpretation for function %s" % nm)
        if k == z3.Z3_OP_AND:
            for c in ch:
                if not self.ev(c, bound):
                    return False
            return True
        if k == z3.Z3_OP_OR:
            for c in ch:
                if self.ev(c, bound):
                    return True
            return False
        if k == z3.Z3_OP_NOT:
            return not self.ev(ch[0], bound)
        if k == z3.Z3_OP_IMPLIES:
            return (not self.ev(ch[0], bound)) or self.ev(ch[1], bound)
        if k == z3.Z3_OP_ITE:
            return self.ev(ch[1], bound) if self.ev(ch[0], bound) else self.ev(ch[2], bound)
        if k == z3.Z3_OP_EQ or k == z3.Z3_OP_IFF:
            a, b = self.ev(ch[0], bound), self.ev(ch[1], bound)
            if isinstance(a, bool) or isinstance(b, bool):
                return bool(a) == bool(b)
            if isinstance(a, np.ndarray) or isinstance(b, np.ndarray):
                return np.allclose(a, b, rtol=TOL, atol=TOL)
            return self.close(a, b)
        if k == z3.Z3_OP_DISTINCT:
            a, b = self.ev(ch[0], bound), self.ev(ch[1], bound)
            return not self.close(a, b)
        if k in (z3.Z3_OP_LE, z3.Z3_OP_LT, z3.Z3_OP_GE, z3.Z3_OP_GT):
            a, b = self.ev(ch[0], bound), self.ev(ch[1], bound)
            tol = 0 if isinstance(a, (int, np.integer)) and isinstance(b, (int, np.integer)) else TOL * max(1.0, abs(a), abs(b))
            if k == z3.Z3_OP_LE:
                return a <= b + tol
            if k == z3.Z3_OP_GE:
                return a >= b - tol
            if k == z3.Z3_OP_LT:
                return a < b
            return a > b
        if k == z3.Z3_OP_ADD:
            return sum(self.ev(c, bound) for c in ch)
        if k == z3.Z3_OP_SUB:
            r = self.ev(ch[0], bound)
            for c in ch[1:]:
                r = r - self.ev(c, bound)
            return r
        if k == z3.Z3_OP_UMINUS:
            return -self.ev(ch[0], bound)
        if k == z3.Z3_OP_MUL:
            r = 1
            for c in ch:
                r = r * self.ev(c, bound)
            return r
        if k == z3.Z3_OP_DIV:
            a, b = self.ev(ch[0], bound), self.ev(ch[1], bound)
            if b == 0:
                return float("nan")
            return a / b
        if k == z3.Z3_OP_IDIV:
            a, b = self.ev(ch[0], bound), self.ev(ch[1], bound)
            if b == 0:
                return 0
            q = a // b if b > 0 else -(a // -b)
            return q
        if k == z3.Z3_OP_MOD:
            a, b = self.ev(ch[0], bound), self.ev(ch[1], bound)
            if b == 0:
                return 0
            return a % abs(b)
        if k == z3.Z3_OP_TO_REAL:
            return float(self.ev(ch[0], bound))
        if k == z3.Z3_OP_TO_INT:
            return math.floor(self.ev(ch[0], bound))
        if k == z3.Z3_OP_POWER:
            return self.ev(ch[0], bound) ** self.ev(ch[1], bound)
        if k == z3.Z3_OP_SELECT:
            arr = self.ev(ch[0], bound)
            idx = tuple(int(self.ev(c, bound)) for c in ch[1:])
            if any(i < 0 or i >= s for i, s in zip(idx, arr.shape)):
                return 0.0   # only reachable under a false guard
            v = arr[idx]
            return int(v) if np.issubdtype(arr.dtype, np.integer) else float(v)
        if k == z3.Z3_OP_STORE:
            arr = np.array(self.ev(ch[0], bound))
            idx = tuple(int(self.ev(c, bound)) for c in ch[1:-1])
            arr[idx] = self.ev(ch[-1], bound)
            return arr
        raise Unsupported("operator %s" % d.name())

    def _ranges(self, q, bound):
        """per-variable ranges read off the guard `lo <= v`, `v < hi` conjuncts of ForAll(vs, Implies(guard, ..))"""
        n = q.num_vars()
        lo0, hi0 = self.qrange
        rng = [[lo0, hi0] for _ in range(n)]
        body = q.body()
        if not (z3.is_app(body) and body.decl().kind() == z3.Z3_OP_IMPLIES and q.is_forall()):
            return rng
        guard = body.arg(0)
        conj = []

        def flat(g):
            if z3.is_and(g):
                for c_ in g.children():
                    flat(c_)
            else:
                conj.append(g)
        flat(guard)

        def hasvar(e):
            if z3.is_var(e):
                return True
            return any(hasvar(c) for c in e.children())
        import math as _m
        for c in conj:
            if not z3.is_app(c) or c.num_args() != 2:
                continue
            k = c.decl().kind()
            a, b = c.arg(0), c.arg(1)
            if k not in (z3.Z3_OP_LE, z3.Z3_OP_LT, z3.Z3_OP_GE, z3.Z3_OP_GT):
                continue
            if z3.is_var(a) and not hasvar(b):
                vi, other, flip = z3.get_var_index(a), b, False
            elif z3.is_var(b) and not hasvar(a):
                vi, other, flip = z3.get_var_index(b), a, True
            else:
                continue
            if vi >= n:
                continue
            try:
                val = self.ev(other, bound)
            except Exception:
                continue
            pos = n - 1 - vi
            kk = k
            if flip:
                kk = {z3.Z3_OP_LE: z3.Z3_OP_GE, z3.Z3_OP_LT: z3.Z3_OP_GT, z3.Z3_OP_GE: z3.Z3_OP_LE, z3.Z3_OP_GT: z3.Z3_OP_LT}[k]
            if kk == z3.Z3_OP_GE:
                rng[pos][0] = max(rng[pos][0], int(_m.ceil(val)))
            elif kk == z3.Z3_OP_GT:
                rng[pos][0] = max(rng[pos][0], int(_m.floor(val)) + 1)
            elif kk == z3.Z3_OP_LE:
                rng[pos][1] = min(rng[pos][1], int(_m.floor(val)))
            elif kk == z3.Z3_OP_LT:
                rng[pos][1] = min(rng[pos][1], int(_m.ceil(val)) - 1)
        return rng

    def quant(self, q, bound):
        n = q.num_vars()
        is_forall = q.is_forall()
        body = q.body()
        db = list(bound.get("__db__", []))
        ranges = self._ranges(q, bound)

        def rec(k, vals):
            if k == n:
                b2 = dict(bound)
                b2["__db__"] = db + vals
                return self.ev(body, b2)
            for v in range(ranges[k][0], ranges[k][1] + 1):
                r = rec(k + 1, vals + [v])
                if is_forall and not r:
                    return False
                if (not is_forall) and r:
                    return True
            return is_forall
        return rec(0, [])


def recsum_callable(evaluator, rs):
    """python interpretation of a pvc.spec.RecSum: S(p.., n) = sum_{k<n} term(p.., k)"""
    memo = {}

    def f(*args):
        args = args[-(rs.nparams + 1):]          # leading arguments are the lambda-lifted constants
        params, n = tuple(int(a) for a in args[:-1]), int(args[-1])
        key = (params, n)
        if key in memo:
            return memo[key]
        s = 0.0
        for k in range(max(n, 0)):
            t = rs.term(*[z3.IntVal(int(p)) for p in params], z3.IntVal(k))
            s += evaluator.ev(t)
        memo[key] = s
        return s
    return f
