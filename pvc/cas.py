"""z3 term -> sympy; polynomial/rational identity back end; mechanical differentiation."""
import sympy as sp
import z3

_FUN = {"c_exp": sp.exp, "c_log": sp.log, "c_sqrt": sp.sqrt, "c_cos": sp.cos, "c_sin": sp.sin,
        "c_cosh": sp.cosh, "c_sinh": sp.sinh, "c_fabs": sp.Abs, "c_tanh": sp.tanh, "c_pow": lambda a, b: a ** b}


def to_sympy(e, opaque_funs=True):
    """Convert a z3 arithmetic term to sympy.  Selects on array constants become symbols."""
    cache = {}

    def sym(name):
        return sp.Symbol(name, real=True)

    def conv(x):
        k = x.get_id()
        if k in cache:
            return cache[k]
        r = _conv(x)
        cache[k] = r
        return r

    def cond(c):
        k_ = c.decl().kind()
        a = c.children()
        if k_ == z3.Z3_OP_AND:
            return sp.And(*[cond(y) for y in a])
        if k_ == z3.Z3_OP_OR:
            return sp.Or(*[cond(y) for y in a])
        if k_ == z3.Z3_OP_NOT:
            return sp.Not(cond(a[0]))
        if z3.is_true(c):
            return sp.true
        if z3.is_false(c):
            return sp.false
        ops = {z3.Z3_OP_LT: sp.Lt, z3.Z3_OP_LE: sp.Le, z3.Z3_OP_GT: sp.Gt, z3.Z3_OP_GE: sp.Ge, z3.Z3_OP_EQ: sp.Eq}
        if k_ in ops:
            return ops[k_](conv(a[0]), conv(a[1]))
        if k_ == z3.Z3_OP_DISTINCT:
            return sp.Ne(conv(a[0]), conv(a[1]))
        raise ValueError("unsupported condition %s" % c.decl())

    def _conv(x):
        if z3.is_int_value(x):
            return sp.Integer(x.as_long())
        if z3.is_rational_value(x):
            return sp.Rational(x.numerator_as_long(), x.denominator_as_long())
        if z3.is_algebraic_value(x):
            raise ValueError("algebraic value")
        if not z3.is_app(x):
            raise ValueError("cannot convert %s" % x)
        d = x.decl()
        kk = d.kind()
        ch = x.children()
        if kk == z3.Z3_OP_ADD:
            return sp.Add(*[conv(c) for c in ch])
        if kk == z3.Z3_OP_SUB:
            r = conv(ch[0])
            for c in ch[1:]:
                r = r - conv(c)
            return r
        if kk == z3.Z3_OP_MUL:
            return sp.Mul(*[conv(c) for c in ch])
        if kk in (z3.Z3_OP_DIV,):
            return conv(ch[0]) / conv(ch[1])
        if kk == z3.Z3_OP_UMINUS:
            return -conv(ch[0])
        if kk == z3.Z3_OP_POWER:
            return conv(ch[0]) ** conv(ch[1])
        if kk == z3.Z3_OP_TO_REAL:
            return conv(ch[0])
        if kk == z3.Z3_OP_SELECT:
            base = ch[0]
            idx = [z3.simplify(c) for c in ch[1:]]
            nm = str(base) + "".join("_%s" % (i.as_long() if z3.is_int_value(i) else "(" + str(i) + ")") for i in idx)
            return sym(nm.replace(" ", ""))
        if kk == z3.Z3_OP_UNINTERPRETED:
            nm = d.name()
            if not ch:
                return sym(nm)
            if nm in _FUN:
                return _FUN[nm](*[conv(c) for c in ch])
            return sp.Function(nm)(*[conv(c) for c in ch])
        if kk == z3.Z3_OP_ITE:
            return sp.Piecewise((conv(ch[1]), cond(ch[0])), (conv(ch[2]), True))
        raise ValueError("unsupported op in %s" % x.decl())
    return conv(e)


def identity_to_srepr(goal):
    """goal must be an equality (or conjunction of equalities) of real terms."""
    eqs = []

    def collect(g):
        if z3.is_and(g):
            for c in g.children():
                collect(c)
        elif z3.is_eq(g):
            a, b = g.children()
            eqs.append((sp.srepr(to_sympy(a)), sp.srepr(to_sympy(b))))
        elif z3.is_true(g):
            pass
        else:
            raise ValueError("poly back end needs equalities, got %s" % g.decl())
    collect(goal)
    return eqs


def _ev(a):
    from sympy.functions.elementary.piecewise import ExprCondPair
    return sp.sympify(eval(a, {**sp.__dict__, "ExprCondPair": ExprCondPair}))


def check_identity_srepr(eqs):
    for item in eqs:
        if item[0] == "AT":
            # continuity: both sides, cancelled as rational functions, agree at var == point
            _, a, b, var, point = item
            var, point = _ev(var), _ev(point)
            ea = sp.cancel(sp.together(_ev(a))).subs(var, point)
            eb = sp.cancel(sp.together(_ev(b))).subs(var, point)
            d = sp.cancel(sp.together(ea - eb))
            if d != 0:
                pt = refuting_point(d)
                if pt is not None:
                    return False, "values differ at %s == %s" % (var, point), pt
                return False, "values differ at %s == %s: %s" % (var, point, str(d)[:300])
            continue
        a, b = item
        ea = _ev(a)
        eb = _ev(b)
        if ea.has(sp.Piecewise) or eb.has(sp.Piecewise):
            pt = refuting_point(ea - eb, tries=200)
            if pt is not None:
                return False, "identity fails at %s" % pt, pt
            d0 = sp.simplify(sp.piecewise_fold(ea - eb))
            if d0 == 0:
                continue
            return False, "piecewise terms: not reduced to 0 (%s)" % str(d0)[:200]
        d = sp.together(ea - eb)
        num, den = sp.fraction(d)
        num = sp.expand(num)
        if num != 0:
            # try harder (transcendental rewriting)
            d2 = exp_normalise(ea - eb)
            if d2 != 0:
                d2 = sp.simplify(d)
            if d2 != 0:
                pt = refuting_point(d)
                if pt is not None:
                    return False, "identity fails at %s" % pt, pt
                return False, "non-zero remainder: %s" % str(sp.factor(num))[:300]
    return True, "identity"


def refuting_point(d, tries=40):
    """A rational point where the (claimed zero) expression is defined and non-zero, evaluated to 50 digits."""
    import random
    rnd = random.Random(12345)
    syms = sorted(d.free_symbols, key=str)
    for _ in range(tries):
        pt = {s_: sp.Rational(rnd.randint(1, 40), rnd.randint(1, 9)) for s_ in syms}
        try:
            val = sp.N(d.subs(pt), 50)
        except Exception:
            continue
        if val.is_number and val.is_finite and abs(val) > sp.Float("1e-25"):
            return {str(k): str(v) for k, v in pt.items()} | {"difference": str(sp.N(val, 12))}
    return None


def check_poscoef(payload):
    """Positivity certificate: after the substitution (a re-parametrisation by non-negative gaps) the
    expression is a ratio of polynomials all of whose coefficients are >= 0, hence >= 0 wherever defined."""
    exprs, subs, nonneg = payload
    if isinstance(exprs, (list, tuple)):
        last = (True, "")
        for ex1 in exprs:
            last = check_poscoef((ex1, subs, nonneg))
            if not last[0]:
                return last
        return last
    expr = exprs
    e = _ev(expr)
    sub = [(_ev(a), _ev(b)) for a, b in subs]
    e = e.subs(sub, simultaneous=True)
    e = sp.cancel(sp.together(e))
    num, den = sp.fraction(e)
    syms = [sp.Symbol(n, real=True) for n in nonneg]
    extra = (num.free_symbols | den.free_symbols) - set(syms)
    if extra:
        return False, "free symbols remain after substitution: %s" % sorted(map(str, extra))
    pn = sp.Poly(sp.expand(num), *syms)
    pd = sp.Poly(sp.expand(den), *syms)
    cn = pn.coeffs()
    cd = pd.coeffs()
    if all(c >= 0 for c in cd) and all(c >= 0 for c in cn):
        return True, "all %d+%d coefficients >= 0" % (len(cn), len(cd))
    if all(c <= 0 for c in cd) and all(c <= 0 for c in cn):
        return True, "all coefficients <= 0 in numerator and denominator"
    return False, "mixed-sign coefficients (num %d neg of %d, den %d neg of %d)" % (
        sum(1 for c in cn if c < 0), len(cn), sum(1 for c in cd if c < 0), len(cd))


def ineq_exprs(goal, defs=()):
    """z3 goal made of >=, <=, And  ->  list of sympy expressions each claimed >= 0."""
    if defs:
        goal = z3.substitute(goal, *defs)
    out = []

    def rec(g):
        if z3.is_and(g):
            for c in g.children():
                rec(c)
        elif z3.is_true(g):
            pass
        elif z3.is_app(g) and g.decl().kind() in (z3.Z3_OP_GE, z3.Z3_OP_LE):
            a, b = g.children()
            if g.decl().kind() == z3.Z3_OP_GE:
                out.append(to_sympy(a) - to_sympy(b))
            else:
                out.append(to_sympy(b) - to_sympy(a))
        else:
            raise ValueError("ineq_exprs: unsupported connective %s" % g.decl())
    rec(goal)
    return out


def exp_normalise(d):
    """Rewrite hyperbolic functions through exp, name Z = exp(g) for a common base argument g (all exp
    arguments are rational multiples of g), expand logarithms (symbols positive) and simplify."""
    try:
        pos = {s_: sp.Symbol(s_.name, positive=True) for s_ in d.free_symbols}
        d = d.xreplace(pos).rewrite(sp.exp)
        exps = list(d.atoms(sp.exp))
        if not exps:
            return sp.simplify(d)
        args = [e.args[0] for e in exps]
        base = None
        for a in args:
            rats = [sp.nsimplify(sp.simplify(b / a)) for b in args]
            if all(r.is_Rational for r in rats):
                base = a / sp.ilcm(*[r.q for r in rats])
                break
        if base is None:
            return sp.simplify(d)
        Zs = sp.Symbol("Z_exp", positive=True)
        d = d.xreplace({e: Zs ** sp.nsimplify(sp.simplify(e.args[0] / base)) for e in exps})
        d = sp.expand_log(sp.logcombine(sp.expand_log(d, force=True), force=True), force=True)
        d = d.subs(sp.log(Zs), base)
        d = sp.simplify(d)
        for _ in range(2):
            if d == 0:
                break
            d = sp.expand_log(d, force=True).subs(sp.log(Zs), base)
            d = sp.simplify(d)
        return d
    except Exception:
        return sp.Symbol("normalisation_failed")
