"""Replay on the real C code: builds shared objects from /repo/c at check time (gcc, -Dstatic= exports the
static helpers without touching the source) and calls them through ctypes."""
import atexit
import ctypes
import os
import shutil
import subprocess
import tempfile
from fractions import Fraction

from .cfront import REPO

_dir = None
_libs = {}


def _tmp():
    global _dir
    if _dir is None:
        _dir = tempfile.mkdtemp(prefix="pvc-so-")
        atexit.register(lambda: shutil.rmtree(_dir, ignore_errors=True))
    return _dir


def lib(name, openmp=False):
    """name: 'tetrahedron_method' | 'rgrid' | 'dynmat' | 'derivative_dynmat' | 'phonopy' (links all)."""
    key = (name, openmp)
    if key in _libs:
        return _libs[key]
    out = os.path.join(_tmp(), "%s%s.so" % (name, "_omp" if openmp else ""))
    c = os.path.join(REPO, "c")
    if name == "phonopy":
        srcs = [os.path.join(c, f) for f in ("phonopy.c", "dynmat.c", "derivative_dynmat.c", "rgrid.c", "tetrahedron_method.c")]
        flags = ["-Dstatic="]
    else:
        srcs = [os.path.join(c, name + ".c")]
        flags = ["-Dstatic="]
    from .cfront import build_defines
    flags = flags + ["-D" + d for d in build_defines()]
    cmd = ["gcc", "-O2", "-fPIC", "-shared", "-I" + c] + flags + (["-fopenmp"] if openmp else []) + srcs + ["-lm", "-o", out]
    p = subprocess.run(cmd, capture_output=True, text=True)
    if p.returncode != 0:
        raise RuntimeError("gcc failed: %s" % p.stderr[-500:])
    _libs[key] = ctypes.CDLL(out)
    return _libs[key]


def num(s):
    """z3 model value string -> float"""
    s = str(s).strip().replace("?", "")
    if s.startswith("(") and s.endswith(")"):
        s = s[1:-1]
    try:
        return float(Fraction(s.replace(" ", "")))
    except Exception:
        return float(s)


def witness(model, key):
    return num(model["pvc!w!" + key])


def py_eval(code, timeout=120):
    """Run a snippet with the repository's interpreter against /repo (the same tree the VCs came from)."""
    env = dict(os.environ)
    env["PYTHONPATH"] = REPO
    p = subprocess.run(["/venv/bin/python", "-c", code], capture_output=True, text=True, timeout=timeout, env=env, cwd="/tmp")
    return p.returncode, p.stdout.strip(), p.stderr.strip()[-2000:]
