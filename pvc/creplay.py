"""Replay on the real C code: builds shared objects from /repo/c at check time (gcc, -Dstatic= exports the
static helpers without touching the source) and calls them through ctypes."""
import atexit
import ctypes
import os
import shutil
import subprocess
import tempfile
from fractions import Fraction

from .cfront import REPO

_dir = None
_libs = {}


def _tmp():
    global _dir
    if _dir is None:
        _dir = tempfile.mkdtemp(prefix="pvc-so-")
        atexit.register(lambda: shutil.rmtree(_dir, ignore_errors=True))
    return _dir


def lib(name, openmp=False):
    """name: 'tetrahedron_method' | 'rgrid' | 'dynmat' | 'derivative_dynmat' | 'phonopy' (links all)."""
    key = (name, openmp)
    if key in _libs:
        return _libs[key]
    out = os.path.join(_tmp(), "%s%s.so" % (name, "_omp" if openmp else ""))
    c = os.path.join(REPO, "c")
    if name == "phonopy":
        srcs = [os.path.join(c, f) for f in ("phonopy.c", "dynmat.c", "derivative_dynmat.c", "rgrid.c", "tetrahedron_method.c")]
        flags = ["-Dstatic="]
    else:
        srcs = [os.path.join(c, name + ".c")]
        flags = ["-Dstatic="]
    from .cfront import build_defines
    flags = flags + ["-D" + d for d in build_defines()]
    cmd = ["gcc", "-O2", "-fPIC", "-shared", "-I" + c] + flags + (["-fopenmp"] if openmp else []) + srcs + ["-lm", "-o", out]
    p = subprocess.run(cmd, capture_output=True, text=True)
    if p.returncode != 0:
        raise RuntimeError("gcc failed: %s" % p.stderr[-500:])
    _libs[key] = ctypes.CDLL(out)
    return _libs[key]


def num(s):
    """z3 model value string -> float"""
    s = str(s).strip().replace("?", "")
    if s.startswith("(") and s.endswith(")"):
        s = s[1:-1]
    try:
        return float(Fraction(s.replace(" ", "")))
    except Exception:
        return float(s)


def witness(model, key):
    return num(model["pvc!w!" + key])


def py_eval(code, timeout=120):
    """Run a snippet with the repository's interpreter against /repo (the same tree the VCs came from)."""
    env = dict(os.environ)
    env["PYTHONPATH"] = REPO
    p = subprocess.run(["/venv/bin/python", "-c", code], capture_output=True, text=True, timeout=timeout, env=env, cwd="/tmp")
    return p.returncode, p.stdout.strip(), p.stderr.strip()[-2000:]


def asan_lib(name="phonopy"):
    """AddressSanitizer build of the same sources (used only to replay refuted bounds obligations)."""
    out = os.path.join(_tmp(), "%s_asan.so" % name)
    c = os.path.join(REPO, "c")
    srcs = [os.path.join(c, f) for f in ("phonopy.c", "dynmat.c", "derivative_dynmat.c", "rgrid.c", "tetrahedron_method.c")]
    from .cfront import build_defines
    flags = ["-Dstatic="] + ["-D" + d for d in build_defines()]
    cmd = ["gcc", "-O1", "-g", "-fsanitize=address", "-fno-omit-frame-pointer", "-fPIC", "-shared", "-I" + c] + flags + srcs + ["-lm", "-o", out]
    p = subprocess.run(cmd, capture_output=True, text=True)
    if p.returncode != 0:
        raise RuntimeError("gcc -fsanitize=address failed: %s" % p.stderr[-500:])
    return out


_ASAN_CHILD = r"""
import ctypes, pickle, sys
import numpy as np
so, path = sys.argv[1], sys.argv[2]
func, cases = pickle.load(open(path, "rb"))
lib = ctypes.CDLL(so)
f = getattr(lib, func)
f.restype = None
CT = {"double": ctypes.c_double, "int64": ctypes.c_int64, "int": ctypes.c_int, "char": ctypes.c_char}
for n, case in enumerate(cases):
    sys.stdout.write("CASE %d\n" % n); sys.stdout.flush()
    args, keep = [], []
    for kind, ct, val in case:
        if kind == "scalar":
            args.append(CT[ct](val))
        elif val is None:
            args.append(None)
        else:
            # exact-size heap allocation so that the sanitizer sees the true bounds of the array
            a = np.ascontiguousarray(val)
            buf = (ctypes.c_char * max(a.nbytes, 1))()
            ctypes.memmove(buf, a.ctypes.data, a.nbytes)
            keep.append(buf)
            args.append(ctypes.cast(buf, ctypes.c_void_p))
    f(*args)
print("ALL-OK")
"""


def asan_run(func, cases, timeout=300):
    """cases: list of argument lists [(kind, ctype name, value)].  Runs the sanitizer build in a child process;
    returns (index of the failing case or None, sanitizer report)."""
    import pickle
    import sys
    so = asan_lib()
    d = _tmp()
    path = os.path.join(d, "asan_cases.pkl")
    with open(path, "wb") as fh:
        pickle.dump((func, cases), fh)
    script = os.path.join(d, "asan_child.py")
    with open(script, "w") as fh:
        fh.write(_ASAN_CHILD)
    env = dict(os.environ)
    env["LD_PRELOAD"] = subprocess.run(["gcc", "-print-file-name=libasan.so"], capture_output=True, text=True).stdout.strip()
    env["ASAN_OPTIONS"] = "detect_leaks=0:halt_on_error=1"
    p = subprocess.run([sys.executable, script, so, path], capture_output=True, text=True, timeout=timeout, env=env)
    if "ALL-OK" in p.stdout:
        return None, ""
    idx = None
    for line in p.stdout.splitlines():
        if line.startswith("CASE "):
            idx = int(line.split()[1])
    rep = p.stderr
    k = rep.find("ERROR: AddressSanitizer")
    if k < 0:
        return None, "child failed without a sanitizer report: " + rep[-400:]
    return idx, rep[k:k + 1200]
