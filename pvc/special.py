"""IEEE special-value model (DESIGN.md 2.1 / C10): values live in {finite real, +inf, -inf, NaN}.
Rounding is still ignored; exp/sinh/cosh overflow/underflow at the double thresholds; inf*0, inf-inf,
inf/inf, 0/0 give NaN; x/0 gives +-inf.  A z3 real term (as extracted from the code) is re-interpreted
in this model; the finiteness obligation is that the result is finite."""
import z3

from .cexec import MATH_FUNS

EXP_OVER = z3.RealVal("709.782712893384")
EXP_UNDER = z3.RealVal("-745.1332191019412")
SINH_OVER = z3.RealVal("710.4758600739439")


class XV:
    """extended value: mutually exclusive flags + finite payload"""
    __slots__ = ("nan", "pinf", "ninf", "val")

    def __init__(self, val, nan=False, pinf=False, ninf=False):
        self.val = val
        self.nan = z3.BoolVal(nan) if isinstance(nan, bool) else nan
        self.pinf = z3.BoolVal(pinf) if isinstance(pinf, bool) else pinf
        self.ninf = z3.BoolVal(ninf) if isinstance(ninf, bool) else ninf

    @property
    def fin(self):
        return z3.And(z3.Not(self.nan), z3.Not(self.pinf), z3.Not(self.ninf))

    @property
    def inf(self):
        return z3.Or(self.pinf, self.ninf)


def _mk(nan, pinf, ninf, val):
    nan = z3.simplify(nan)
    pinf = z3.simplify(z3.And(pinf, z3.Not(nan)))
    ninf = z3.simplify(z3.And(ninf, z3.Not(nan), z3.Not(pinf)))
    return XV(val, nan, pinf, ninf)


def add(a, b):
    nan = z3.Or(a.nan, b.nan, z3.And(a.pinf, b.ninf), z3.And(a.ninf, b.pinf))
    return _mk(nan, z3.Or(a.pinf, b.pinf), z3.Or(a.ninf, b.ninf), a.val + b.val)


def neg(a):
    return XV(-a.val, a.nan, a.ninf, a.pinf)


def mul(a, b):
    az = z3.And(a.fin, a.val == 0)
    bz = z3.And(b.fin, b.val == 0)
    nan = z3.Or(a.nan, b.nan, z3.And(a.inf, bz), z3.And(b.inf, az))
    apos = z3.Or(a.pinf, z3.And(a.fin, a.val > 0))
    bpos = z3.Or(b.pinf, z3.And(b.fin, b.val > 0))
    anyinf = z3.Or(a.inf, b.inf)
    return _mk(nan, z3.And(anyinf, apos == bpos), z3.And(anyinf, apos != bpos), a.val * b.val)


def div(a, b):
    az = z3.And(a.fin, a.val == 0)
    bz = z3.And(b.fin, b.val == 0)
    nan = z3.Or(a.nan, b.nan, z3.And(a.inf, b.inf), z3.And(az, bz))
    apos = z3.Or(a.pinf, z3.And(a.fin, a.val > 0))
    bpos = z3.Or(b.pinf, z3.And(b.fin, b.val >= 0))
    toinf = z3.Or(z3.And(a.inf, b.fin), z3.And(a.fin, z3.Not(az), bz))
    val = z3.If(z3.And(a.fin, b.inf), z3.RealVal(0), a.val / b.val)
    return _mk(nan, z3.And(toinf, apos == bpos), z3.And(toinf, apos != bpos), val)


def fexp(a):
    over = z3.Or(a.pinf, z3.And(a.fin, a.val > EXP_OVER))
    under = z3.Or(a.ninf, z3.And(a.fin, a.val < EXP_UNDER))
    return _mk(a.nan, over, z3.BoolVal(False), z3.If(under, z3.RealVal(0), MATH_FUNS["exp"](a.val)))


def flog(a):
    nan = z3.Or(a.nan, a.ninf, z3.And(a.fin, a.val < 0))
    return _mk(nan, a.pinf, z3.And(a.fin, a.val == 0), MATH_FUNS["log"](a.val))


def fsinh(a):
    return _mk(a.nan, z3.Or(a.pinf, z3.And(a.fin, a.val > SINH_OVER)),
               z3.Or(a.ninf, z3.And(a.fin, a.val < -SINH_OVER)), MATH_FUNS["sinh"](a.val))


def fcosh(a):
    return _mk(a.nan, z3.Or(a.inf, z3.And(a.fin, z3.Or(a.val > SINH_OVER, a.val < -SINH_OVER))),
               z3.BoolVal(False), MATH_FUNS["cosh"](a.val))


def lift(t):
    """z3 real term -> XV, compositionally."""
    cache = {}

    def rec(e):
        k = e.get_id()
        if k in cache:
            return cache[k]
        r = _rec(e)
        cache[k] = r
        return r

    def _rec(e):
        if z3.is_rational_value(e) or z3.is_int_value(e):
            return XV(z3.ToReal(e) if e.sort() == z3.IntSort() else e)
        d = e.decl()
        kk = d.kind()
        ch = e.children()
        if kk == z3.Z3_OP_ADD:
            r = rec(ch[0])
            for c in ch[1:]:
                r = add(r, rec(c))
            return r
        if kk == z3.Z3_OP_SUB:
            r = rec(ch[0])
            for c in ch[1:]:
                r = add(r, neg(rec(c)))
            return r
        if kk == z3.Z3_OP_UMINUS:
            return neg(rec(ch[0]))
        if kk == z3.Z3_OP_MUL:
            r = rec(ch[0])
            for c in ch[1:]:
                r = mul(r, rec(c))
            return r
        if kk == z3.Z3_OP_DIV:
            return div(rec(ch[0]), rec(ch[1]))
        if kk == z3.Z3_OP_TO_REAL:
            return XV(e)
        if kk == z3.Z3_OP_UNINTERPRETED:
            nm = d.name()
            if not ch:
                return XV(e)          # program input: finite by precondition
            if nm == "c_exp":
                return fexp(rec(ch[0]))
            if nm == "c_log":
                return flog(rec(ch[0]))
            if nm == "c_sinh":
                return fsinh(rec(ch[0]))
            if nm == "c_cosh":
                return fcosh(rec(ch[0]))
        if kk == z3.Z3_OP_SELECT:
            return XV(e)
        if kk == z3.Z3_OP_ITE:
            # the condition is evaluated on the finite payloads (comparisons of program inputs)
            c = ch[0]
            a, b = rec(ch[1]), rec(ch[2])
            return XV(z3.If(c, a.val, b.val), z3.If(c, a.nan, b.nan), z3.If(c, a.pinf, b.pinf), z3.If(c, a.ninf, b.ninf))
        raise ValueError("special-value model: unsupported operator %s" % d.name())
    return rec(t)


def _has_var(e, memo):
    k = e.get_id()
    if k in memo:
        return memo[k]
    if z3.is_var(e):
        r = True
    elif z3.is_quantifier(e):
        r = False
    else:
        r = any(_has_var(c, memo) for c in e.children())
    memo[k] = r
    return r


def libm_axioms(terms):
    """Instances of A-LIBM for every ground application occurring in the given terms; for applications
    under a quantifier (arguments with bound variables) the universally quantified axiom with the
    application as trigger is added instead."""
    out = []
    seen = set()
    memo = {}
    generic = set()
    xq = z3.Real("x!libm")

    def inst(nm, e, a):
        if nm == "c_exp":
            return [e > 0, z3.Implies(a > 0, e > 1), z3.Implies(a < 0, e < 1), z3.Implies(a == 0, e == 1)]
        if nm == "c_sinh":
            return [z3.Implies(a > 0, e > 0), z3.Implies(a < 0, e < 0), z3.Implies(a == 0, e == 0)]
        if nm == "c_cosh":
            return [e >= 1]
        if nm == "c_sqrt":
            return [e >= 0, z3.Implies(a >= 0, e * e == a), z3.Implies(a > 0, e > 0)]
        return []

    def walk(e):
        if e.get_id() in seen:
            return
        seen.add(e.get_id())
        if z3.is_quantifier(e):
            walk(e.body())
            return
        if z3.is_app(e) and e.decl().kind() == z3.Z3_OP_UNINTERPRETED and e.num_args() == 1:
            nm = e.decl().name()
            if nm in ("c_exp", "c_sinh", "c_cosh", "c_sqrt"):
                if _has_var(e, memo):
                    if nm not in generic:
                        generic.add(nm)
                        app = e.decl()(xq)
                        body = inst(nm, app, xq)
                        out.append(z3.ForAll([xq], z3.And(*body), patterns=[app]))
                else:
                    out.extend(inst(nm, e, e.arg(0)))
        for c in e.children():
            walk(c)
    for t in terms:
        walk(t)
    return out
