"""Integer polynomials over z3 atoms, used to de-flatten C array indices.

A flat index such as ``i*n*9 + j*9 + k*3 + l`` is normalised to a polynomial
whose indeterminates are arbitrary z3 Int terms ("atoms": variables, selects,
div/mod terms ...).  ``decompose`` then splits it along row-major strides so
that the VC generator can work with multi-index arrays and linear range
obligations only.
"""
from fractions import Fraction
import z3


class Poly:
    __slots__ = ("t", "atoms")

    def __init__(self, terms=None, atoms=None):
        # terms: {monomial(tuple of (atomkey, power) sorted): int coefficient}
        self.t = {m: c for m, c in (terms or {}).items() if c != 0}
        self.atoms = atoms or {}

    @staticmethod
    def const(c):
        return Poly({(): int(c)})

    @staticmethod
    def atom(e):
        k = e.sexpr()          # canonical (allocation-independent) key: ordering of monomials is deterministic
        return Poly({((k, 1),): 1}, {k: e})

    def _merge_atoms(self, o):
        a = dict(self.atoms)
        a.update(o.atoms)
        return a

    def __add__(self, o):
        t = dict(self.t)
        for m, c in o.t.items():
            t[m] = t.get(m, 0) + c
        return Poly(t, self._merge_atoms(o))

    def __neg__(self):
        return Poly({m: -c for m, c in self.t.items()}, self.atoms)

    def __sub__(self, o):
        return self + (-o)

    def __mul__(self, o):
        t = {}
        for m1, c1 in self.t.items():
            for m2, c2 in o.t.items():
                d = dict(m1)
                for k, p in m2:
                    d[k] = d.get(k, 0) + p
                m = tuple(sorted(d.items()))
                t[m] = t.get(m, 0) + c1 * c2
        return Poly(t, self._merge_atoms(o))

    def is_zero(self):
        return not self.t

    def is_const(self):
        return all(m == () for m in self.t)

    def const_value(self):
        return self.t.get((), 0)

    def to_z3(self):
        if not self.t:
            return z3.IntVal(0)
        parts = []
        for m, c in sorted(self.t.items(), key=lambda x: (len(x[0]), x[0])):
            fac = []
            for k, p in m:
                fac.extend([self.atoms[k]] * p)
            if not fac:
                parts.append(z3.IntVal(c))
                continue
            e = fac[0]
            for f in fac[1:]:
                e = e * f
            if c != 1:
                e = z3.IntVal(c) * e
            parts.append(e)
        r = parts[0]
        for p in parts[1:]:
            r = r + p
        return r

    def __repr__(self):
        return "Poly(%s)" % self.to_z3()


def from_z3(e):
    """z3 Int term (or python int) -> Poly.  Non +,-,* structure becomes an atom."""
    if isinstance(e, int):
        return Poly.const(e)
    e = z3.simplify(e, som=False) if False else e
    if z3.is_int_value(e):
        return Poly.const(e.as_long())
    if z3.is_app(e):
        k = e.decl().kind()
        ch = e.children()
        if k == z3.Z3_OP_ADD:
            r = Poly.const(0)
            for c in ch:
                r = r + from_z3(c)
            return r
        if k == z3.Z3_OP_SUB:
            r = from_z3(ch[0])
            for c in ch[1:]:
                r = r - from_z3(c)
            return r
        if k == z3.Z3_OP_MUL:
            r = Poly.const(1)
            for c in ch:
                r = r * from_z3(c)
            return r
        if k == z3.Z3_OP_UMINUS:
            return -from_z3(ch[0])
    return Poly.atom(e)


def _divide_monomial(m, c, sm, sc):
    """(c*m) divided by (sc*sm) with integer quotient and remainder on the coefficient:
    returns (q, r, monomial m/sm) with c = q*sc + r, 0 <= r < |sc|, or None if sm does not divide m."""
    d = dict(m)
    for k, p in sm:
        if d.get(k, 0) < p:
            return None
        d[k] -= p
        if d[k] == 0:
            del d[k]
    q, r = divmod(c, sc)
    return q, r, tuple(sorted(d.items()))


def decompose(flat, dims):
    """Split Poly ``flat`` along the row-major strides of ``dims`` (list of Poly, leading dimension ignored
    for strides).  Returns list of Poly components or None.  The identity sum(c_d*stride_d) == flat holds by
    construction; the caller must prove 0 <= c_d < dims[d], which makes the split the unique one."""
    n = len(dims)
    strides = [None] * n
    s = Poly.const(1)
    for d in range(n - 1, -1, -1):
        strides[d] = s
        s = s * dims[d]
    comps = [Poly.const(0) for _ in range(n)]
    for m, c in flat.t.items():
        rem = c
        for d in range(n):
            if rem == 0:
                break
            st = strides[d]
            if len(st.t) != 1:
                continue
            (sm, sc), = st.t.items()
            res = _divide_monomial(m, rem, sm, sc)
            if res is None:
                continue
            q, r, qm = res
            if q != 0:
                comps[d] = comps[d] + Poly({qm: q}, flat.atoms)
            rem = r
        if rem != 0:
            return None
    for cpt in comps:
        cpt.atoms = dict(flat.atoms)
    # self-check of the identity
    tot = Poly.const(0)
    for cpt, st in zip(comps, strides):
        tot = tot + cpt * st
    if not (tot - flat).is_zero():
        return None
    return comps
