"""Per-property run: collect obligations, discharge, replay refutations, findings, evidence."""
import json
import os
import sys
import time
import traceback

import z3

from . import backends, cfront
from .core import Sink, CheckerError, Obligation
from .cexec import CExec

VERIF = os.path.dirname(os.path.dirname(os.path.abspath(__file__)))
OUT = os.environ.get("PVC_OUT", VERIF)      # evidence/ and replays/ go here (scratch runs against seeded changes redirect it)
REPO = cfront.REPO


def load_findings():
    p = os.path.join(VERIF, "known_findings.json")
    if not os.path.exists(p):
        return []
    with open(p) as f:
        return json.load(f)["findings"]


class Run:
    def __init__(self, pid, tier, seed=0):
        self.pid = pid
        self.tier = tier
        self.seed = seed
        self.sink = Sink()
        self.functions = []      # functions under contract
        self.assumptions = [
            "A-REAL: C doubles and Python floats are mathematical reals (rounding ignored; C10 finiteness uses the IEEE special-value model)",
            "A-INT: int / int64_t are mathematical integers (overflow outside the model)",
            "A-LIBM: libm functions are uninterpreted; only the axioms named in DESIGN.md section 4 (instances added per query)",
            "A-IND: the induction principle behind spec.induction / monotone_lemma (base and step are obligations)",
            "A-EXT: numpy/LAPACK, scipy, spglib, PyYAML, h5py enter by the contracts stated at the hooks; not verified",
            "A-GLUE: c/_phonopy.cpp (nanobind) is read, not verified; the extension cannot be built here (replays use stand-ins)",
            "A-ENGINE: clang AST dump, Python ast, the pvc VC generator, z3 5.1 / cvc5 1.0 / sympy are trusted",
            "A-ABS: statements listed under abstracted_statements are abstracted (targets unknown)"]
        self.trusted = []
        self.axioms = []
        self.assumed_contracts = []
        self.abstracted = []
        self.bounded = []
        self.not_decided = []
        self.t0 = time.time()
        self.budget = 20.0 if tier == "quick" else 120.0
        self.findings = [f for f in load_findings() if f["property"] == pid]
        self.known_lines = []
        self.cfiles = {}
        self._fuzz_cache = {}
        self.lock = self._load_lock()

    # ------------------------------------------------------------------ lock
    def _lock_path(self):
        return os.path.join(VERIF, "contracts", "obligations.lock.json")

    def _load_lock(self):
        try:
            with open(self._lock_path()) as f:
                return json.load(f).get(self.pid, {})
        except Exception:
            return {}

    def write_lock(self):
        p = self._lock_path()
        try:
            with open(p) as f:
                allp = json.load(f)
        except Exception:
            allp = {}
        allp[self.pid] = {o.name: dict({"kind": o.kind, "label": o.meta.get("label")}, **({"group": o.meta["pygroup"]} if o.meta.get("pygroup") else {}))
                          for o in self.sink.obls if o.status == "discharged"}
        with open(p, "w") as f:
            json.dump(allp, f, indent=0, sort_keys=True)

    # ------------------------------------------------------------------ C
    def cfile(self, rel):
        if rel not in self.cfiles:
            self.cfiles[rel] = cfront.load(rel)
        return self.cfiles[rel]

    def verify_c(self, contracts, files=None, registry=None):
        files = files or sorted({c.file for c in contracts})
        cfs = [self.cfile(f) for f in files]
        reg = dict(registry or {})
        ex = CExec(cfs, reg, self.sink)
        for c in contracts:
            cf = self.cfile(c.file)
            if c.func not in cf.functions:
                raise CheckerError("function %s not found in %s" % (c.func, c.file))
            n0 = len(self.sink.obls)
            self.__dict__.setdefault("verified_contracts", []).append((cfs, c))
            try:
                ex.verify(c)
            except CheckerError as e:
                # The contract can no longer be applied to the function's current text (restructured loops, new
                # callees ...).  That alone is a maintenance error (exit 3), not a verdict -- unless running the REAL
                # function against the contract's ensures clauses (and the sanitizer build) produces a failing input.
                if c.gen is None:
                    raise
                from . import cfuzz
                r = cfuzz.fuzz(cfs, c, trials=300 if self.tier == "quick" else 3000, seed=self.seed, lib=c.lib)
                if not r.get("reproduced"):
                    a = cfuzz.asan_fuzz(cfs, c, trials=100, seed=self.seed)
                    if a.get("reproduced"):
                        r = a
                if not r.get("reproduced"):
                    # undecided for this contract: the other contracts of the property are still checked; the error is
                    # raised at the end unless one of them yields a violation (which is then what gets reported)
                    del self.sink.obls[n0:]
                    self.__dict__.setdefault("deferred_errors", []).append((c, e))
                    continue
                del self.sink.obls[n0:]
                ob = self.sink.add("%s:%s%s" % (c.file, c.func, c.tag or ""), "contract", [], z3.BoolVal(False), meta={
                    "label": "the contract cannot be applied to the current text (%s) and the real function violates its ensures clauses %s" % (
                        str(e)[:160], r.get("violated_clauses") or "(sanitizer report)")})
                ob.status, ob.solver, ob.detail = "refuted", "real-code execution", str(e)[:300]
                ob.replay = (lambda r=r: (lambda model: r))()
                self.functions.append({"file": c.file, "function": c.func + (c.tag or ""), "line": cf.fn_line(c.func),
                                       "sha1": cf.fn_sha(c.func), "obligations": 1})
                continue
            if c.abstract_mul:
                for ob in self.sink.obls[n0:]:
                    if ob.status is None and ob.backend == "smt" and ob.expect == "valid":
                        ob.meta["abstract_first"] = True
            if c.gen is None and getattr(c, "replay_fn", None) is not None:
                for ob in self.sink.obls[n0:]:
                    if ob.replay is None and ob.kind in ("post", "preserve", "establish", "frame", "call-pre", "step"):
                        ob.replay = (lambda fn_=c.replay_fn: (lambda model: self._shared_replay(fn_)))()
            if c.gen is not None:
                for ob in self.sink.obls[n0:]:
                    if ob.replay is None and ob.kind in ("post", "preserve", "establish", "frame", "bounds", "call-pre", "step"):
                        ob.replay = (lambda c=c, cfs=cfs, ob=ob: (lambda model: self._fuzz_for(cfs, c, ob)))()
            self.functions.append({"file": c.file, "function": c.func + (c.tag or ""), "line": cf.fn_line(c.func),
                                   "sha1": cf.fn_sha(c.func), "obligations": len(self.sink.obls) - n0})
            if len(self.sink.obls) == n0:
                raise CheckerError("zero obligations for %s" % c.func)
        return ex

    def py_contract(self, file, func, build, replay):
        """Python analogue of the fallback in verify_c: `build()` generates the obligations of one sidecar contract; when the
        function's current text is outside the modelled subset (CheckerError), the contract's replay harness runs the REAL
        function against the contract's postcondition: a failing input is a violation of `<file>:<func>:contract:0`, otherwise
        the error is deferred (exit 3 unless another contract of the property reports a violation)."""
        n0 = len(self.sink.obls)
        nf = len(self.functions)
        group = "%s:%s" % (file, func)
        try:
            build()
            for ob in self.sink.obls[n0:]:
                ob.meta["pygroup"] = group       # recorded in the lock: obligations that disappear together with this contract
            return
        except CheckerError as e:
            del self.sink.obls[n0:]
            del self.functions[nf:]
            self.__dict__.setdefault("gone_groups", set()).add(group)
            r = replay(None)
            if not r.get("reproduced"):
                import types
                self.__dict__.setdefault("deferred_errors", []).append((types.SimpleNamespace(file=file, func=func, tag=""), e))
                return
            ob = self.sink.add("%s:%s" % (file, func), "contract", [], z3.BoolVal(False), meta={
                "label": "the contract cannot be applied to the current text (%s) and the real function violates its postcondition" % str(e)[:160]})
            ob.status, ob.solver, ob.detail = "refuted", "real-code execution", str(e)[:300]
            ob.replay = (lambda r=r: (lambda model: r))()
            self.functions.append({"file": file, "function": func, "line": 0, "sha1": "", "obligations": 1})

    def _shared_replay(self, fn_):
        key = ("shared", getattr(fn_, "__name__", id(fn_)))
        if key not in self._fuzz_cache:
            self._fuzz_cache[key] = fn_()
        return dict(self._fuzz_cache[key])

    def _fuzz_for(self, cfs, c, ob):
        """replay result for one obligation: a failing ensures clause counts for the post obligation of that
        clause; for loop/bounds obligations any failing clause of the function counts"""
        if ob.kind == "bounds":
            from . import cfuzz
            key = (c.func, c.tag, "asan")
            if key not in self._fuzz_cache:
                self._fuzz_cache[key] = cfuzz.asan_fuzz(cfs, c, trials=100 if self.tier == "quick" else 1000, seed=self.seed)
            if self._fuzz_cache[key].get("reproduced"):
                return dict(self._fuzz_cache[key])
        r = dict(self._fuzz(cfs, c))
        if r.get("reproduced") and ob.kind == "post" and c.replay_ensures is None:
            if ob.meta.get("label") not in (r.get("violated_clauses") or []):
                r["reproduced"] = False
                r["reason"] = "the real code violates other clauses (%s), not this one" % r.get("violated_clauses")
        return r

    def _fuzz(self, cfs, c):
        from . import cfuzz
        key = (c.func, c.tag)
        if key not in self._fuzz_cache:
            self._fuzz_cache[key] = cfuzz.fuzz(cfs, c, trials=300 if self.tier == "quick" else 3000, seed=self.seed, lib=c.lib)
        return self._fuzz_cache[key]

    # ------------------------------------------------------------------ lemmas / custom
    def lemma(self, prefix, kind, label, hyps, goal, backend="smt", pairs=None, replay=None, tactic=None, expect="valid"):
        ob = self.sink.add(prefix, kind, list(hyps), goal if goal is not None else z3.BoolVal(True),
                           backend=backend, meta={"label": label}, replay=replay, expect=expect)
        if pairs is not None:
            ob.meta["pairs"] = pairs
        if tactic:
            ob.meta["tactic"] = tactic
        return ob

    def finding_status(self, key):
        """'known' | 'fixed' | None for a finding key listed in known_findings.json"""
        for f in self.findings:
            if f["key"] == key:
                return f["status"]
        return None

    def finding(self, key):
        for f in self.findings:
            if f["key"] == key:
                return f
        return None

    # ------------------------------------------------------------------ finish
    def finish(self):
        obls = self.sink.obls
        if not obls:
            raise CheckerError("zero obligations generated")
        self.solve_all(obls)
        # known-finding witnesses: 'sat' means the listed defect is still present
        known_hits = []
        lines = []
        wit = {}
        for o in obls:
            key = o.meta.get("finding_witness")
            if not key:
                continue
            wit.setdefault(key, []).append(o)
        for key, group in wit.items():
            f = self.finding(key)
            present = [o for o in group if o.status == "discharged"]   # satisfiable: defect reachable
            infeasible_paths = [o for o in group if o.status == "refuted"]
            for o in infeasible_paths:
                # this path cannot exhibit the defect (e.g. another ladder branch); not an alarm
                o.status = "discharged"
                o.detail = "listed defect not reachable on this path"
            reproduced = None
            for o in present:
                rp = self.replay(o)
                if rp.get("reproduced"):
                    reproduced = (o, rp)
                    break
            if reproduced:
                known_hits.append(reproduced[0])
                lines.append("KNOWN-FINDING: property=%s %s [%s; replayed on the real code: %s]" % (
                    self.pid, f["what"], reproduced[0].name, json.dumps(reproduced[1].get("real_code"))[:200]))
            elif present:
                lines.append("NOTE: listed finding %s is reachable for the solver but did not replay on the real code" % key)
            else:
                lines.append("NOTE: listed finding %s is no longer present (its witness obligations are unsatisfiable)" % key)
        # vacuity guards (cover/canary) the solver cannot decide (quantified path conditions) are reported as
        # inconclusive, not as failures; a refuted one (precondition contradictory / exit unreachable) is an error
        self.inconclusive = [o for o in obls if o.kind in ("cover", "canary") and o.status == "unknown"]
        if self.inconclusive:
            self.sink.obls = obls = [o for o in obls if o not in self.inconclusive]
        # undecided witnesses of a listed finding are inconclusive, never alarms
        wu = [o for o in obls if o.meta.get("finding_witness") and o.status != "discharged"]
        if wu:
            self.inconclusive = getattr(self, "inconclusive", []) + wu
            self.sink.obls = obls = [o for o in obls if o not in wu]
        bad = [o for o in obls if o.status != "discharged"]
        violations = []
        undecided = []
        for o in bad:
            if o.status == "refuted":
                violations.append(o)
            elif o.name in self.lock:
                # proved on the unchanged tree (lock file), no longer provable now: reported as a violation of
                # that obligation; a failing input is searched by running the real code (replay harness)
                o.detail = "was discharged on the unchanged tree, now %s: %s" % (o.status, o.detail)
                violations.append(o)
            else:
                undecided.append(o)
        # an undecided obligation whose replay harness finds a failing input on the real code is a violation
        for o in list(undecided):
            if o.replay is not None:
                rp = self.replay(o)
                if rp.get("reproduced"):
                    o.detail = "undecided by the solver (%s); failing input found by running the real code" % (o.detail or o.status)
                    undecided.remove(o)
                    violations.append(o)
        # lock drift: every locked semantic obligation must still be generated
        names = {o.name for o in obls}
        missing = [n for n, m in self.lock.items() if n not in names and m.get("kind") in ("post", "preserve", "establish", "equiv", "lemma", "sum", "deriv", "cont", "thermo", "doc", "finite", "vertex", "race")]
        # obligations of a function whose contract could not be applied but whose real code was shown to violate it
        gone = [o.name.rsplit(":", 2)[0] for o in obls if o.kind == "contract"]
        gone += ["%s:%s%s" % (c_.file, c_.func, c_.tag or "") for (c_, _e) in getattr(self, "deferred_errors", [])]
        if getattr(self, "deferred_errors", None) and not violations:
            raise self.deferred_errors[0][1]
        for (c_, e_) in getattr(self, "deferred_errors", []):
            lines.append("NOTE: contract of %s%s could not be applied to the current text: %s" % (c_.func, c_.tag or "", str(e_)[:160]))
        missing = [n for n in missing if not any(n.startswith(g + ":") for g in gone)]
        missing = [n for n in missing if self.lock[n].get("group") not in getattr(self, "gone_groups", set())]
        if missing:
            raise CheckerError("obligations in the lock file are no longer generated (renamed or deleted code?): %s" % missing[:5])
        rep_dir = os.path.join(OUT, "replays", self.pid)
        if os.path.isdir(rep_dir):
            import shutil
            shutil.rmtree(rep_dir, ignore_errors=True)
        for o in violations:
            os.makedirs(rep_dir, exist_ok=True)
            rp = self.replay(o)
            path = os.path.join(rep_dir, o.name.replace("/", "_").replace(":", "__").replace(" ", "_") + ".json")
            with open(path, "w") as f:
                json.dump({"property": self.pid, "obligation": o.name, "kind": o.kind, "label": o.meta.get("label"),
                           "source": o.meta.get("src"), "line": o.meta.get("line"), "solver": o.solver,
                           "solver_status": o.status, "solver_detail": o.detail, "model": o.model, "replay": rp}, f, indent=1, default=str)
            tail = "" if rp.get("reproduced") else " no-failing-input-found"
            lines.append("VIOLATION property=%s replay=%s obligation=%s%s" % (self.pid, path, o.name, tail))
        for o in undecided:
            lines.append("UNDECIDED property=%s obligation=%s status=%s %s" % (self.pid, o.name, o.status, o.detail[:120]))
        for l in lines:
            print(l)
        self.crosscheck = None
        if self.tier == "thorough" and not violations:
            self.crosscheck = self.cross_check()
        self.write_evidence(len(violations), known_hits)
        if violations:
            return 1
        if self.crosscheck and self.crosscheck["failed"]:
            for fdesc in self.crosscheck["failed"]:
                print("CROSS-CHECK-FAILED %s: the real code disagrees with a contract whose obligations were all discharged: %s" % (self.pid, fdesc))
            return 3
        if undecided:
            return 2
        return 0

    def cross_check(self):
        """thorough tier only: the contracts are additionally evaluated on executions of the REAL code (compiled C through
        ctypes incl. an AddressSanitizer build, Python through the replay harnesses) although every obligation was discharged.
        This guards the verifier itself (an unsound encoding would show up as a discharged contract the real code violates);
        it is not counted as proof."""
        from . import cfuzz
        done, failed = [], []
        for (cfs, c) in getattr(self, "verified_contracts", []):
            if c.gen is None:
                continue
            try:
                r = cfuzz.fuzz(cfs, c, trials=400, seed=self.seed, lib=c.lib)
                a = cfuzz.asan_fuzz(cfs, c, trials=100, seed=self.seed)
            except Exception as e:
                done.append({"function": c.func + (c.tag or ""), "error": repr(e)[:200]})
                continue
            done.append({"function": c.func + (c.tag or ""), "executions": r.get("executions"), "clauses_violated": r.get("violated_clauses"),
                         "sanitizer_executions": a.get("executions"), "sanitizer_report": bool(a.get("reproduced"))})
            if r.get("reproduced"):
                failed.append("%s violates %s" % (c.func, r.get("violated_clauses")))
            if a.get("reproduced"):
                failed.append("%s: %s" % (c.func, a.get("sanitizer", "")[:120]))
        shared = {}
        for (cfs, c) in getattr(self, "verified_contracts", []):
            fn_ = getattr(c, "replay_fn", None)
            if c.gen is None and fn_ is not None and fn_ not in shared:
                shared[fn_] = c
        for fn_, c in shared.items():
            r = self._shared_replay(fn_)
            done.append({"harness": getattr(fn_, "__name__", "?"), "for": c.func, "executions": r.get("executions"), "reproduced": bool(r.get("reproduced"))})
            if r.get("reproduced"):
                failed.append("%s: real kernel disagrees with the spec (%s)" % (getattr(fn_, "__name__", "?"), str(r.get("real_code"))[:160]))
        seen = set()
        for o in self.sink.obls:
            if o.replay is None or o.status != "discharged" or o.meta.get("finding_witness"):
                continue
            grp = o.name.rsplit(":", 2)[0]
            if grp in seen or any(grp == "%s:%s%s" % (c.file, c.func, c.tag or "") for (_, c) in getattr(self, "verified_contracts", [])):
                continue
            seen.add(grp)
            rp = self.replay(o)
            done.append({"harness_of": grp, "reproduced": bool(rp.get("reproduced")), "note": str(rp.get("reason", ""))[:120]})
            if rp.get("reproduced"):
                failed.append("replay harness of %s reproduces a violation" % grp)
        return {"runs": done, "failed": failed}

    def solve_all(self, obls):
        """Staged discharge.  Weakened queries (fewer hypotheses, products as an uninterpreted function) are
        sound for *proving*; a model of a weakened query is never taken as a refutation."""
        from .core import _has_quantifier

        def attempt(sel, budget, tag, **flags):
            todo = [o for o in sel if o.status is None]
            if not todo:
                return
            for o in todo:
                o.meta.update(flags)
            if flags.get("abstract_mul"):
                # abstract once in the parent (memoised over the shared sub-terms); the forked workers inherit the memo
                from .core import abstract_mul as _am
                for o in todo:
                    for h in o.hyps:
                        _am(h)
                    _am(o.goal)
            backends.discharge(todo, budget)
            for o in todo:
                for k in flags:
                    o.meta.pop(k, None)
                if o.status == "discharged":
                    if tag:
                        o.solver = (o.solver or "") + tag
                elif flags:            # weakened: anything else means "try the next stage"
                    o.status, o.model, o.detail = None, None, ""
        smt = [o for o in obls if o.status is None and o.backend == "smt" and o.expect == "valid"]
        qf_first = [o for o in smt if not _has_quantifier(o.goal) and any(_has_quantifier(h) for h in o.hyps)]
        attempt(qf_first, 3.0, "+qf", drop_quantified=True)
        attempt(qf_first, 3.0, "+qf+umul", drop_quantified=True, abstract_mul=True)
        attempt([o for o in smt if o.meta.get("abstract_first")], 4.0, "+umul", abstract_mul=True)
        quant = [o for o in smt if _has_quantifier(o.goal) or any(_has_quantifier(h) for h in o.hyps)]
        eb = 8.0 if self.tier == "quick" else 30.0
        attempt(quant, eb, "+ematch", mbqi=False)                    # exact formula, instantiation by patterns only
        attempt(quant, 3 * eb, "+ematch+umul", mbqi=False, abstract_mul=True)
        for sd in (1, 2, 3):                                         # early seed portfolio for the quantified ones (cheap when it works)
            attempt(quant, 5.0, "+umul+seed%d" % sd, abstract_mul=True, random_seed=sd)
        backends.discharge(obls, self.budget)                       # exact, everything still open (all back ends)
        unk = [o for o in obls if o.status == "unknown" and o.backend == "smt" and o.expect == "valid"]
        for o in unk:
            o.status = None
        attempt(unk, self.budget, "+umul", abstract_mul=True)
        for o in unk:
            if o.status is None:
                o.status = "unknown"
        # seed portfolio: quantifier instantiation is sensitive to the solver's random choices; any 'unsat' is a proof
        unk = [o for o in obls if o.status == "unknown" and o.backend == "smt" and o.expect == "valid"]
        for sd in (1, 2, 3, 4, 5, 6):
            for o in unk:
                if o.status == "unknown":
                    o.status = None
            attempt(unk, 6.0, "+umul+seed%d" % sd, abstract_mul=True, random_seed=sd)
            attempt(unk, 6.0, "+seed%d" % sd, random_seed=sd)
            for o in unk:
                if o.status is None:
                    o.status = "unknown"
            unk = [o for o in unk if o.status == "unknown"]
            if not unk:
                break
        unk = [o for o in obls if o.status == "unknown" and o.kind not in ("cover", "canary") and not o.meta.get("finding_witness")][:8]
        for o in unk:
            o.status = None
        if unk:
            backends.discharge(unk, self.budget * 4)

    def replay(self, o):
        if o.replay is None:
            return {"reproduced": False, "reason": "no replay harness for this obligation; solver output attached"}
        try:
            return o.replay(o.model or {})
        except Exception as e:
            return {"reproduced": False, "reason": "replay harness error: %r" % e, "trace": traceback.format_exc()[-800:]}

    def write_evidence(self, nviol, known_hits):
        obls = self.sink.obls
        by_solver = {}
        secs = {}
        for o in obls:
            by_solver[o.solver or "none"] = by_solver.get(o.solver or "none", 0) + 1
            secs[o.solver or "none"] = secs.get(o.solver or "none", 0.0) + o.time
        kinds = {}
        for o in obls:
            kinds[o.kind] = kinds.get(o.kind, 0) + 1
        samples = []
        seen_k = set()
        for o in obls:
            if o.kind not in seen_k and o.status == "discharged":
                seen_k.add(o.kind)
                samples.append({"obligation": o.name, "kind": o.kind, "label": o.meta.get("label"),
                                "source": o.meta.get("src"), "solver": o.solver, "seconds": round(o.time, 3),
                                "smt2_bytes": len(o.smt2()) if o.backend == "smt" else None})
        disch = sum(1 for o in obls if o.status == "discharged")
        ev = {
            "property_id": self.pid, "tier": self.tier, "seed": self.seed, "level": "proof",
            "coverage": {
                "obligations": len(obls), "discharged": disch,
                "checker_cmd": "./check %s --tier %s" % (self.pid, self.tier),
                "trusted_base": self.trusted,
                "obligations_by_kind": kinds, "obligations_by_backend": by_solver,
                "solver_seconds": {k: round(v, 2) for k, v in secs.items()},
                "functions_under_contract": self.functions,
                "axioms": self.axioms, "assumed_contracts": self.assumed_contracts,
                "abstracted_statements": self.abstracted, "bounded": self.bounded,
                "not_decided": self.not_decided,
                "real_code_cross_check": getattr(self, "crosscheck", None),
                "vacuity_checks_inconclusive": [o.name for o in getattr(self, "inconclusive", [])],
                "known_findings": [{"key": o.meta.get("finding"), "obligation": o.name} for o in known_hits],
                "not_discharged": [{"obligation": o.name, "status": o.status, "detail": o.detail[:200]} for o in obls if o.status != "discharged"][:50],
                "samples": samples,
                "explanation": "Obligations are generated on this run from /repo's working tree by the pvc VC generator "
                               "(clang JSON AST for C, ast for Python) against the sidecar contracts in /verif/contracts.",
            },
            "assumptions": self.assumptions,
            "wall_s": round(time.time() - self.t0, 2),
            "violations": nviol,
        }
        os.makedirs(os.path.join(OUT, "evidence"), exist_ok=True)
        with open(os.path.join(OUT, "evidence", "%s.json" % self.pid), "w") as f:
            json.dump(ev, f, indent=1, default=str)
