"""Spec-level helpers: recursive sums with definitional unfolding (no free axioms)."""
import z3


class RecSum:
    """S(p..., n) = sum_{k<n} term(p..., k).  Only instances of the two defining equations can be produced,
    so using them as hypotheses is a conservative (definitional) extension."""

    def __init__(self, name, param_sorts, term, sort=None):
        self.name = name
        self.term = term
        self.sort = sort or z3.RealSort()
        self.f = z3.Function(name, *param_sorts, z3.IntSort(), self.sort)
        self.nparams = len(param_sorts)

    def __call__(self, *args):
        assert len(args) == self.nparams + 1
        return self.f(*[a if isinstance(a, z3.ExprRef) else z3.IntVal(a) for a in args])

    def zero(self, *params):
        z = z3.RealVal(0) if self.sort == z3.RealSort() else z3.IntVal(0)
        return self(*params, 0) == z

    def unfold(self, *args):
        """S(p, k+1) == S(p, k) + term(p, k)   (for k >= 0)"""
        params, k = args[:-1], args[-1]
        k = k if isinstance(k, z3.ExprRef) else z3.IntVal(k)
        return z3.Implies(k >= 0, self(*params, k + 1) == self(*params, k) + self.term(*params, k))

    def defs_forall(self, bound_params):
        """quantified form of both equations over the given bound parameter variables"""
        k = z3.Int("k!" + self.name)
        return [z3.ForAll(list(bound_params), self.zero(*bound_params)) if bound_params else self.zero(),
                z3.ForAll(list(bound_params) + [k], self.unfold(*bound_params, k),
                          patterns=[self(*bound_params, k + 1)])]
