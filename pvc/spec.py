"""Spec-level helpers: recursive sums with definitional unfolding (no free axioms).

A RecSum is *closed by lambda lifting*: every free constant of its summand (arrays, scalars, symbols of
the enclosing verification context) becomes an explicit leading argument of the z3 function, and the
function symbol is keyed by a hash of the summand with those constants renamed canonically.  Hence one
symbol has exactly one definition, whatever arrays or offsets a call site passes: using instances of the
two defining equations as hypotheses is a conservative (definitional) extension.
"""
import hashlib

import z3

_REG = {}     # key -> z3 FuncDecl


def _free_consts(e, exclude):
    out = []
    seen = set()
    ex = {x.get_id() for x in exclude}

    def walk(x):
        k = x.get_id()
        if k in seen:
            return
        seen.add(k)
        if z3.is_quantifier(x):
            walk(x.body())
            return
        if z3.is_var(x):
            return
        if z3.is_const(x) and x.decl().kind() == z3.Z3_OP_UNINTERPRETED:
            if k not in ex:
                out.append(x)
            return
        for c in x.children():
            walk(c)
    walk(e)
    return out


class RecSum:
    """S(p..., n) = sum_{k<n} term(p..., k)."""

    def __init__(self, name, param_sorts, term, sort=None):
        self.name = name
        self.term = term
        self.sort = sort if sort is not None else z3.RealSort()
        self.param_sorts = list(param_sorts)
        self.nparams = len(param_sorts)
        self._lifted = None

    def _lift(self):
        if self._lifted is not None:
            return self._lifted
        ph = [z3.Const("ph!%s!%d" % (self.name, i), s) for i, s in enumerate(self.param_sorts)]
        kk = z3.Int("ph!%s!k" % self.name)
        body = self.term(*ph, kk)
        free = _free_consts(body, ph + [kk])
        canon = [z3.Const("c!%d" % i, c.sort()) for i, c in enumerate(free)]
        cbody = z3.substitute(body, *zip(free, canon)) if free else body
        sig = cbody.sexpr() + "|" + "|".join(str(c.sort()) for c in canon)
        key = "%s#%s" % (self.name, hashlib.sha1(sig.encode()).hexdigest()[:10])
        if key not in _REG:
            _REG[key] = z3.Function(key, *[c.sort() for c in free], *self.param_sorts, z3.IntSort(), self.sort)
        self._lifted = (_REG[key], free, key)
        return self._lifted

    @property
    def key(self):
        return self._lift()[2]

    def __call__(self, *args):
        f, free, _ = self._lift()
        assert len(args) == self.nparams + 1, "%s: %d args" % (self.name, len(args))
        a = [x if isinstance(x, z3.ExprRef) else z3.IntVal(x) for x in args]
        return f(*free, *a)

    def zero(self, *params):
        z = z3.RealVal(0) if self.sort == z3.RealSort() else z3.IntVal(0)
        return self(*params, 0) == z

    def unfold(self, *args):
        """S(p, k+1) == S(p, k) + term(p, k)   (for k >= 0)"""
        params, k = args[:-1], args[-1]
        k = k if isinstance(k, z3.ExprRef) else z3.IntVal(k)
        params = [p if isinstance(p, z3.ExprRef) else z3.IntVal(p) for p in params]
        return z3.Implies(k >= 0, self(*params, k + 1) == self(*params, k) + self.term(*params, k))


def monotone_lemma(sink, prefix, rs, nbound, hyps=()):
    """For a RecSum with non-negative summands: a <= b  =>  S(p, a) <= S(p, b).
    Emits the step obligation (term >= 0 for every index, under hyps) and returns the quantified
    conclusion, which follows by induction on b - a (induction principle: trusted, named in the evidence)."""
    ps = [z3.Const("mp!%s!%d" % (rs.name, i), s_) for i, s_ in enumerate(rs.param_sorts)]
    k = z3.Int("mk!%s" % rs.name)
    a, b = z3.Int("ma!%s" % rs.name), z3.Int("mb!%s" % rs.name)
    z = z3.RealVal(0) if rs.sort == z3.RealSort() else z3.IntVal(0)
    sink.add(prefix, "induction-step", list(hyps), z3.ForAll(ps + [k], z3.Implies(k >= 0, rs.term(*ps, k) >= z)),
             meta={"label": "%s: every summand is >= 0 (step of the monotonicity induction)" % rs.name})
    return z3.ForAll(ps + [a, b], z3.Implies(z3.And(a >= 0, a <= b), rs(*ps, a) <= rs(*ps, b)),
                     patterns=[z3.MultiPattern(rs(*ps, a), rs(*ps, b))])


def step_monotone_lemma(sink, prefix, rs, hyps=()):
    """For a RecSum with non-negative summands: 0 <= a < b  =>  S(p, a) + term(p, a) <= S(p, b)   (and S >= 0).
    Step obligation: every summand is >= 0 (under hyps).  The conclusion follows by induction on b from the two
    defining equations (base b = a+1: S(a+1) = S(a) + term(a); step: S(b+1) = S(b) + term(b) >= S(b));
    the induction principle itself is trusted and named in the evidence."""
    ps = [z3.Const("sp!%s!%d" % (rs.name, i), s_) for i, s_ in enumerate(rs.param_sorts)]
    k = z3.Int("sk!%s" % rs.name)
    a, b = z3.Int("sa!%s" % rs.name), z3.Int("sb!%s" % rs.name)
    z = z3.RealVal(0) if rs.sort == z3.RealSort() else z3.IntVal(0)
    sink.add(prefix, "induction-step", list(hyps), z3.ForAll(ps + [k], z3.Implies(k >= 0, rs.term(*ps, k) >= z)),
             meta={"label": "%s: every summand is >= 0 (step of the monotonicity induction)" % rs.name})
    return [z3.ForAll(ps + [a, b], z3.Implies(z3.And(a >= 0, a < b), rs(*ps, a) + rs.term(*ps, a) <= rs(*ps, b)),
                      patterns=[z3.MultiPattern(rs(*ps, a), rs(*ps, b))]),
            z3.ForAll(ps + [a], z3.Implies(a >= 0, rs(*ps, a) >= z), patterns=[rs(*ps, a)])]


def induction(sink, prefix, label, params, P, unfolds, hyps=(), kind="induction"):
    """Induction on n >= 0 for a predicate P(params..., n) over spec functions.
    Emits  base:  hyps => P(p, 0)          (with the unfold facts at 0)
           step:  hyps, n >= 0, P(p, n), unfold facts at n => P(p, n+1)      (p, n fresh constants)
    and returns the conclusion ForAll p, n. n >= 0 => P(p, n); the induction principle itself is trusted (named in the evidence).
    `unfolds(p..., n)` lists instances of defining equations of the spec functions involved."""
    ps = [z3.FreshConst(s_, "ip") for s_ in params]
    n = z3.FreshConst(z3.IntSort(), "in")
    sink.add(prefix, kind, list(hyps) + list(unfolds(*ps, z3.IntVal(0))), P(*ps, z3.IntVal(0)), meta={"label": label + ": base case n = 0"})
    sink.add(prefix, kind, list(hyps) + [n >= 0, P(*ps, n)] + list(unfolds(*ps, n)), P(*ps, n + 1), meta={"label": label + ": step n -> n+1"})
    qs = [z3.Const("iq!%d" % i, s_) for i, s_ in enumerate(params)]
    qn = z3.Int("iq!n")
    return z3.ForAll(qs + [qn], z3.Implies(qn >= 0, P(*qs, qn)))
