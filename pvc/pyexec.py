"""Symbolic executor for a subset of Python (ast of the repository's own files, re-read on every run).

Modelled (DESIGN.md 2.2): ints / floats (as exact reals) / bools, arithmetic with Python ``//`` and ``%``
semantics, comparisons, if/elif/else (fork + merge), for over concrete sequences (unrolled) or with an
invariant, while, return, raise, tuples, lists, dict literals, attribute access on symbolic records
(``self``), nested closures, and a numpy mini-model for small fixed shapes.  Anything else raises
CheckerError (never silently skipped) unless the contract lists it under ``abstract``.
"""
import ast
import itertools
import os
from decimal import Decimal
from fractions import Fraction

import z3

from .cexec import MATH_FUNS, Z, simp, is_concrete_bool, to_real, to_int
from .cfront import REPO
from .core import CheckerError

_mod_cache = {}


class PyModule:
    def __init__(self, relpath):
        self.relpath = relpath
        self.path = os.path.join(REPO, relpath)
        with open(self.path) as f:
            self.text = f.read()
        self.tree = ast.parse(self.text)
        self.funcs = {}
        self.classes = {}
        self.consts = {}
        self.imports = {}     # local name -> dotted origin
        for n in self.tree.body:
            if isinstance(n, ast.ImportFrom) and n.module:
                for a in n.names:
                    self.imports[a.asname or a.name] = n.module + "." + a.name
            elif isinstance(n, ast.Import):
                for a in n.names:
                    self.imports[a.asname or a.name.split(".")[0]] = a.name
        for n in self.tree.body:
            if isinstance(n, ast.FunctionDef):
                self.funcs[n.name] = n
            elif isinstance(n, ast.ClassDef):
                self.classes[n.name] = n
            elif isinstance(n, ast.Assign) and len(n.targets) == 1 and isinstance(n.targets[0], ast.Name):
                self.consts[n.targets[0].id] = n.value

    def method(self, cls, name):
        for n in self.classes[cls].body:
            if isinstance(n, ast.FunctionDef) and n.name == name:
                return n
        # single inheritance inside the same module
        for b in self.classes[cls].bases:
            if isinstance(b, ast.Name) and b.id in self.classes:
                return self.method(b.id, name)
        return None

    def source(self, node):
        return ast.get_source_segment(self.text, node) or ""

    def sha(self, node):
        import hashlib
        return hashlib.sha1(self.source(node).encode()).hexdigest()[:12]


def load(relpath):
    if relpath not in _mod_cache:
        _mod_cache[relpath] = PyModule(relpath)
    return _mod_cache[relpath]


# ------------------------------------------------------------------ values
class Ref:
    """reference to a heap object (list / ndarray / record)"""
    __slots__ = ("id",)
    _ids = itertools.count(1)

    def __init__(self, i=None):
        self.id = i if i is not None else next(Ref._ids)

    def __repr__(self):
        return "Ref(%d)" % self.id


class PList:
    def __init__(self, items):
        self.items = list(items)

    def clone(self):
        return PList(self.items)


class NDArr:
    """numpy mini-model: concrete shape, flat list of values (z3 or nested Ref-free scalars)."""

    def __init__(self, shape, flat, dtype="double"):
        self.shape = tuple(shape)
        self.flat = list(flat)
        self.dtype = dtype

    def clone(self):
        c = NDArr(self.shape, self.flat, self.dtype)
        if getattr(self, "integral", False):
            c.integral = True
        return c

    def index(self, idx):
        k = 0
        for i, s in zip(idx, self.shape):
            if i < 0:
                i += s
            if not (0 <= i < s):
                raise CheckerError("ndarray index out of range %s for shape %s" % (idx, self.shape))
            k = k * s + i
        return k


class Record:
    def __init__(self, cls, attrs):
        self.cls = cls
        self.attrs = dict(attrs)

    def clone(self):
        return Record(self.cls, self.attrs)


class Closure:
    def __init__(self, node, env, module, self_ref=None, cls=None):
        self.node = node
        self.env = env
        self.module = module
        self.self_ref = self_ref
        self.cls = cls


class SymArr:
    """array of symbolic length: shape (z3 ints / python ints), element function of the index tuple.
    Used for index tables (s2p_map, permutations, ...); elements are z3 terms."""

    def __init__(self, shape, fn, why=""):
        self.shape = tuple(shape)
        self.fn = fn
        self.why = why

    def at(self, *idx):
        return self.fn(*idx)


class SymRange:
    def __init__(self, lo, hi):
        self.lo, self.hi = lo, hi


class GenericItem:
    """list element appended in a generic iteration: for every var in [lo, hi): value(var), at list position offset+var-lo"""

    def __init__(self, var, lo, hi, value, pc):
        self.var, self.lo, self.hi, self.value, self.pc = var, lo, hi, value, pc


class SymFn:
    """mapping given as a function (dict with symbolic keys)"""

    def __init__(self, fn, why=""):
        self.fn = fn
        self.why = why


class SymEnum:
    def __init__(self, arr):
        self.arr = arr


class SuperRef:
    def __init__(self, self_ref, cls):
        self.self_ref = self_ref
        self.cls = cls


class ClassRef:
    def __init__(self, name):
        self.name = name


class Hooked:
    def __init__(self, fn):
        self.fn = fn


class Builtin:
    def __init__(self, name):
        self.name = name


class ModuleRef:
    def __init__(self, name):
        self.name = name


class Opaque:
    """value outside the modelled subset (result of an abstracted statement); any operation on it is opaque"""
    _n = itertools.count()

    def __init__(self, why="", buf=None, idx=None):
        self.why = why
        self.id = next(Opaque._n)
        # index function of a per-atom sequence relative to its source ordering (abstract): ('base', name) |
        # ('repeat', idx, count-object-id) | ('take', idx, index-array-id) | ('arange', count-id); None = unknown
        self.idx = idx
        # abstract buffer identity (ownership model): views share the buffer of their base, every other
        # abstracted result is a fresh buffer
        self.buf = buf if buf is not None else self.id

    def __repr__(self):
        return "Opaque(%s)" % self.why


BUF_ORIGIN = {}     # buffer id of a copy -> content token of its source at copy time


def content_token(st, x):
    """abstract content identity of an abstracted array/dict: where its buffer's content came from and the
    in-place writes applied to that buffer since.  A copy nobody wrote to has the content of its source."""
    w = tuple(ln for (b, ln) in st.writes if b == x.buf)
    org = BUF_ORIGIN.get(x.buf)
    if org is None:
        return ("fresh", x.buf, w)
    return org if not w else ("copy", org, w)


def source_token(st, x):
    """content the value was derived from: for a (possibly updated) copy, the content of its source at copy time"""
    org = BUF_ORIGIN.get(x.buf)
    return org if org is not None else content_token(st, x)


def opaque_copy(st, o, why=None):
    r = Opaque(why or ("copy of " + o.why), idx=o.idx)
    BUF_ORIGIN[r.buf] = content_token(st, o)
    return r


def concrete_int(x):
    """python int of a value that must be a concrete integer (CheckerError otherwise)"""
    if isinstance(x, bool):
        raise CheckerError("boolean where a concrete integer is expected")
    if isinstance(x, int):
        return x
    if isinstance(x, float) and x == int(x):
        return int(x)
    if is_sym(x):
        s_ = simp(x)
        if z3.is_int_value(s_):
            return s_.as_long()
        if z3.is_rational_value(s_) and s_.denominator_as_long() == 1:
            return s_.numerator_as_long()
    raise CheckerError("not a concrete integer: %r" % (x,))


class PState:
    def __init__(self):
        self.heap = {}
        self.pc = []
        self.writes = []      # (buffer id, line) of in-place writes to abstracted arrays

    def clone(self):
        s = PState()
        s.heap = {k: v.clone() for k, v in self.heap.items()}
        s.pc = list(self.pc)
        s.writes = list(self.writes)
        return s

    def new(self, obj):
        r = Ref()
        self.heap[r.id] = obj
        return r


def _mentions(e, c):
    if e.eq(c):
        return True
    return any(_mentions(ch, c) for ch in e.children())


def pyconst(v):
    if isinstance(v, bool):
        return v
    if isinstance(v, int):
        return z3.IntVal(v)
    if isinstance(v, float):
        return z3.RealVal(Fraction(Decimal(repr(v))))
    return v


def is_sym(v):
    return isinstance(v, z3.ExprRef)


def num(v):
    """coerce python number / z3 to z3 arithmetic"""
    if isinstance(v, bool):
        return z3.IntVal(int(v))
    if isinstance(v, int):
        return z3.IntVal(v)
    if isinstance(v, float):
        return z3.RealVal(Fraction(Decimal(repr(v))))
    if isinstance(v, Fraction):
        return z3.RealVal(v)
    if is_sym(v):
        if z3.is_bool(v):
            return z3.If(v, z3.IntVal(1), z3.IntVal(0))
        return v
    raise CheckerError("not a number: %r" % (v,))


def both_real(a, b):
    a, b = num(a), num(b)
    if a.sort() != b.sort():
        a, b = to_real(a), to_real(b)
    return a, b


def truth(v):
    if isinstance(v, Opaque):
        return z3.Bool("opaque!cond!%d" % v.id)
    if isinstance(v, tuple) and v and isinstance(v[0], str) and v[0] == "array-compare":
        return z3.Bool("opaque!cond!%d" % next(Opaque._n))
    if isinstance(v, bool):
        return z3.BoolVal(v)
    if v is None:
        return z3.BoolVal(False)
    if is_sym(v):
        if z3.is_bool(v):
            return v
        return v != 0
    if isinstance(v, (int, float)):
        return z3.BoolVal(bool(v))
    if isinstance(v, (str, tuple, list)):
        return z3.BoolVal(bool(v))
    return z3.BoolVal(True)


NP_MATH = {"exp": "exp", "log": "log", "sqrt": "sqrt", "sinh": "sinh", "cosh": "cosh", "tanh": "tanh",
           "cos": "cos", "sin": "sin", "abs": "fabs", "fabs": "fabs"}


class PyExec:
    def __init__(self, module, sink=None, prefix="", globals_=None, abstract=(), loops=None, split=False, hooks=None, opaque_unknown=False):
        self.mod = module
        self.sink = sink
        self.prefix = prefix
        self.globals = dict(globals_ or {})
        self.abstract = set(abstract)
        self.abstracted = []
        self.loops = loops or {}
        self.split = split
        self.depth = 0
        self.facts = []
        self.hooks = hooks or {}
        self.opaque_unknown = opaque_unknown

    def sub_exec(self, rel):
        if not hasattr(self, "_subs"):
            self._subs = {}
        if rel not in self._subs:
            self._subs[rel] = PyExec(load(rel), self.sink, self.prefix, globals_=self.globals, abstract=self.abstract, hooks=self.hooks,
                                     opaque_unknown=self.opaque_unknown)
            self._subs[rel].abstracted = self.abstracted
        return self._subs[rel]

    # ------------------------------------------------------------ obligations
    def oblige(self, kind, st, goal, node=None, label=None):
        if self.sink is None:
            return None
        meta = {"label": label}
        if node is not None:
            meta["line"] = getattr(node, "lineno", None)
            meta["src"] = (self.mod.source(node) or "")[:160]
        ob = self.sink.add(self.prefix, kind, list(st.pc) + list(self.facts), goal, meta=meta)
        if z3.is_true(simp(goal)):
            ob.status = "discharged"
            ob.solver = "simplify"
        return ob

    # ------------------------------------------------------------ calling
    def call_function(self, st, fnode, args, kwargs=None, env=None, self_ref=None, cls=None):
        """Returns list of (state, flow, value) with flow in 'return' | 'raise'."""
        kwargs = kwargs or {}
        self.depth += 1
        if self.depth > 40:
            raise CheckerError("python call depth")
        local = dict(env or {})
        a = fnode.args
        params = [p.arg for p in a.args]
        vals = list(args)
        if self_ref is not None:
            vals = [self_ref] + vals
        ndef = len(a.defaults)
        for i, p in enumerate(params):
            if i < len(vals):
                local[p] = vals[i]
            elif p in kwargs:
                local[p] = kwargs[p]
            else:
                di = i - (len(params) - ndef)
                if di < 0:
                    raise CheckerError("missing argument %s of %s" % (p, fnode.name))
                local[p] = self.const_expr(a.defaults[di])
        if a.vararg is not None:
            local[a.vararg.arg] = tuple(vals[len(params):])
        elif len(vals) > len(params):
            raise CheckerError("too many arguments for %s" % fnode.name)
        for p, d in zip(a.kwonlyargs, a.kw_defaults):
            local[p.arg] = kwargs.get(p.arg, self.const_expr(d) if d is not None else None)
        local["__cls__"] = cls
        # names assigned somewhere in this function: reading one of them before it is bound is UnboundLocalError
        assigned = set()
        for sub in ast.walk(fnode):
            if isinstance(sub, ast.Name) and isinstance(sub.ctx, ast.Store):
                assigned.add(sub.id)
            elif isinstance(sub, (ast.FunctionDef, ast.Lambda)) and sub is not fnode:
                pass
        local["__assigned__"] = assigned
        outs = []
        for (s, fl, v, e) in self.exec_block(st, fnode.body, local):
            if fl == "normal":
                outs.append((s, "return", None))
            elif fl in ("return", "raise"):
                outs.append((s, fl, v))
            else:
                raise CheckerError("break/continue outside loop")
        self.depth -= 1
        return outs

    def const_expr(self, node):
        st = PState()
        return self.eval(st, node, {})

    # ------------------------------------------------------------ statements
    def exec_block(self, st, stmts, env):
        cur = [(st, "normal", None, env)]
        for s in stmts:
            nxt = []
            for (x, fl, v, e) in cur:
                if fl != "normal":
                    nxt.append((x, fl, v, e))
                else:
                    nxt.extend(self.exec_stmt(x, s, e))
            cur = self.merge_normals(nxt)
        return cur

    def merge_normals(self, outs):
        if self.split and self.depth <= (1 if self.split is True else self.split):
            return outs
        normal = [o for o in outs if o[1] == "normal"]
        other = [o for o in outs if o[1] != "normal"]
        if len(normal) > 1:
            m = self.merge([(o[0], o[3]) for o in normal])
            if m is not None:
                normal = [(m[0], "normal", None, m[1])]
        return normal + other

    def merge(self, pairs):
        """merge (state, env) pairs that differ by a pc suffix; None if values cannot be merged"""
        sts = [p[0] for p in pairs]
        n = min(len(s.pc) for s in sts)
        k = 0
        while k < n and all(s.pc[k].eq(sts[0].pc[k]) for s in sts):
            k += 1
        conds = [z3.And(*s.pc[k:]) if len(s.pc) > k else z3.BoolVal(True) for s in sts]

        def ite(vals):
            r = vals[-1]
            for c, v in zip(reversed(conds[:-1]), reversed(vals[:-1])):
                if v is r or (is_sym(v) and is_sym(r) and v.eq(r)):
                    continue
                if isinstance(v, (int, float, bool)) and isinstance(r, (int, float, bool)) and v == r and type(v) is type(r):
                    continue
                a, b = v, r
                if isinstance(a, bool) or isinstance(b, bool) or (is_sym(a) and z3.is_bool(a)) or (is_sym(b) and z3.is_bool(b)):
                    a, b = truth(a), truth(b)
                else:
                    try:
                        a, b = both_real(a, b)
                    except CheckerError:
                        return _FAIL
                r = z3.If(c, a, b)
            return r
        out = PState()
        out.pc = list(sts[0].pc[:k])
        kw = 0
        while all(len(s.writes) > kw for s in sts) and all(s.writes[kw] == sts[0].writes[kw] for s in sts):
            kw += 1
        out.writes = list(sts[0].writes[:kw])
        for s in sts:                       # a write on any merged path counts (conservative for ownership checks)
            for w in s.writes[kw:]:
                if w not in out.writes[kw:]:
                    out.writes.append(w)
        disj = simp(z3.Or(*conds))
        if not z3.is_true(disj):
            out.pc.append(disj)
        env = {}
        keys = set()
        for _, e in pairs:
            keys.update(e)
        for key in keys:
            vals = [e.get(key, _MISSING) for _, e in pairs]
            if any(v is _MISSING for v in vals):
                continue
            v0 = vals[0]
            if all(v is v0 for v in vals):
                env[key] = v0
                continue
            if any(isinstance(v, Opaque) for v in vals):
                mo = Opaque("merge of abstracted values")
                if all(isinstance(v, Opaque) for v in vals):
                    srcs = {source_token(s_, v) for (s_, _), v in zip(pairs, vals)}
                    if len(srcs) == 1:
                        BUF_ORIGIN[mo.buf] = srcs.pop()      # every branch holds (a copy of) the same content
                        if any(content_token(s_, v) != BUF_ORIGIN[mo.buf] for (s_, _), v in zip(pairs, vals)):
                            out.writes.append((mo.buf, "updated on some merged path"))
                env[key] = mo
                continue
            if all(isinstance(v, Ref) and v.id == v0.id for v in vals if isinstance(v, Ref)) and all(isinstance(v, Ref) for v in vals):
                env[key] = v0
                continue
            if all(not isinstance(v, (Ref, Closure, Builtin, ModuleRef, str, tuple, list, dict)) and v is not None for v in vals):
                r = ite(vals)
                if r is _FAIL:
                    return None
                env[key] = r
            elif all(isinstance(v, tuple) and len(v) == len(v0) for v in vals):
                comps = []
                for j in range(len(v0)):
                    r = ite([v[j] for v in vals])
                    if r is _FAIL:
                        return None
                    comps.append(r)
                env[key] = tuple(comps)
            elif all(v == v0 for v in vals if not is_sym(v)) and not any(is_sym(v) for v in vals):
                env[key] = v0
            else:
                return None
        ids = set()
        for s in sts:
            ids.update(s.heap)
        for i in ids:
            objs = [s.heap.get(i) for s in sts]
            if any(o is None for o in objs):
                o = next(o for o in objs if o is not None)
                out.heap[i] = o
                continue
            o0 = objs[0]
            if isinstance(o0, Record):
                attrs = {}
                for a in set().union(*[o.attrs.keys() for o in objs]):
                    vals = [o.attrs.get(a, _MISSING) for o in objs]
                    if any(v is _MISSING for v in vals):
                        continue
                    if all(v is vals[0] for v in vals):
                        attrs[a] = vals[0]
                    elif all(isinstance(v, Ref) for v in vals) and all(v.id == vals[0].id for v in vals):
                        attrs[a] = vals[0]
                    else:
                        r = ite(vals) if all(not isinstance(v, (Ref, Closure, str, tuple, list)) and v is not None for v in vals) else _FAIL
                        if r is _FAIL:
                            if all((not is_sym(v)) and v == vals[0] for v in vals):
                                attrs[a] = vals[0]
                                continue
                            return None
                        attrs[a] = r
                out.heap[i] = Record(o0.cls, attrs)
            elif isinstance(o0, NDArr):
                if not all(o.shape == o0.shape for o in objs):
                    return None
                flat = []
                for j in range(len(o0.flat)):
                    r = ite([o.flat[j] for o in objs])
                    if r is _FAIL:
                        return None
                    flat.append(r)
                out.heap[i] = NDArr(o0.shape, flat, o0.dtype)
            elif isinstance(o0, PList):
                if not all(len(o.items) == len(o0.items) for o in objs):
                    return None
                items = []
                for j in range(len(o0.items)):
                    vals = [o.items[j] for o in objs]
                    if all(v is vals[0] for v in vals):
                        items.append(vals[0])
                        continue
                    r = ite(vals) if all(not isinstance(v, (Ref, str, tuple)) and v is not None for v in vals) else _FAIL
                    if r is _FAIL:
                        return None
                    items.append(r)
                out.heap[i] = PList(items)
            else:
                out.heap[i] = o0
        return out, env

    def exec_stmt(self, st, n, env):
        self.cur_line = getattr(n, "lineno", None)
        if isinstance(n, ast.Expr):
            if isinstance(n.value, ast.Constant):
                return [(st, "normal", None, env)]
            if self.split and isinstance(n.value, ast.Call):
                # a call in statement position: every returning path of the callee continues separately (no merge)
                c = n.value
                f = self.eval(st, c.func, env)
                key = ((f.cls + "." if f.cls else "") + f.node.name) if isinstance(f, Closure) else None
                if isinstance(f, Closure) and key not in self.hooks and key not in self.abstract \
                        and not any(isinstance(a, ast.Starred) for a in c.args):
                    self.cur_env = env
                    args = [self.eval(st, a, env) for a in c.args]
                    kwargs = {k.arg: self.eval(st, k.value, env) for k in c.keywords}
                    outs = self.call_function(st.clone(), f.node, args, kwargs, env=f.env, self_ref=f.self_ref, cls=f.cls)
                    rets = [o for o in outs if o[1] == "return"]
                    self.raised = getattr(self, "raised", []) + [o for o in outs if o[1] == "raise"]
                    if not rets:
                        raise CheckerError("call never returns normally on the explored paths")
                    if len(rets) == 1:
                        st.heap, st.pc, st.writes = rets[0][0].heap, rets[0][0].pc, rets[0][0].writes
                        return [(st, "normal", None, env)]
                    return [(o[0], "normal", None, dict(env)) for o in rets]
            self.eval(st, n.value, env)
            return [(st, "normal", None, env)]
        if isinstance(n, ast.Assign):
            v = self.eval(st, n.value, env)
            for t in n.targets:
                self.assign(st, t, v, env)
            return [(st, "normal", None, env)]
        if isinstance(n, ast.AnnAssign):
            if n.value is not None:
                self.assign(st, n.target, self.eval(st, n.value, env), env)
            return [(st, "normal", None, env)]
        if isinstance(n, ast.AugAssign):
            cur = self.eval(st, n.target, env)
            r = self.eval(st, n.value, env)
            if isinstance(cur, Opaque):
                # numpy in-place operator: the buffer of the target is written, the object identity is kept
                st.writes.append((cur.buf, getattr(n, "lineno", None)))
                self.assign(st, n.target, Opaque("in-place update of " + cur.why, buf=cur.buf), env)
                return [(st, "normal", None, env)]
            if isinstance(n.op, ast.Add) and isinstance(cur, Ref) and isinstance(st.heap[cur.id], PList):
                # list += iterable extends the same list object
                st.heap[cur.id].items.extend(self.iterate(st, r))
                return [(st, "normal", None, env)]
            self.assign(st, n.target, self.binop(st, n.op, cur, r, n), env)
            return [(st, "normal", None, env)]
        if isinstance(n, ast.Return):
            return [(st, "return", self.eval(st, n.value, env) if n.value is not None else None, env)]
        if isinstance(n, ast.Pass):
            return [(st, "normal", None, env)]
        if isinstance(n, ast.Break):
            return [(st, "break", None, env)]
        if isinstance(n, ast.Continue):
            return [(st, "continue", None, env)]
        if isinstance(n, ast.Raise):
            nm = None
            if n.exc is not None:
                e = n.exc
                if isinstance(e, ast.Call):
                    e = e.func
                nm = ast.unparse(e)
            return [(st, "raise", nm, env)]
        if isinstance(n, ast.FunctionDef):
            env[n.name] = Closure(n, env, self.mod)
            return [(st, "normal", None, env)]
        if isinstance(n, ast.If):
            return self.exec_if(st, n, env)
        if isinstance(n, ast.For):
            return self.exec_for(st, n, env)
        if isinstance(n, ast.While):
            return self.exec_while(st, n, env)
        if isinstance(n, ast.Assert):
            c = truth(self.eval(st, n.test, env))
            if not getattr(self, "assert_as_assume", False):
                self.oblige("assert", st, c, n)
            # a failing assert raises AssertionError: the normal path continues with the condition true
            st.pc.append(c)
            return [(st, "normal", None, env)]
        if isinstance(n, (ast.Import, ast.ImportFrom)):
            for a in n.names:
                env[a.asname or a.name.split(".")[0]] = ModuleRef(a.name)
            return [(st, "normal", None, env)]
        if isinstance(n, ast.Try):
            # only the pattern try: import ...: execute body
            return self.exec_block(st, n.body, env)
        raise CheckerError("unsupported python statement %s at line %s" % (type(n).__name__, getattr(n, "lineno", "?")))

    def exec_if(self, st, n, env):
        c = truth(self.eval(st, n.test, env))
        cc = is_concrete_bool(c)
        if cc is True:
            return self.exec_block(st, n.body, env)
        if cc is False:
            return self.exec_block(st, n.orelse, env) if n.orelse else [(st, "normal", None, env)]
        s1 = st.clone()
        s1.pc.append(c)
        s2 = st.clone()
        s2.pc.append(z3.Not(c))
        o1 = self.exec_block(s1, n.body, dict(env))
        o2 = self.exec_block(s2, n.orelse, dict(env)) if n.orelse else [(s2, "normal", None, dict(env))]
        outs = self.merge_normals(o1 + o2)
        # propagate merged env into caller's dict object semantics: callers use returned env
        return outs

    def exec_for(self, st, n, env):
        it = self.eval(st, n.iter, env)
        if isinstance(it, Opaque) and self.opaque_unknown:
            # symbolic trip count over abstracted data: ONE generic iteration is executed; buffers written in
            # it are recorded, which is what the ownership obligations need (values are abstracted anyway)
            self.abstracted.append("%s line %s: loop over abstracted sequence executed as one generic iteration" % (self.mod.relpath, n.lineno))
            self.assign(st, n.target, Opaque("loop item", buf=it.buf), env)
            # names assigned in the body are loop-carried: in the generic iteration they may hold the value of an
            # earlier iteration (definite assignment is therefore not checked for them inside such loops)
            for sub in ast.walk(n):
                if isinstance(sub, ast.Name) and isinstance(sub.ctx, ast.Store) and sub.id not in env:
                    env[sub.id] = Opaque("value of '%s' from an earlier iteration" % sub.id)
            outs = []
            for (x, fl, v, e2) in self.exec_block(st, n.body, env):
                if fl in ("normal", "continue", "break"):
                    outs.append((x, "normal", None, e2))
                else:
                    outs.append((x, fl, v, e2))
            return self.merge_normals(outs)
        if isinstance(it, SymRange):
            gi = z3.Int("gi!%d" % next(Ref._ids))
            self.assign(st, n.target, gi, env)
            self.generic_loop = getattr(self, "generic_loop", []) + [(gi, it.lo, it.hi, len(st.pc))]
            st.pc.append(z3.And(gi >= it.lo, gi < it.hi))
            try:
                outs = self.exec_block(st, n.body, env)
            finally:
                self.generic_loop = self.generic_loop[:-1]
            res = []
            for (x, fl, v, e2) in outs:
                if fl in ("normal", "continue"):
                    # facts about the generic index do not outlive the loop
                    x.pc = [h for h in x.pc if not _mentions(h, gi)]
                    res.append((x, "normal", None, e2))
                elif fl == "break":
                    raise CheckerError("break inside a loop with symbolic trip count")
                else:
                    res.append((x, fl, v, e2))
            return self.merge_normals(res)
        seq = self.iterate(st, it)
        cur = [(st, env)]
        results = []
        for item in seq:
            nxt = []
            for (s, e) in cur:
                self.assign(s, n.target, item, e)
                for (x, fl, v, e2) in self.exec_block(s, n.body, e):
                    if fl in ("normal", "continue"):
                        nxt.append((x, e2))
                    elif fl == "break":
                        results.append((x, "normal", None, e2))
                    else:
                        results.append((x, fl, v, e2))
            cur = nxt
            if len(cur) > 1 and not self.split:
                m = self.merge(cur)
                if m is not None:
                    cur = [m]
        for (s, e) in cur:
            if n.orelse:
                results.extend(self.exec_block(s, n.orelse, e))
            else:
                results.append((s, "normal", None, e))
        return self.merge_normals(results)

    def exec_while(self, st, n, env):
        cur = [(st, env)]
        results = []
        count = 0
        while cur:
            nxt = []
            for (s, e) in cur:
                c = truth(self.eval(s, n.test, e))
                cc = is_concrete_bool(c)
                if cc is None:
                    raise CheckerError("while loop with symbolic condition needs an invariant (line %d)" % n.lineno)
                if cc is False:
                    results.append((s, "normal", None, e))
                    continue
                for (x, fl, v, e2) in self.exec_block(s, n.body, e):
                    if fl in ("normal", "continue"):
                        nxt.append((x, e2))
                    elif fl == "break":
                        results.append((x, "normal", None, e2))
                    else:
                        results.append((x, fl, v, e2))
            cur = nxt
            count += 1
            if count > 500:
                raise CheckerError("while unroll limit")
        return self.merge_normals(results)

    def iterate(self, st, it):
        if isinstance(it, range):
            return [z3.IntVal(i) for i in it]
        if isinstance(it, (tuple, list)):
            return list(it)
        if isinstance(it, Ref):
            o = st.heap[it.id]
            if isinstance(o, PList):
                return list(o.items)
            if isinstance(o, NDArr):
                if len(o.shape) == 1:
                    return list(o.flat)
                sub = 1
                for d in o.shape[1:]:
                    sub *= d
                return [st.new(NDArr(o.shape[1:], o.flat[k * sub:(k + 1) * sub], o.dtype)) for k in range(o.shape[0])]
        if isinstance(it, dict):
            return list(it.keys())
        raise CheckerError("cannot iterate over %r" % (it,))

    def assign(self, st, target, v, env):
        if isinstance(target, ast.Name):
            env[target.id] = v
            return
        if isinstance(target, (ast.Tuple, ast.List)):
            if isinstance(v, Opaque):
                for t in target.elts:
                    self.assign(st, t, Opaque("component of an abstracted value"), env)
                return
            items = self.iterate(st, v)
            if len(items) != len(target.elts):
                raise CheckerError("unpack length mismatch")
            for t, x in zip(target.elts, items):
                self.assign(st, t, x, env)
            return
        if isinstance(target, ast.Attribute):
            o = self.eval(st, target.value, env)
            if isinstance(o, Ref) and isinstance(st.heap[o.id], Record):
                st.heap[o.id].attrs[target.attr] = v
                return
            raise CheckerError("attribute assignment on non-record")
        if isinstance(target, ast.Subscript):
            o = self.eval(st, target.value, env)
            idx = self.eval(st, target.slice, env)
            self.setitem(st, o, idx, v)
            return
        raise CheckerError("unsupported assignment target %s" % type(target).__name__)

    def cidx(self, i):
        if isinstance(i, int):
            return i
        if is_sym(i):
            s = simp(i)
            if z3.is_int_value(s):
                return s.as_long()
        raise CheckerError("symbolic index into a python sequence: %s" % (i,))

    def setitem(self, st, o, idx, v):
        if isinstance(o, Opaque):
            st.writes.append((o.buf, getattr(self, "cur_line", None)))
            return
        if isinstance(o, dict):
            o[idx] = v
            return
        if isinstance(o, Ref):
            obj = st.heap[o.id]
            if isinstance(obj, PList):
                obj.items[self.cidx(idx)] = v
                return
            if isinstance(obj, NDArr):
                if not isinstance(idx, tuple):
                    idx = (idx,)
                if any(isinstance(i, slice) for i in idx) or len(idx) < len(obj.shape):
                    # row assignment a[i] = vector
                    ii = [self.cidx(i) for i in idx]
                    sub = 1
                    for d in obj.shape[len(ii):]:
                        sub *= d
                    base = 0
                    for i, s_ in zip(ii, obj.shape):
                        base = base * s_ + (i + s_ if i < 0 else i)
                    vals = self.flat_values(st, v, sub)
                    for k in range(sub):
                        obj.flat[base * sub + k] = vals[k]
                    return
                obj.flat[obj.index([self.cidx(i) for i in idx])] = v
                return
        raise CheckerError("unsupported item assignment")

    def flat_values(self, st, v, n):
        if isinstance(v, Ref):
            o = st.heap[v.id]
            if isinstance(o, NDArr):
                return list(o.flat)
            if isinstance(o, PList):
                out = []
                for x in o.items:
                    out.extend(self.flat_values(st, x, None) if isinstance(x, (Ref, tuple, list)) else [x])
                return out
        if isinstance(v, (tuple, list)):
            out = []
            for x in v:
                out.extend(self.flat_values(st, x, None) if isinstance(x, (Ref, tuple, list)) else [x])
            return out
        return [v] * (n or 1)

    # ------------------------------------------------------------ expressions
    def eval(self, st, n, env):
        if isinstance(n, ast.Constant):
            return pyconst(n.value)
        if isinstance(n, ast.Name):
            if n.id in env:
                return env[n.id]
            if n.id in env.get("__assigned__", ()):
                # local variable read on a path where it has not been bound (definite-assignment obligation)
                self.oblige("unbound", st, z3.BoolVal(False), n, label="local '%s' is read before assignment (UnboundLocalError)" % n.id)
                return Opaque("unbound local %s" % n.id)
            if n.id in self.globals:
                return self.globals[n.id]
            if n.id in self.mod.funcs:
                return Closure(self.mod.funcs[n.id], {}, self.mod)
            if n.id in self.mod.consts:
                return self.eval(st, self.mod.consts[n.id], {})
            if n.id in self.mod.classes:
                return ClassRef(n.id)
            if n.id == "super":
                return Builtin("super")
            if n.id in ("type", "hasattr", "getattr", "id", "set", "frozenset", "sys", "warnings", "textwrap") and self.opaque_unknown:
                return Opaque("builtin " + n.id)
            if n.id in ("abs", "len", "range", "zip", "enumerate", "float", "int", "min", "max", "sum",
                        "isinstance", "list", "tuple", "bool", "round", "sorted", "print", "str", "dict", "reversed", "any", "all", "slice"):
                return Builtin(n.id)
            if n.id in ("True", "False", "None"):
                return {"True": True, "False": False, "None": None}[n.id]
            if n.id in ("np", "numpy"):
                return ModuleRef("numpy")
            if n.id in self.mod.imports:
                org = self.mod.imports[n.id]
                if org.startswith("phonopy."):
                    modname, attr = org.rsplit(".", 1)
                    rel = modname.replace(".", "/") + ".py"
                    if "new:" + attr in self.hooks:
                        hk = self.hooks["new:" + attr]
                        return Hooked(hk)
                    if os.path.exists(os.path.join(REPO, rel)):
                        sub = self.sub_exec(rel)
                        return sub.eval(st, ast.Name(id=attr, ctx=ast.Load()), {})
                return ModuleRef(org)
            if n.id in ("RuntimeError", "ValueError", "TypeError", "float", "int"):
                return Builtin(n.id)
            raise CheckerError("unbound name %s (line %s)" % (n.id, getattr(n, "lineno", "?")))
        if isinstance(n, ast.Tuple):
            return tuple(self.eval(st, e, env) for e in n.elts)
        if isinstance(n, ast.List):
            return st.new(PList([self.eval(st, e, env) for e in n.elts]))
        if isinstance(n, ast.Dict):
            return {self.eval(st, k, env): self.eval(st, v, env) for k, v in zip(n.keys, n.values)}
        if isinstance(n, ast.BinOp):
            return self.binop(st, n.op, self.eval(st, n.left, env), self.eval(st, n.right, env), n)
        if isinstance(n, ast.UnaryOp):
            v = self.eval(st, n.operand, env)
            if isinstance(v, Opaque):
                return truth(v) if isinstance(n.op, ast.Not) and False else Opaque("unary op on abstracted value")
            if isinstance(n.op, ast.USub):
                if isinstance(v, Ref):
                    return self.nd_map(st, v, lambda x: -num(x))
                return -num(v) if is_sym(v) else -v
            if isinstance(n.op, ast.UAdd):
                return v
            if isinstance(n.op, ast.Not):
                return simp(z3.Not(truth(v)))
            raise CheckerError("unsupported unary op")
        if isinstance(n, ast.BoolOp):
            vals = []
            saved = len(st.pc)
            for e in n.values:
                t = truth(self.eval(st, e, env))
                vals.append(t)
                st.pc.append(t if isinstance(n.op, ast.And) else z3.Not(t))
            del st.pc[saved:]
            return simp(z3.And(*vals) if isinstance(n.op, ast.And) else z3.Or(*vals))
        if isinstance(n, ast.Compare):
            left = self.eval(st, n.left, env)
            res = []
            for op, r in zip(n.ops, n.comparators):
                right = self.eval(st, r, env)
                res.append(self.compare(op, left, right, st))
                left = right
            if any(isinstance(r_, (Opaque, Ref)) for r_ in res):
                return res[0] if len(res) == 1 else Opaque("chained comparison")
            return simp(z3.And(*res)) if len(res) > 1 else res[0]
        if isinstance(n, ast.IfExp):
            c = truth(self.eval(st, n.test, env))
            cc = is_concrete_bool(c)
            if cc is True:
                return self.eval(st, n.body, env)
            if cc is False:
                return self.eval(st, n.orelse, env)
            a, b = both_real(self.eval(st, n.body, env), self.eval(st, n.orelse, env))
            return z3.If(c, a, b)
        if isinstance(n, ast.Attribute):
            return self.attribute(st, n, env)
        if isinstance(n, ast.Subscript):
            o = self.eval(st, n.value, env)
            idx = self.eval(st, n.slice, env)
            return self.getitem(st, o, idx)
        if isinstance(n, ast.Slice):
            return slice(self.eval(st, n.lower, env) if n.lower else None,
                         self.eval(st, n.upper, env) if n.upper else None,
                         self.eval(st, n.step, env) if n.step else None)
        if isinstance(n, ast.Call):
            return self.call(st, n, env)
        if isinstance(n, ast.Lambda):
            f = ast.FunctionDef(name="<lambda>", args=n.args, body=[ast.Return(value=n.body)], decorator_list=[])
            return Closure(f, env, self.mod)
        if isinstance(n, ast.ListComp) and len(n.generators) == 1 and not n.generators[0].ifs:
            g = n.generators[0]
            out = []
            itv = self.eval(st, g.iter, env)
            if isinstance(itv, (SymArr, SymEnum)):
                arr = itv.arr if isinstance(itv, SymEnum) else itv
                gi = z3.Int("gi!%d" % next(Ref._ids))
                n_ = num(arr.shape[0])
                e2 = dict(env)
                item = arr.fn(gi) if len(arr.shape) == 1 else SymArr(arr.shape[1:], (lambda *sub, arr=arr, gi=gi: arr.fn(gi, *sub)), "row")
                self.assign(st, g.target, (gi, item) if isinstance(itv, SymEnum) else item, e2)
                npc = len(st.pc)
                st.pc.append(z3.And(gi >= 0, gi < n_))
                self.generic_vars = getattr(self, "generic_vars", []) + [gi]
                try:
                    val = self.eval(st, n.elt, e2)
                finally:
                    self.generic_vars = self.generic_vars[:-1]
                new_facts = st.pc[npc + 1:]
                del st.pc[npc:]
                # facts produced while evaluating the generic element hold for every index (library contracts)
                for f_ in new_facts:
                    st.pc.append(z3.ForAll([gi], z3.Implies(z3.And(gi >= 0, gi < n_), f_)))
                v_ = num(val)
                return SymArr((arr.shape[0],), (lambda idx, v_=v_, gi=gi: z3.substitute(v_, (gi, num(idx)))), "list comprehension")
            if isinstance(itv, Opaque):
                if isinstance(n.elt, ast.Subscript) and isinstance(g.target, ast.Name) and isinstance(n.elt.slice, ast.Name) \
                        and n.elt.slice.id == g.target.id:
                    src = self.eval(st, n.elt.value, env)
                    if isinstance(src, Opaque):
                        return Opaque("[%s[i] for i in ids]" % src.why, idx=("take", src.idx, itv.id))
                return Opaque("comprehension over an abstracted value")
            for item in self.iterate(st, itv):
                e2 = dict(env)
                self.assign(st, g.target, item, e2)
                out.append(self.eval(st, n.elt, e2))
            return st.new(PList(out))
        if isinstance(n, ast.ListComp) and len(n.generators) > 1 and not any(g.ifs for g in n.generators) and not self.opaque_unknown:
            # nested generators over concrete sequences (e.g. the lattice-point tables)
            out = []

            def rec(k, e_):
                if k == len(n.generators):
                    out.append(self.eval(st, n.elt, e_))
                    return
                g_ = n.generators[k]
                for item in self.iterate(st, self.eval(st, g_.iter, e_)):
                    e2 = dict(e_)
                    self.assign(st, g_.target, item, e2)
                    rec(k + 1, e2)
            rec(0, env)
            return st.new(PList(out))
        if isinstance(n, ast.JoinedStr):
            return "<fstring>"
        if self.opaque_unknown and isinstance(n, ast.ListComp):
            gens = n.generators
            try:
                if len(gens) == 2 and isinstance(n.elt, ast.Name) and isinstance(gens[0].target, ast.Name) and n.elt.id == gens[0].target.id \
                        and isinstance(gens[1].iter, ast.Call) and isinstance(gens[1].iter.func, ast.Name) and gens[1].iter.func.id == "range":
                    src = self.eval(st, gens[0].iter, env)
                    cnt = self.eval(st, gens[1].iter.args[0], env)
                    if isinstance(src, Opaque):
                        return Opaque("[x for x in %s for _ in range(n)]" % src.why, idx=("repeat", src.idx, id(cnt)))
                if len(gens) == 1 and isinstance(n.elt, ast.Subscript) and isinstance(gens[0].target, ast.Name) \
                        and isinstance(n.elt.slice, ast.Name) and n.elt.slice.id == gens[0].target.id:
                    src = self.eval(st, n.elt.value, env)
                    ids = self.eval(st, gens[0].iter, env)
                    if isinstance(src, Opaque) and isinstance(ids, Opaque):
                        return Opaque("[%s[i] for i in ids]" % src.why, idx=("take", src.idx, ids.id))
            except CheckerError:
                pass
            return self.opaque(n, "comprehension")
        if self.opaque_unknown and isinstance(n, (ast.DictComp, ast.GeneratorExp, ast.SetComp, ast.Starred)):
            return self.opaque(n, "comprehension")
        raise CheckerError("unsupported python expression %s (line %s)" % (type(n).__name__, getattr(n, "lineno", "?")))

    def compare(self, op, a, b, st=None):
        if isinstance(op, (ast.In, ast.NotIn)) and isinstance(b, Ref) and st is not None and isinstance(st.heap[b.id], PList):
            b = list(st.heap[b.id].items)
        if isinstance(op, (ast.Is, ast.IsNot)):
            if a is not b and any(isinstance(x, Opaque) and getattr(x, "unknown", False) for x in (a, b)):
                return Opaque("identity test on a value the model knows nothing about")      # both outcomes are explored
            r = (a is b) or (a is None and b is None)
            if is_sym(a) or is_sym(b):
                r = False if (a is None or b is None) else None
            if r is None:
                raise CheckerError("'is' on symbolic values")
            return z3.BoolVal(r if isinstance(op, ast.Is) else not r)
        if isinstance(op, (ast.In, ast.NotIn)):
            if isinstance(b, (tuple, list, dict)) and not is_sym(a):
                r = a in b
                return z3.BoolVal(r if isinstance(op, ast.In) else not r)
            if isinstance(b, Opaque) or isinstance(a, Opaque):
                return Opaque("membership test on an abstracted value")
            raise CheckerError("'in' on symbolic values")
        if isinstance(a, SymArr) or isinstance(b, SymArr):
            A, B = (a, b) if isinstance(a, SymArr) else (b, a)
            if isinstance(B, SymArr):
                return SymArr(A.shape, (lambda *i, A=A, B=B: self.compare(op, A.fn(*i), B.fn(*i))), "elementwise comparison")
            return SymArr(A.shape, (lambda *i, A=A, B=B: self.compare(op, A.fn(*i), B)), "elementwise comparison")
        if isinstance(a, Opaque) or isinstance(b, Opaque):
            return Opaque("comparison with an abstracted value")
        if (isinstance(a, Ref) or isinstance(b, Ref)) and st is not None:
            A = self.to_nd(st, a) if isinstance(a, (Ref, tuple, list)) else a
            B = self.to_nd(st, b) if isinstance(b, (Ref, tuple, list)) else b
            if isinstance(A, NDArr) and isinstance(B, NDArr) and A.shape == B.shape:
                return st.new(NDArr(A.shape, [self.compare(op, x, y) for x, y in zip(A.flat, B.flat)], "bool"))
            if isinstance(A, NDArr) and not isinstance(B, NDArr):
                return st.new(NDArr(A.shape, [self.compare(op, x, B) for x in A.flat], "bool"))
            if isinstance(B, NDArr) and not isinstance(A, NDArr):
                return st.new(NDArr(B.shape, [self.compare(op, A, y) for y in B.flat], "bool"))
            return Opaque("array comparison")
        if isinstance(a, Ref) or isinstance(b, Ref):
            return ("array-compare", a, b)
        if isinstance(a, tuple) and isinstance(b, tuple) and isinstance(op, (ast.Eq, ast.NotEq)):
            if len(a) != len(b):
                r = z3.BoolVal(False)
            else:
                r = simp(z3.And(*[self.compare(ast.Eq(), x, y) for x, y in zip(a, b)])) if a else z3.BoolVal(True)
            return r if isinstance(op, ast.Eq) else simp(z3.Not(r))
        if isinstance(a, str) or isinstance(b, str) or a is None or b is None:
            if is_sym(a) or is_sym(b):
                return z3.BoolVal(isinstance(op, ast.NotEq))
            r = {ast.Eq: a == b, ast.NotEq: a != b}[type(op)]
            return z3.BoolVal(r)
        a, b = both_real(a, b)
        return simp({ast.Lt: a < b, ast.LtE: a <= b, ast.Gt: a > b, ast.GtE: a >= b,
                     ast.Eq: a == b, ast.NotEq: a != b}[type(op)])

    def opaque(self, node, why):
        self.abstracted.append("%s line %s: %s" % (self.mod.relpath, getattr(node, "lineno", "?"), why))
        o = Opaque(why)
        o.unknown = True          # a value the model knows nothing about (it may be identical to any other object)
        return o

    def binop(self, st, op, a, b, node):
        if isinstance(a, SymArr) or isinstance(b, SymArr):
            if isinstance(a, SymArr) and isinstance(b, SymArr):
                if len(a.shape) == len(b.shape):
                    return SymArr(a.shape, (lambda *i, a=a, b=b: self.binop(st, op, a.fn(*i), b.fn(*i), node)), "elementwise")
                big, small, flip = (a, b, False) if len(a.shape) > len(b.shape) else (b, a, True)
                k = len(small.shape)
                return SymArr(big.shape, (lambda *i, big=big, small=small, flip=flip, k=k:
                                          self.binop(st, op, small.fn(*i[-k:]), big.fn(*i), node) if flip else self.binop(st, op, big.fn(*i), small.fn(*i[-k:]), node)),
                              "broadcast elementwise")
            if isinstance(a, SymArr):
                return SymArr(a.shape, (lambda *i, a=a: self.binop(st, op, a.fn(*i), b, node)), "elementwise")
            return SymArr(b.shape, (lambda *i, b=b: self.binop(st, op, a, b.fn(*i), node)), "elementwise")
        if isinstance(a, Opaque) or isinstance(b, Opaque):
            return Opaque("arithmetic on an abstracted value")
        if isinstance(op, ast.Mult):
            for x, y in ((a, b), (b, a)):
                if isinstance(y, Ref) and isinstance(st.heap[y.id], PList) and not isinstance(x, Ref):
                    return st.new(PList(st.heap[y.id].items * self.cidx(x)))
        if isinstance(op, ast.Add) and isinstance(a, Ref) and isinstance(b, Ref) \
                and isinstance(st.heap[a.id], PList) and isinstance(st.heap[b.id], PList):
            return st.new(PList(list(st.heap[a.id].items) + list(st.heap[b.id].items)))       # python lists concatenate
        if isinstance(a, Ref) or isinstance(b, Ref):
            return self.nd_binop(st, op, a, b, node)
        if isinstance(a, str) and isinstance(op, ast.Mod):
            return "<formatted>"
        if isinstance(a, str) and isinstance(b, str) and isinstance(op, ast.Add):
            return a + b
        if isinstance(a, (tuple, list)) and isinstance(b, (tuple, list)) and isinstance(op, ast.Add):
            return tuple(a) + tuple(b)
        a, b = num(a), num(b)
        if isinstance(op, ast.Add):
            a, b = both_real(a, b)
            return a + b
        if isinstance(op, ast.Sub):
            a, b = both_real(a, b)
            return a - b
        if isinstance(op, ast.Mult):
            a, b = both_real(a, b)
            return a * b
        if isinstance(op, ast.Div):
            a, b = to_real(a), to_real(b)
            self.oblige("div", st, b != 0, node)
            return a / b
        if isinstance(op, ast.FloorDiv):
            if a.sort() == z3.IntSort() and b.sort() == z3.IntSort():
                self.oblige("div", st, b != 0, node)
                sa, sb = simp(a), simp(b)
                if z3.is_int_value(sa) and z3.is_int_value(sb) and sb.as_long() != 0:
                    return z3.IntVal(sa.as_long() // sb.as_long())
                return z3.If(b > 0, a / b, (-a) / (-b))   # z3 div is floor for a positive divisor
            raise CheckerError("float floor division")
        if isinstance(op, ast.Mod):
            if a.sort() == z3.IntSort() and b.sort() == z3.IntSort():
                self.oblige("div", st, b != 0, node)
                sa, sb = simp(a), simp(b)
                if z3.is_int_value(sa) and z3.is_int_value(sb) and sb.as_long() != 0:
                    return z3.IntVal(sa.as_long() % sb.as_long())
                # python: result has the sign of b; for b > 0 identical to z3 mod
                return z3.If(b > 0, a % b, -((-a) % (-b)))
            raise CheckerError("float modulo")
        if isinstance(op, ast.Pow):
            sb = simp(b)
            if z3.is_int_value(sb):
                e = sb.as_long()
                if e >= 0:
                    r = z3.RealVal(1) if a.sort() == z3.RealSort() else z3.IntVal(1)
                    for _ in range(e):
                        r = r * a
                    return r
                r = z3.RealVal(1)
                for _ in range(-e):
                    r = r * to_real(a)
                self.oblige("div", st, a != 0, node)
                return 1 / r
            if z3.is_rational_value(sb):
                fr = Fraction(sb.numerator_as_long(), sb.denominator_as_long())
                if fr == Fraction(1, 2):
                    self.oblige("domain", st, a >= 0, node, label="sqrt")
                    return MATH_FUNS["sqrt"](to_real(a))
                return POW(to_real(a), to_real(b))
            return POW(to_real(a), to_real(b))
        raise CheckerError("unsupported binary operator %s" % type(op).__name__)

    # ---- numpy mini model
    def nd(self, st, v):
        if isinstance(v, Ref) and isinstance(st.heap[v.id], NDArr):
            return st.heap[v.id]
        return None

    def to_nd(self, st, v):
        """python nested list/tuple/Ref -> NDArr"""
        if isinstance(v, Ref):
            o = st.heap[v.id]
            if isinstance(o, NDArr):
                return o
            if isinstance(o, PList):
                v = o.items
        if isinstance(v, (tuple, list)):
            subs = [self.to_nd(st, x) for x in v]
            if all(isinstance(s, NDArr) for s in subs):
                if not all(s.shape == subs[0].shape for s in subs):
                    raise CheckerError("ragged array")
                flat = []
                for s in subs:
                    flat.extend(s.flat)
                return NDArr((len(subs),) + subs[0].shape, flat)
            return NDArr((len(subs),), [s if not isinstance(s, NDArr) else s for s in subs])
        return v

    def nd_map(self, st, v, f):
        a = self.to_nd(st, v)
        return st.new(NDArr(a.shape, [f(x) for x in a.flat], a.dtype))

    def nd_binop(self, st, op, a, b, node):
        A = self.to_nd(st, a) if isinstance(a, (Ref, tuple, list)) else a
        B = self.to_nd(st, b) if isinstance(b, (Ref, tuple, list)) else b
        if isinstance(op, ast.MatMult):
            return self.nd_dot(st, A, B)
        if isinstance(A, NDArr) and isinstance(B, NDArr):
            if A.shape == B.shape:
                return st.new(NDArr(A.shape, [self.binop(st, op, x, y, node) for x, y in zip(A.flat, B.flat)]))
            # broadcasting of trailing dims: (n,m) op (m,)
            if len(B.shape) < len(A.shape) and A.shape[-len(B.shape):] == B.shape:
                k = len(B.flat)
                return st.new(NDArr(A.shape, [self.binop(st, op, x, B.flat[j % k], node) for j, x in enumerate(A.flat)]))
            if len(A.shape) < len(B.shape) and B.shape[-len(A.shape):] == A.shape:
                k = len(A.flat)
                return st.new(NDArr(B.shape, [self.binop(st, op, A.flat[j % k], y, node) for j, y in enumerate(B.flat)]))
            raise CheckerError("broadcast %s %s" % (A.shape, B.shape))
        if isinstance(A, NDArr):
            return st.new(NDArr(A.shape, [self.binop(st, op, x, B, node) for x in A.flat]))
        return st.new(NDArr(B.shape, [self.binop(st, op, A, y, node) for y in B.flat]))

    def nd_dot(self, st, A, B):
        if not isinstance(A, NDArr):
            A = self.to_nd(st, A)
        if not isinstance(B, NDArr):
            B = self.to_nd(st, B)
        if len(A.shape) == 1 and len(B.shape) == 1:
            r = num(0)
            for x, y in zip(A.flat, B.flat):
                x, y = both_real(x, y)
                r = r + x * y
            return r
        if len(A.shape) == 2 and len(B.shape) == 1:
            n, m = A.shape
            out = []
            for i in range(n):
                r = None
                for k in range(m):
                    x, y = both_real(A.flat[i * m + k], B.flat[k])
                    r = x * y if r is None else r + x * y
                out.append(r)
            return st.new(NDArr((n,), out))
        if len(A.shape) == 1 and len(B.shape) == 3 and A.shape[0] == B.shape[1]:
            # numpy: dot(a, b)[i, k] = sum_j a[j] * b[i, j, k]   (last axis of a with the second-to-last of b)
            n3, m3, p3 = B.shape
            out = []
            for i in range(n3):
                for k in range(p3):
                    r = None
                    for j in range(m3):
                        x, y = both_real(A.flat[j], B.flat[(i * m3 + j) * p3 + k])
                        r = x * y if r is None else r + x * y
                    out.append(r)
            return st.new(NDArr((n3, p3), out))
        if len(A.shape) == 1 and len(B.shape) == 2:
            m, p = B.shape
            out = []
            for j in range(p):
                r = None
                for k in range(m):
                    x, y = both_real(A.flat[k], B.flat[k * p + j])
                    r = x * y if r is None else r + x * y
                out.append(r)
            return st.new(NDArr((p,), out))
        if len(A.shape) == 2 and len(B.shape) == 2:
            n, m = A.shape
            m2, p = B.shape
            if m != m2:
                raise CheckerError("dot shape mismatch")
            out = []
            for i in range(n):
                for j in range(p):
                    r = None
                    for k in range(m):
                        x, y = both_real(A.flat[i * m + k], B.flat[k * p + j])
                        r = x * y if r is None else r + x * y
                    out.append(r)
            return st.new(NDArr((n, p), out))
        raise CheckerError("dot of shapes %s %s" % (A.shape, B.shape))

    def getitem(self, st, o, idx):
        if isinstance(o, ModuleRef) and o.name in self.hooks:
            return self.hooks[o.name](self, st, [idx], {})       # index-trick objects such as numpy.c_[...]
        if isinstance(o, SymArr):
            if not isinstance(idx, tuple):
                idx = (idx,)
            if any(isinstance(i, slice) for i in idx):
                keep = [k for k, i in enumerate(idx) if isinstance(i, slice)]
                fixed = {k: num(i) for k, i in enumerate(idx) if not isinstance(i, slice)}
                nd_ = len(o.shape)

                def fn(*sub, o=o, keep=keep, fixed=fixed, nd_=nd_):
                    full = []
                    it = iter(sub)
                    for k in range(nd_):
                        full.append(fixed[k] if k in fixed else next(it))
                    return o.fn(*full)
                return SymArr([o.shape[k] for k in keep] + list(o.shape[len(idx):]), fn, "slice of " + o.why)
            ii = [num(i) for i in idx]
            if len(ii) == len(o.shape):
                for i_, s_ in zip(ii, o.shape):
                    self.oblige("bounds", st, z3.And(i_ >= 0, i_ < num(s_)), None, label="index into " + o.why)
                return o.fn(*ii)
            return SymArr(o.shape[len(ii):], (lambda *sub, o=o, ii=ii: o.fn(*ii, *sub)), "row of " + o.why)
        if isinstance(o, SymFn):
            return o.fn(num(idx))
        if isinstance(o, tuple) and len(o) == 2 and isinstance(o[0], str) and o[0] == "where-first":
            return o[1]
        if isinstance(o, Opaque) and isinstance(idx, tuple) and len(idx) == 2 and isinstance(idx[0], slice) and isinstance(idx[1], Opaque):
            # x[:, order]: columns taken in the given order
            return Opaque(o.why + "[:, index array]", idx=("T", ("take", ("T", o.idx), idx[1].id)))
        if isinstance(o, Opaque) and isinstance(idx, Opaque):
            return Opaque(o.why + "[index array]", idx=("take", o.idx, idx.id))     # fancy indexing: a reordered copy
        if isinstance(o, Opaque):
            return Opaque("view of " + o.why, buf=o.buf)       # numpy basic indexing returns a view
        if isinstance(idx, Opaque) or (isinstance(idx, tuple) and any(isinstance(i, Opaque) for i in idx)):
            return Opaque("subscript of an abstracted value")
        if isinstance(o, dict):
            if is_sym(idx):
                raise CheckerError("symbolic dict key")
            return o[idx]
        if isinstance(o, (tuple, list)):
            if isinstance(idx, slice):
                return tuple(o[idx.start and self.cidx(idx.start):idx.stop and self.cidx(idx.stop)])
            return o[self.cidx(idx)]
        if isinstance(o, str):
            return o[self.cidx(idx)]
        if isinstance(o, Ref):
            obj = st.heap[o.id]
            if isinstance(obj, PList):
                if isinstance(idx, slice):
                    lo = self.cidx(idx.start) if idx.start is not None else None
                    hi = self.cidx(idx.stop) if idx.stop is not None else None
                    return st.new(PList(obj.items[lo:hi]))
                return obj.items[self.cidx(idx)]
            if isinstance(obj, NDArr):
                if not isinstance(idx, tuple):
                    idx = (idx,)
                if isinstance(idx[0], Ref):
                    # fancy indexing by an index array (used for argsort results): needs concrete indices
                    ia = self.to_nd(st, idx[0])
                    return st.new(NDArr(ia.shape, [obj.flat[self.cidx(i)] for i in ia.flat]))
                if all(not isinstance(i, slice) for i in idx):
                    ii = [self.cidx(i) for i in idx]
                    if len(ii) == len(obj.shape):
                        return obj.flat[obj.index(ii)]
                    sub = 1
                    for d in obj.shape[len(ii):]:
                        sub *= d
                    base = 0
                    for i, s_ in zip(ii, obj.shape):
                        base = base * s_ + (i + s_ if i < 0 else i)
                    return st.new(NDArr(obj.shape[len(ii):], obj.flat[base * sub:(base + 1) * sub], obj.dtype))
                # slices: general gather on concrete shapes
                ranges = []
                keep = []
                for d, s_ in enumerate(obj.shape):
                    if d < len(idx):
                        i = idx[d]
                        if isinstance(i, slice):
                            lo = self.cidx(i.start) if i.start is not None else 0
                            hi = self.cidx(i.stop) if i.stop is not None else s_
                            ranges.append(range(lo, min(hi, s_)))
                            keep.append(True)
                        else:
                            c = self.cidx(i)
                            ranges.append([c + s_ if c < 0 else c])
                            keep.append(False)
                    else:
                        ranges.append(range(s_))
                        keep.append(True)
                shape = tuple(len(r) for r, k in zip(ranges, keep) if k)
                flat = [obj.flat[obj.index(list(ix))] for ix in itertools.product(*ranges)]
                return st.new(NDArr(shape, flat, obj.dtype))
        raise CheckerError("unsupported subscript on %r" % (o,))

    def attribute(self, st, n, env):
        o = self.eval(st, n.value, env)
        a = n.attr
        if isinstance(o, str):
            return Hooked(lambda ex, st_, args, kwargs, o=o, a=a: getattr(o, a)(*args, **kwargs))
        if isinstance(o, SymArr):
            if a == "ndim":
                return len(o.shape)
            if a == "shape":
                return tuple(o.shape)
        if isinstance(o, Opaque) and a in ("copy",):
            def _cp(ex, st_, args, kwargs, o=o):
                return opaque_copy(st_, o)
            return Hooked(_cp)
        if isinstance(o, Opaque) and a in ("update", "sort", "fill", "append", "extend"):
            def _mut(ex, st_, args, kwargs, o=o):
                st_.writes.append((o.buf, getattr(ex, "cur_line", None)))
                return None
            return Hooked(_mut)
        if isinstance(o, Opaque):
            if a in ("T", "real", "imag", "flat"):
                return Opaque(a + " view of " + o.why, buf=o.buf, idx=(("T", o.idx) if a == "T" else o.idx))
            return Opaque("attribute of an abstracted value")
        if isinstance(o, SuperRef):
            cls = o.cls
            bases = [b.id for b in self.mod.classes[cls].bases if isinstance(b, ast.Name)] if cls in self.mod.classes else []
            for b in bases:
                if b in self.mod.classes:
                    m = self.mod.method(b, a)
                    if m is not None:
                        return Closure(m, {}, self.mod, self_ref=o.self_ref, cls=b)
            key = "super.%s" % a
            if key in self.hooks:
                hk = self.hooks[key]
                return Hooked(lambda ex, st_, args, kwargs, hk=hk, sr=o.self_ref: hk(ex, st_, [sr] + list(args), kwargs))
            raise CheckerError("super().%s: base class of %s is not in this module and no hook is given" % (a, cls))
        if isinstance(o, ModuleRef):
            if a == "pi" and o.name in ("numpy", "math"):
                return z3.Real("pi")          # the constant pi: a positive real symbol (its digits are never needed)
            return ModuleRef(o.name + "." + a)
        if isinstance(o, Ref):
            obj = st.heap[o.id]
            if isinstance(obj, Record):
                if a in obj.attrs:
                    return obj.attrs[a]
                m = self.mod.method(obj.cls, a) if obj.cls in self.mod.classes else None
                if m is not None:
                    is_prop = any(isinstance(d, ast.Name) and d.id == "property" for d in m.decorator_list)
                    if is_prop:
                        outs = self.call_function(st, m, [], self_ref=o, cls=obj.cls)
                        return self.single_return(st, outs)
                    return Closure(m, {}, self.mod, self_ref=o, cls=obj.cls)
                key = "%s.%s" % (obj.cls, a)
                if key in self.hooks:
                    hk = self.hooks[key]
                    return Hooked(lambda ex, st_, args, kwargs, hk=hk, o=o: hk(ex, st_, [o] + list(args), kwargs))
                if self.opaque_unknown:
                    return self.opaque(n, "attribute %s of record %s" % (a, obj.cls))
                raise CheckerError("record %s has no attribute %s" % (obj.cls, a))
            if isinstance(obj, NDArr):
                if a == "T":
                    if len(obj.shape) == 2:
                        n_, m_ = obj.shape
                        return st.new(NDArr((m_, n_), [obj.flat[i * m_ + j] for j in range(m_) for i in range(n_)]))
                    return o
                if a == "shape":
                    return tuple(obj.shape)
                return Builtin("nd." + a + "@" + str(o.id))
            if isinstance(obj, PList):
                return Builtin("list." + a + "@" + str(o.id))
        if self.opaque_unknown:
            return self.opaque(n, "attribute .%s of %r" % (a, type(o).__name__))
        raise CheckerError("unsupported attribute .%s on %r" % (a, o))

    def single_return(self, st, outs):
        """value of a call in expression position: raising paths end there (partial correctness: the caller
        continues only on the paths that return); several returning paths are merged"""
        rets = [o for o in outs if o[1] == "return"]
        self.raised = getattr(self, "raised", []) + [o for o in outs if o[1] == "raise"]
        if not rets:
            raise CheckerError("call never returns normally on the explored paths")
        if len(rets) > 1:
            m = self.merge([(o[0], {"__r": o[2]}) for o in rets])
            if m is None:
                raise CheckerError("call with %d return paths that cannot be merged" % len(rets))
            st.heap, st.pc, st.writes = m[0].heap, m[0].pc, m[0].writes
            return m[1]["__r"]
        s2, _, v = rets[0]
        st.heap, st.pc, st.writes = s2.heap, s2.pc, s2.writes
        return v

    def call(self, st, n, env):
        self.cur_env = env
        f = self.eval(st, n.func, env)
        args = []
        for a in n.args:
            if isinstance(a, ast.Starred):
                args.extend(self.iterate(st, self.eval(st, a.value, env)))
            else:
                args.append(self.eval(st, a, env))
        kwargs = {k.arg: self.eval(st, k.value, env) for k in n.keywords}
        if isinstance(f, Closure):
            key = (f.cls + "." if f.cls else "") + f.node.name
            if key in self.hooks:
                self.hook_self = f.self_ref      # receiver of a hooked method (hooks take the explicit arguments only)
                return self.hooks[key](self, st, args, kwargs)
            if key in self.abstract:
                self.abstracted.append("%s line %s: call to %s abstracted" % (self.mod.relpath, n.lineno, key))
                return z3.Real("abs!%s!%d" % (key, next(Ref._ids)))
            outs = self.call_function(st.clone(), f.node, args, kwargs, env=f.env, self_ref=f.self_ref, cls=f.cls)
            return self.single_return(st, outs)
        if isinstance(f, Hooked):
            return f.fn(self, st, args, kwargs)
        if isinstance(f, Opaque):
            return Opaque("call of an abstracted value")
        if isinstance(f, Builtin):
            if f.name == "len" and args and isinstance(args[0], (Opaque,)):
                return Opaque("len of an abstracted value")
            try:
                return self.builtin(st, f.name, args, kwargs, n)
            except (CheckerError, AttributeError, TypeError, KeyError, IndexError):
                if self.opaque_unknown:
                    return self.opaque(n, "builtin %s" % f.name)
                raise
        if isinstance(f, ModuleRef):
            if f.name in self.hooks:
                return self.hooks[f.name](self, st, args, kwargs)
            if f.name.split(".")[-1] in ("array", "asarray", "ascontiguousarray") and args and isinstance(args[0], Ref) \
                    and isinstance(st.heap[args[0].id], PList) and any(isinstance(x, Opaque) for x in st.heap[args[0].id].items):
                # copying a list of (views of) abstracted arrays: what was stored must not have been overwritten in place
                for x in st.heap[args[0].id].items:
                    if isinstance(x, Opaque):
                        hits = sorted({ln for (b, ln) in st.writes if b == x.buf})
                        self.oblige("ownership", st, z3.BoolVal(not hits), n,
                                    label=("array stored in the list (%s) shares its buffer with an array written in place at line(s) %s" % (x.why, hits)) if hits
                                    else "arrays stored in the list are not overwritten in place")
                return Opaque("copy of a list of arrays")
            sn_ = f.name.split(".")[-1]
            if sn_ == "repeat" and len(args) >= 2 and isinstance(args[0], Opaque):
                cnt = args[1]
                return Opaque("repeat(" + args[0].why + ")", idx=("repeat", args[0].idx, id(cnt)))
            if sn_ == "arange" and args and isinstance(args[0], Opaque):
                return Opaque("arange", idx=("arange", id(args[0])))
            if sn_ == "array" and args and isinstance(args[0], Opaque):
                return opaque_copy(st, args[0])      # np.array copies: new buffer, same index function
            if f.name.split(".")[-1] in ("asarray", "ascontiguousarray", "asanyarray", "atleast_1d", "atleast_2d", "ravel", "reshape") \
                    and args and isinstance(args[0], Opaque):
                # these return the same memory when no conversion is needed
                return Opaque(f.name.split(".")[-1] + "(" + args[0].why + ")", buf=args[0].buf, idx=args[0].idx)
            if any(isinstance(a_, Opaque) for a_ in list(args) + list(kwargs.values())):
                return Opaque("library call on an abstracted value: %s" % f.name)
            try:
                return self.modcall(st, f.name, args, kwargs, n)
            except (CheckerError, AttributeError, TypeError, KeyError, IndexError):
                if self.opaque_unknown:
                    return self.opaque(n, "library call %s" % f.name)
                raise
        if isinstance(f, ClassRef):
            key = "new:" + f.name
            if key in self.hooks:
                return self.hooks[key](self, st, args, kwargs)
            ref = st.new(Record(f.name, {}))
            init = self.mod.method(f.name, "__init__")
            if init is not None:
                outs = self.call_function(st.clone(), init, args, kwargs, self_ref=ref, cls=f.name)
                self.single_return(st, outs)
            return ref
        raise CheckerError("call of unsupported value %r (line %s)" % (f, n.lineno))

    def builtin(self, st, name, args, kwargs, node):
        if name == "super":
            return SuperRef(self.cur_env.get("self"), self.cur_env.get("__cls__"))
        if name == "slice":
            a3 = list(args) + [None] * (3 - len(args))
            return slice(None, a3[0], None) if len(args) == 1 else slice(a3[0], a3[1], a3[2])
        if name == "abs":
            v = num(args[0])
            return z3.If(v >= 0, v, -v)
        if name == "len":
            a = args[0]
            if isinstance(a, (tuple, list, str, dict)):
                return len(a)
            o = st.heap[a.id]
            return len(o.items) if isinstance(o, PList) else o.shape[0]
        if name == "range":
            try:
                return range(*[self.cidx(a) for a in args])
            except CheckerError:
                if len(args) <= 2 and all(is_sym(a) or isinstance(a, int) for a in args):
                    lo, hi = (num(0), num(args[0])) if len(args) == 1 else (num(args[0]), num(args[1]))
                    return SymRange(lo, hi)
                if self.opaque_unknown:
                    return Opaque("range over a symbolic bound")
                raise
        if name == "zip":
            return list(zip(*[self.iterate(st, a) for a in args]))
        if name == "enumerate" and isinstance(args[0], SymArr):
            return SymEnum(args[0])
        if name == "len" and isinstance(args[0], SymArr):
            return num(args[0].shape[0])
        if name == "enumerate":
            if isinstance(args[0], Opaque):
                return Opaque("enumerate(" + args[0].why + ")", buf=args[0].buf)
            return [(z3.IntVal(i), x) for i, x in enumerate(self.iterate(st, args[0]))]
        if name == "float":
            return to_real(num(args[0]))
        if name == "int":
            v = num(args[0])
            if v.sort() == z3.IntSort():
                return v
            return z3.If(v >= 0, z3.ToInt(v), -z3.ToInt(-v))
        if name in ("min", "max"):
            items = self.iterate(st, args[0]) if len(args) == 1 else args
            r = num(items[0])
            for x in items[1:]:
                a, b = both_real(r, x)
                r = z3.If(a <= b, a, b) if name == "min" else z3.If(a >= b, a, b)
            return r
        if name == "sum":
            r = num(0)
            for x in self.iterate(st, args[0]):
                a, b = both_real(r, x)
                r = a + b
            return r
        if name in ("list", "tuple"):
            items = self.iterate(st, args[0]) if args else []
            return st.new(PList(items)) if name == "list" else tuple(items)
        if name == "isinstance":
            v, t = args[0], args[1]
            tn = t.name if isinstance(t, (ModuleRef, Builtin)) else None
            if tn in ("numpy.ndarray", "np.ndarray"):
                return isinstance(v, Ref) and (isinstance(st.heap[v.id], NDArr) or (isinstance(st.heap[v.id], Record) and st.heap[v.id].cls == "ndarray"))
            if tn == "float" and is_sym(v):
                return v.sort() == z3.RealSort()
            if tn == "int" and is_sym(v):
                return v.sort() == z3.IntSort()
            if isinstance(t, tuple):
                names = [x.name if isinstance(x, (ModuleRef, Builtin)) else None for x in t]
                if is_sym(v) and z3.is_bool(v) and any(nm in ("bool", "numpy.bool_", "np.bool_") for nm in names):
                    return True          # a scalar comparison result
                if isinstance(v, (bool,)) and "bool" in names:
                    return True
            if tn == "bool" and ((is_sym(v) and z3.is_bool(v)) or isinstance(v, bool)):
                return True
            if isinstance(v, Opaque):
                # unknown dynamic type of an abstracted object: one symbolic answer per (object, type), used consistently
                cache = self.__dict__.setdefault("_isinstance_cache", {})
                key = (v.id, tn)
                if key not in cache:
                    cache[key] = z3.Bool("isinstance!%d!%s" % (v.id, tn))
                return cache[key]
            raise CheckerError("isinstance(%r, %r) not modelled" % (v, tn))
        if name == "print":
            return None
        if name.startswith("list.append@"):
            gl = getattr(self, "generic_loop", [])
            if gl:
                gi, lo, hi, npc = gl[-1]
                st.heap[int(name.split("@")[1])].items.append(GenericItem(gi, lo, hi, args[0], list(st.pc[npc:])))
            else:
                st.heap[int(name.split("@")[1])].items.append(args[0])
            return None
        if name.startswith("nd.copy@"):
            o = st.heap[int(name.split("@")[1])]
            return st.new(o.clone())
        if name.startswith("nd.sum@"):
            o = st.heap[int(name.split("@")[1])]
            r = num(0)
            for x in o.flat:
                a, b = both_real(r, x)
                r = a + b
            return r
        if name.startswith("nd.all@") or name.startswith("nd.any@"):
            o = st.heap[int(name.split("@")[1])]
            ts = [truth(x) for x in o.flat]
            return simp(z3.And(*ts) if ".all@" in name else z3.Or(*ts))
        if name.startswith("nd.astype@"):
            o = st.heap[int(name.split("@")[1])]
            tgt = args[0] if args else kwargs.get("dtype")
            tname = tgt.name if isinstance(tgt, Builtin) else (tgt if isinstance(tgt, str) else None)
            if tname in ("int", "intc", "int64", "int32", "int_"):
                if getattr(o, "integral", False):
                    return st.new(o.clone())         # values known (assumed by the caller's contract) to be integral: unchanged
                out = []
                for x in o.flat:
                    x = num(x)
                    if is_sym(x) and x.sort() == z3.IntSort():
                        out.append(x)
                    else:
                        x = to_real(x)
                        out.append(z3.If(x >= 0, z3.ToInt(x), -z3.ToInt(-x)))      # C truncation toward zero
                return st.new(NDArr(o.shape, out, "int64"))
            if tname in ("float", "double", "float64"):
                return st.new(NDArr(o.shape, [to_real(num(x)) for x in o.flat], "double"))
            raise CheckerError("astype(%r) is outside the modelled subset" % (tgt,))
        if name.startswith("nd.ravel@") or name.startswith("nd.flatten@"):
            o = st.heap[int(name.split("@")[1])]
            return st.new(NDArr((len(o.flat),), o.flat, o.dtype))
        if name.startswith("nd.reshape@"):
            o = st.heap[int(name.split("@")[1])]
            shp = args[0] if len(args) == 1 and isinstance(args[0], tuple) else tuple(args)
            shp = [self.cidx(s) for s in shp]
            if -1 in shp:
                k = shp.index(-1)
                tot = 1
                for s in shp:
                    if s != -1:
                        tot *= s
                shp[k] = len(o.flat) // tot
            return st.new(NDArr(tuple(shp), o.flat, o.dtype))
        raise CheckerError("unsupported builtin %s (line %s)" % (name, getattr(node, "lineno", "?")))

    def modcall(self, st, name, args, kwargs, node):
        short = name.split(".")[-1]
        if args and isinstance(args[0], SymArr):
            if short in ("array", "asarray"):
                return args[0]
            if short == "where":
                # numpy contract of np.where(b)[0][0] for a 1-D boolean array: the first index where b holds
                # (IndexError if there is none: the normal path continues only if one exists)
                b = args[0]
                gv = getattr(self, "generic_vars", [])
                k_ = next(Ref._ids)
                if gv:
                    W = z3.Function("where_first!%d" % k_, *([z3.IntSort()] * len(gv)), z3.IntSort())
                    r = W(*gv)
                else:
                    r = z3.Int("where_first!%d" % k_)
                t = z3.Int("t!%d" % k_)
                st.pc.append(z3.And(r >= 0, r < num(b.shape[0]), truth(b.fn(r)),
                                    z3.ForAll([t], z3.Implies(z3.And(t >= 0, t < r), z3.Not(truth(b.fn(t)))))))
                return (("where-first", r),)
        if short == "array" and args and isinstance(args[0], SymArr):
            return args[0]
        if name.startswith("numpy") or name.startswith("math") or name.startswith("np"):
            if short == "sqrt" and not isinstance(args[0], Ref):
                return self.mathf(st, "sqrt", args[0], node)
            if short in NP_MATH:
                fn = NP_MATH[short]
                a = args[0]
                if isinstance(a, Ref):
                    return self.nd_map(st, a, lambda x: self.mathf(st, fn, x, node))
                return self.mathf(st, fn, a, node)
            if short in ("array", "asarray", "ascontiguousarray"):
                a = self.to_nd(st, args[0])
                if isinstance(a, NDArr):
                    return st.new(NDArr(a.shape, a.flat, kwargs.get("dtype", "double")))
                return a
            if short in ("zeros", "ones", "empty"):
                shp = args[0]
                shp = tuple(self.cidx(s) for s in (shp if isinstance(shp, tuple) else (shp,)))
                tot = 1
                for s in shp:
                    tot *= s
                dt = kwargs.get("dtype", "double")
                zero = z3.IntVal(0 if short != "ones" else 1) if dt in ("int64", "intc", "int") else z3.RealVal(0 if short != "ones" else 1)
                return st.new(NDArr(shp, [zero] * tot, dt))
            if short == "zeros_like":
                a = self.to_nd(st, args[0])
                return st.new(NDArr(a.shape, [z3.RealVal(0)] * len(a.flat), a.dtype))
            if short == "eye" or short == "identity":
                k = self.cidx(args[0])
                dt = kwargs.get("dtype", "double")
                mk = z3.IntVal if dt in ("int64", "intc", "int") else z3.RealVal
                return st.new(NDArr((k, k), [mk(1 if i == j else 0) for i in range(k) for j in range(k)], dt))
            if short == "dot":
                return self.nd_dot(st, self.to_nd(st, args[0]), self.to_nd(st, args[1]))
            if short == "det":
                return self.det(st, self.to_nd(st, args[0]))
            if short == "inv":
                return self.inv(st, self.to_nd(st, args[0]), node)
            if short == "unique" and kwargs.get("axis") == 0:
                a = self.to_nd(st, args[0])
                if len(a.shape) != 2:
                    raise CheckerError("np.unique(axis=0) of a non-2D array")
                rows = sorted({tuple(concrete_int(a.flat[i * a.shape[1] + j]) for j in range(a.shape[1])) for i in range(a.shape[0])})
                return st.new(NDArr((len(rows), a.shape[1]), [z3.IntVal(x) for r_ in rows for x in r_], "int64"))
            if short == "norm":
                a = self.to_nd(st, args[0])
                ax = kwargs.get("axis")
                sq_ = MATH["sqrt"] if "MATH" in globals() else z3.Function("c_sqrt", z3.RealSort(), z3.RealSort())

                def nrm(items):
                    tot = z3.RealVal(0)
                    for x in items:
                        x = to_real(num(x))
                        tot = tot + x * x
                    return sq_(tot)
                if ax is None:
                    if len(a.shape) != 1:
                        raise CheckerError("np.linalg.norm of a matrix without axis (Frobenius norm) is outside the modelled subset")
                    return nrm(a.flat)
                ax = self.cidx(ax)
                if len(a.shape) != 2:
                    raise CheckerError("np.linalg.norm(axis=...) of a non-2D array")
                r_, c_ = a.shape
                if ax == 0:
                    return st.new(NDArr((c_,), [nrm([a.flat[i * c_ + j] for i in range(r_)]) for j in range(c_)]))
                return st.new(NDArr((r_,), [nrm([a.flat[i * c_ + j] for j in range(c_)]) for i in range(r_)]))
            if short == "where" and len(args) == 3:
                c = self.to_nd(st, args[0])

                def el(x, k):
                    if isinstance(x, Ref):
                        a_ = self.to_nd(st, x)
                        if a_.shape != c.shape:
                            raise CheckerError("np.where with operands of different shapes")
                        return num(a_.flat[k])
                    return num(x)
                out_ = []
                for k in range(len(c.flat)):
                    a_, b_ = both_real(el(args[1], k), el(args[2], k))
                    out_.append(z3.If(truth(c.flat[k]), a_, b_))
                return st.new(NDArr(c.shape, out_))
            if short in ("logical_xor", "logical_and", "logical_or"):
                a, b = self.to_nd(st, args[0]), self.to_nd(st, args[1])
                if a.shape != b.shape:
                    raise CheckerError("np.%s on different shapes" % short)
                f2 = {"logical_xor": z3.Xor, "logical_and": z3.And, "logical_or": z3.Or}[short]
                return st.new(NDArr(a.shape, [f2(truth(x), truth(y)) for x, y in zip(a.flat, b.flat)], "bool"))
            if short == "transpose":
                a = self.to_nd(st, args[0])
                n_, m_ = a.shape
                return st.new(NDArr((m_, n_), [a.flat[i * m_ + j] for j in range(m_) for i in range(n_)]))
            if short == "rint":
                a = args[0]

                def f(x):
                    # round half to even, exactly
                    x = to_real(num(x))
                    fl = z3.ToInt(x)
                    d_ = x - z3.ToReal(fl)
                    half = z3.RealVal("1/2")
                    return z3.ToReal(z3.If(d_ < half, fl, z3.If(d_ > half, fl + 1, z3.If(fl % 2 == 0, fl, fl + 1))))
                return self.nd_map(st, a, f) if isinstance(a, Ref) else f(a)
            if short == "sign":
                f = lambda x: z3.If(num(x) > 0, 1, z3.If(num(x) < 0, -1, 0))
                return self.nd_map(st, args[0], f) if isinstance(args[0], Ref) else f(args[0])
            if short == "sum":
                return self.builtin(st, "sum", [self.to_nd(st, args[0]).flat], {}, node)
            if short == "diagonal":
                a = self.to_nd(st, args[0])
                k = a.shape[0]
                return st.new(NDArr((k,), [a.flat[i * a.shape[1] + i] for i in range(k)], a.dtype))
            if short == "diag":
                a = self.to_nd(st, args[0])
                if len(a.shape) == 1:
                    k = a.shape[0]
                    zero = z3.IntVal(0) if all(is_sym(x) and x.sort() == z3.IntSort() for x in a.flat) else z3.RealVal(0)
                    return st.new(NDArr((k, k), [a.flat[i] if i == j else zero for i in range(k) for j in range(k)]))
                k = a.shape[0]
                return st.new(NDArr((k,), [a.flat[i * k + i] for i in range(k)]))
            if short == "pi":
                return z3.Real("pi")
        if short == "pi" or name.endswith("pi"):
            return z3.Real("pi")
        raise CheckerError("unsupported library call %s (line %s)" % (name, getattr(node, "lineno", "?")))

    def mathf(self, st, fn, a, node):
        a = to_real(num(a))
        if fn == "sqrt":
            self.oblige("domain", st, a >= 0, node, label="sqrt")
        if fn == "log":
            self.oblige("domain", st, a > 0, node, label="log")
        return MATH_FUNS[fn](a)

    def det(self, st, a):
        f = [num(x) for x in a.flat]
        if a.shape == (3, 3):
            return (f[0] * (f[4] * f[8] - f[5] * f[7]) - f[1] * (f[3] * f[8] - f[5] * f[6]) + f[2] * (f[3] * f[7] - f[4] * f[6]))
        if a.shape == (2, 2):
            return f[0] * f[3] - f[1] * f[2]
        raise CheckerError("det of shape %s" % (a.shape,))

    def inv(self, st, a, node):
        if a.shape != (3, 3):
            raise CheckerError("inv of shape %s" % (a.shape,))
        f = [to_real(num(x)) for x in a.flat]
        d = self.det(st, NDArr((3, 3), f))
        # numpy raises LinAlgError for a singular matrix: the normal path continues only with det != 0
        st.pc.append(d != 0)
        c = lambda i, j: f[((i + 1) % 3) * 3 + (j + 1) % 3] * f[((i + 2) % 3) * 3 + (j + 2) % 3] - \
            f[((i + 1) % 3) * 3 + (j + 2) % 3] * f[((i + 2) % 3) * 3 + (j + 1) % 3]
        return st.new(NDArr((3, 3), [c(j, i) / d for i in range(3) for j in range(3)]))


_MISSING = object()
_FAIL = object()
POW = z3.Function("c_pow", z3.RealSort(), z3.RealSort(), z3.RealSort())
RINT = z3.Function("c_rint", z3.RealSort(), z3.RealSort())
