"""Replay by contract evaluation on the real compiled code.

For a C function under contract: draw precondition-satisfying inputs (generator supplied by the contract),
run the *real* function (shared object built from /repo/c at check time) and evaluate every ensures clause
concretely on what it returned.  A clause that evaluates to false is a failing input for the real code."""
import ctypes
import random

import numpy as np
import z3

from . import creplay
from .ceval import Evaluator, Unsupported
from .cexec import CExec, ArrayView, Block, NS, Z
from .cfront import node_type, parse_type, scalar_of
from .core import Sink, labelled


def _ctype_of(q):
    q = q.replace("const", "").strip()
    base = q.split("(")[0].split("[")[0].replace("*", "").strip()
    if base == "double":
        return ctypes.c_double, np.float64
    if base in ("long", "int64_t", "long long"):
        return ctypes.c_int64, np.int64
    if base == "int":
        return ctypes.c_int, np.int32
    if base == "char":
        return ctypes.c_char, np.int8
    raise ValueError("ctype of %r" % q)


class Harness:
    def __init__(self, cfiles, contract, lib="phonopy", openmp=False):
        self.contract = contract
        self.ex = CExec(cfiles, {}, Sink())
        self.cf, self.fn = self.ex.find_function(contract.func)
        self.params = [p for p in self.fn["inner"] if p["kind"] == "ParmVarDecl"]
        self.lib = creplay.lib(lib, openmp=openmp)
        self.cfunc = getattr(self.lib, contract.func)
        rt = self.fn["type"]["qualType"].split("(")[0].strip()
        self.cfunc.restype = None if rt == "void" else _ctype_of(rt)[0]
        self.ptypes = []
        for p in self.params:
            q = p["type"].get("desugaredQualType") or p["type"]["qualType"]
            t = parse_type(q)
            ct, dt = _ctype_of(q)
            self.ptypes.append((p["name"], t, ct, dt))
        # symbolic formulas
        scal = {}
        for name, t, ct, dt in self.ptypes:
            if t == "real":
                scal[name] = z3.Real(name)
            elif t == "int":
                scal[name] = z3.Int(name)
        for k, v in (contract.fixed or {}).items():
            pass
        self.P = NS(scal)
        self.ex.cur_contract = contract
        self.ex.cur_P = self.P
        self.ex.prefix = "replay"
        self.ex.facts = []
        pre, post, nulls = {}, {}, {}
        self.shapes = {}
        for name, t, ct, dt in self.ptypes:
            if t in ("real", "int"):
                continue
            pointee = t[2] if t[0] == "arr" else t[1]
            shp = contract.shapes[name](self.P) if name in contract.shapes else None
            if shp is None:
                continue
            self.shapes[name] = shp
            b = Block(name, scalar_of(pointee), shp)
            sort = z3.ArraySort(*([z3.IntSort()] * len(b.shape)), b.elem_sort())
            pre[name] = ArrayView(self.ex, z3.Const(name, sort), b, z3.IntVal(0), shp)
            post[name] = ArrayView(self.ex, z3.Const(name + "__post", sort), b, z3.IntVal(0), shp)
            nulls[name] = z3.Bool(name + "_is_null") if name in contract.nullable else z3.BoolVal(False)
        rt_ = parse_type(rt) if rt != "void" else None
        self.ret = z3.Real("__ret") if rt_ == "real" else (z3.Int("__ret") if rt_ == "int" else None)
        Vold = NS({"p": self.P, "a": NS(pre), "null": NS(nulls), "v": self.P, "old": None, "ret": None, "g": NS({}), "ex": self.ex})
        self.Vpre = Vold
        self.Vpost = NS({"p": self.P, "a": NS(post), "null": NS(nulls), "v": self.P, "old": Vold, "ret": self.ret, "g": NS({}), "ex": self.ex})
        self.requires = labelled(contract.requires(Vold), "pre")
        ens_fn = contract.replay_ensures or contract.ensures
        self.ensures = [(l, e) for l, e in labelled(ens_fn(self.Vpost), "post") if not l.startswith("def")]

    def run(self, inputs):
        """inputs: dict param name -> number | numpy array | None (NULL).  Returns (violated clause labels, details)."""
        env = {}
        args = []
        keep = []
        for name, t, ct, dt in self.ptypes:
            v = inputs.get(name)
            if t in ("real", "int"):
                if name in (self.contract.fixed or {}):
                    v = self.contract.fixed[name]
                env[name] = float(v) if t == "real" else int(v)
                args.append(ct(v) if ct is not ctypes.c_char else ctypes.c_char(bytes([int(v)])))
            else:
                if v is None and name not in inputs and name not in self.contract.nullable:
                    raise ValueError("generator gives no value for %s" % name)
                if v is None:
                    env[name + "_is_null"] = True
                    args.append(None)
                    continue
                env[name + "_is_null"] = False
                a = np.ascontiguousarray(np.array(v, dtype=dt))
                env[name] = a.copy()
                work = a.copy()
                keep.append((name, work))
                args.append(work.ctypes.data_as(ctypes.c_void_p))
        self.cfunc.argtypes = None
        for k_, v_ in inputs.items():
            if k_ not in env and not any(k_ == pn for pn, _, _, _ in self.ptypes):
                env[k_] = v_          # ghost constants of the contract (leading dimensions, PI, ...)
        ev0 = Evaluator(env, qrange=self.qrange(env))
        if self.contract.interp:
            try:
                ev0.funcs.update(self.contract.interp(self, ev0, env))
            except Exception:
                pass
        if self.contract.pre_py is not None:
            if not self.contract.pre_py(env):
                return None, {"skipped": "precondition not satisfied"}
        else:
            for lab, r in self.requires:
                try:
                    if not ev0.ev(r):
                        return None, {"skipped": "precondition %s not satisfied" % lab}
                except Unsupported as e:
                    return None, {"skipped": "cannot evaluate precondition %s: %s" % (lab, e)}
        ret = self.cfunc(*args)
        for name, work in keep:
            env[name + "__post"] = work
        if self.ret is not None:
            env["__ret"] = ret
        ev = Evaluator(env, qrange=self.qrange(env))
        if self.contract.interp:
            ev.funcs.update(self.contract.interp(self, ev, env))
        bad = []
        if self.contract.replay_py is not None:
            bad = list(self.contract.replay_py(env))
            return bad, {"inputs": {k: (v.tolist() if isinstance(v, np.ndarray) else v) for k, v in env.items() if not k.endswith("__post")},
                         "outputs": {k: (v.tolist() if isinstance(v, np.ndarray) else v) for k, v in env.items() if k.endswith("__post") or k == "__ret"}}
        for lab, e in self.ensures:
            try:
                ok = ev.ev(e)
            except Unsupported as ex_:
                return None, {"skipped": "cannot evaluate %s: %s" % (lab, ex_)}
            if not ok:
                bad.append(lab)
        return bad, {"inputs": {k: (v.tolist() if isinstance(v, np.ndarray) else v) for k, v in env.items() if not k.endswith("__post")},
                     "outputs": {k: (v.tolist() if isinstance(v, np.ndarray) else v) for k, v in env.items() if k.endswith("__post") or k == "__ret"}}

    def qrange(self, env):
        m = 2
        for v in env.values():
            if isinstance(v, np.ndarray):
                m = max(m, max(v.shape) if v.shape else 1)
            elif isinstance(v, (int, np.integer)) and not isinstance(v, bool):
                m = max(m, min(abs(int(v)), 40))
        return (-1, m + 1)


def fuzz(cfiles, contract, trials=200, seed=0, lib="phonopy"):
    """Runs _fuzz in a forked child: the real (possibly changed) C function is executed on generated inputs, and a function
    that writes out of bounds must take down the child, not the checker.  A child killed by a signal is a failing input."""
    import multiprocessing as mp
    if contract.gen is None:
        return {"reproduced": False, "reason": "contract has no input generator"}
    ctx = mp.get_context("fork")
    parent, child = ctx.Pipe(duplex=False)

    def work():
        try:
            child.send(("done", _fuzz(cfiles, contract, trials, seed, lib, progress=lambda t: child.send(("trial", t)))))
        except Exception as e:      # noqa: BLE001
            child.send(("done", {"reproduced": False, "reason": "replay harness error: %r" % (e,)}))
        finally:
            child.close()
    p = ctx.Process(target=work)
    p.start()
    child.close()
    last, res = None, None
    while True:
        try:
            kind, val = parent.recv()
        except EOFError:
            break
        if kind == "trial":
            last = val
        else:
            res = val
            break
    p.join()
    if res is not None:
        return res
    rnd = random.Random(seed)
    inputs = None
    for t in range((last or 0) + 1):
        inputs = contract.gen(rnd)
    return {"reproduced": True, "violated_clauses": ["(the real function crashed)"], "trial": last,
            "real_code": {"crash": "the real function terminated the replay process with signal %s on a generated, precondition-satisfying input" % (-p.exitcode if p.exitcode and p.exitcode < 0 else p.exitcode),
                          "inputs": {k: (v.tolist() if isinstance(v, np.ndarray) else v) for k, v in (inputs or {}).items()}},
            "expected": "the function returns, touching only the arrays it is given"}


def _fuzz(cfiles, contract, trials=200, seed=0, lib="phonopy", progress=None):
    """Returns a replay dict: reproduced + first failing input."""
    h = Harness(cfiles, contract, lib=lib)
    rnd = random.Random(seed)
    nrun = 0
    skipped = None
    for t in range(trials):
        inputs = contract.gen(rnd)
        if progress:
            progress(t)
        bad, info = h.run(inputs)
        if bad is None:
            skipped = info
            continue
        nrun += 1
        if bad:
            return {"reproduced": True, "violated_clauses": bad, "trial": t, "executions": nrun,
                    "real_code": info, "expected": "every ensures clause of the contract holds on the real function's output"}
    return {"reproduced": False, "executions": nrun, "last_skip": skipped,
            "reason": "no failing input among %d executions of the real function" % nrun}


def asan_fuzz(cfiles, contract, trials=200, seed=0):
    """Replay for memory-safety obligations: precondition-satisfying generated inputs are run through an
    AddressSanitizer build of the real sources; an out-of-bounds access is a failing input."""
    if contract.gen is None:
        return {"reproduced": False, "reason": "contract has no input generator"}
    h = Harness(cfiles, contract)
    rnd = random.Random(seed)
    cases, kept = [], []
    for t in range(trials):
        inputs = contract.gen(rnd)
        env = {}
        ok = True
        case = []
        for name, ty, ct, dt in h.ptypes:
            v = inputs.get(name)
            if ty in ("real", "int"):
                if name in (contract.fixed or {}):
                    v = contract.fixed[name]
                env[name] = float(v) if ty == "real" else int(v)
                case.append(("scalar", {ctypes.c_double: "double", ctypes.c_int64: "int64", ctypes.c_int: "int", ctypes.c_char: "char"}[ct], env[name]))
            elif v is None:
                env[name + "_is_null"] = True
                case.append(("array", None, None))
            else:
                env[name + "_is_null"] = False
                a = np.ascontiguousarray(np.array(v, dtype=dt))
                env[name] = a
                case.append(("array", str(a.dtype), a))
        for k_, v_ in inputs.items():
            if k_ not in env:
                env[k_] = v_
        ev0 = Evaluator(env, qrange=h.qrange(env))
        if contract.interp:
            try:
                ev0.funcs.update(contract.interp(h, ev0, env))
            except Exception:
                pass
        if contract.pre_py is not None:
            ok = bool(contract.pre_py(env))
        else:
            for lab, r in h.requires:
                try:
                    if not ev0.ev(r):
                        ok = False
                        break
                except Unsupported:
                    ok = False
                    break
        if ok:
            cases.append(case)
            kept.append(inputs)
    if not cases:
        return {"reproduced": False, "reason": "no generated input satisfied the precondition"}
    idx, rep = creplay.asan_run(contract.func, cases)
    if idx is None:
        return {"reproduced": False, "executions": len(cases), "reason": rep or "no sanitizer report in %d executions" % len(cases)}
    bad = kept[idx]
    return {"reproduced": True, "executions": idx + 1, "sanitizer": rep,
            "real_code": {"inputs": {k: (v.tolist() if isinstance(v, np.ndarray) else v) for k, v in bad.items()}},
            "expected": "every access stays inside the arrays the function is given"}
