"""C front end: clang JSON AST of the repository's own translation units.

Every run re-parses /repo/c/<file>.c with
``clang -fopenmp -I<repo>/c -Xclang -ast-dump=json -fsyntax-only``; what is
verified is the typed AST of the text the build compiles (comments, ``const``
and ``printf`` are dropped later by the executor, see DESIGN.md 2.1).
"""
import hashlib
import json
import os
import re
import subprocess

REPO = os.environ.get("PVC_REPO", "/repo")

_cache = {}


def build_defines():
    """-D flags the real build applies to the C sources (target_compile_definitions in CMakeLists.txt,
    Release configuration); the verified AST and the replay shared objects use the same ones."""
    out = []
    try:
        with open(os.path.join(REPO, "CMakeLists.txt")) as f:
            txt = f.read()
    except OSError:
        return out
    for m in re.finditer(r"target_compile_definitions\s*\(\s*\w+\s+(?:PRIVATE|PUBLIC|INTERFACE)\s+([^)]*)\)", txt):
        for d in m.group(1).split():
            if d not in out:
                out.append(d)
    return out


class CFile:
    def __init__(self, relpath, openmp=True):
        self.relpath = relpath
        self.path = os.path.join(REPO, relpath)
        with open(self.path) as f:
            self.text = f.read()
        cmd = ["clang"]
        if openmp:
            cmd.append("-fopenmp")
        cmd += ["-I" + os.path.join(REPO, "c")]
        self.defines = build_defines()
        cmd += ["-D" + d for d in self.defines]
        if openmp:
            # clang 14 has no omp.h here and cannot parse gcc 12's: a stub declaring the omp_* API is used
            cmd += ["-idirafter", os.path.join(os.path.dirname(os.path.abspath(__file__)), "stubs")]
        cmd += ["-Xclang", "-ast-dump=json", "-fsyntax-only", self.path]
        p = subprocess.run(cmd, capture_output=True, text=True)
        if p.returncode != 0:
            raise RuntimeError("clang failed on %s:\n%s" % (relpath, p.stderr))
        self.ast = json.loads(p.stdout)
        self.functions = {}   # name -> FunctionDecl node with body
        self.globals = {}     # name -> VarDecl node
        self.decl_by_id = {}
        self._index()

    def _index(self):
        cur_file = None
        for n in self.ast["inner"]:
            k = n.get("kind")
            if k == "FunctionDecl":
                if any(c.get("kind") == "CompoundStmt" for c in n.get("inner", [])):
                    self.functions[n["name"]] = n
            elif k == "VarDecl":
                self.globals[n["name"]] = n
                self.decl_by_id[n["id"]] = n
        # decl ids of prototypes -> name (calls reference the first declaration)

    def fn_source(self, name):
        n = self.functions[name]
        r = n["range"]
        b = r["begin"].get("offset", r["begin"].get("spellingLoc", {}).get("offset"))
        e = r["end"].get("offset", r["end"].get("spellingLoc", {}).get("offset"))
        return self.text[b:e + 1]

    def fn_sha(self, name):
        return hashlib.sha1(self.fn_source(name).encode()).hexdigest()[:12]

    def fn_line(self, name):
        n = self.functions[name]
        loc = n.get("loc", {})
        ln = loc.get("line") or loc.get("spellingLoc", {}).get("line")
        if ln is None:
            off = n["range"]["begin"].get("offset", 0)
            ln = self.text.count("\n", 0, off) + 1
        return ln

    def src(self, node):
        """source text of a node (for messages)."""
        try:
            r = node["range"]
            b = r["begin"].get("offset", r["begin"].get("expansionLoc", {}).get("offset"))
            e = r["end"].get("offset", r["end"].get("expansionLoc", {}).get("offset"))
            tl = r["end"].get("tokLen", r["end"].get("expansionLoc", {}).get("tokLen", 1))
            return " ".join(self.text[b:e + tl].split())
        except Exception:
            return node.get("kind", "?")

    def line_of(self, node):
        try:
            r = node["range"]["begin"]
            off = r.get("offset", r.get("expansionLoc", {}).get("offset"))
            return self.text.count("\n", 0, off) + 1
        except Exception:
            return 0


def load(relpath, openmp=True):
    key = (relpath, openmp)
    if key not in _cache:
        _cache[key] = CFile(relpath, openmp)
    return _cache[key]


# ---------------------------------------------------------------- types
_SCALARS = {"double": "real", "float": "real", "int": "int", "long": "int",
            "int64_t": "int", "char": "int", "unsigned long": "int",
            "size_t": "int", "long long": "int", "unsigned int": "int",
            "void": "void", "_Bool": "int"}


def parse_type(q):
    """qualType string -> ('real'|'int'|'void') | ('ptr', T) | ('arr', n, T) | ('fn',)"""
    q = q.replace("const ", "").replace(" const", "").replace("restrict", "").strip()
    # function / function pointer
    if re.search(r"\)\s*\(", q) or (q.endswith(")") and "(*)" not in q and "(" in q and "[" not in q.split("(")[0]):
        if "(*)(" in q or re.match(r"^[\w\s\*]+\(.*\)$", q):
            if "(*)[" not in q:
                return ("fn",)
    m = re.match(r"^(.*?)\s*\(\*\)((?:\[\d+\])+)$", q)
    if m:
        base = parse_type(m.group(1))
        dims = [int(x) for x in re.findall(r"\[(\d+)\]", m.group(2))]
        t = base
        for d in reversed(dims):
            t = ("arr", d, t)
        return ("ptr", t)
    m = re.match(r"^(.*?)\s*((?:\[\d*\])+)$", q)
    if m:
        base = parse_type(m.group(1))
        dims = re.findall(r"\[(\d*)\]", m.group(2))
        t = base
        for d in reversed(dims):
            t = ("arr", int(d) if d else None, t)
        return t
    if q.endswith("*"):
        return ("ptr", parse_type(q[:-1].strip()))
    if q in _SCALARS:
        return _SCALARS[q]
    raise ValueError("unsupported C type: %r" % q)


def node_type(n):
    t = n.get("type", {})
    return parse_type(t.get("desugaredQualType") or t.get("qualType"))


def sizeof_elems(t):
    """number of scalar cells in a value of type t."""
    if isinstance(t, tuple) and t[0] == "arr":
        return t[1] * sizeof_elems(t[2])
    return 1


def scalar_of(t):
    while isinstance(t, tuple) and t[0] in ("arr", "ptr"):
        t = t[-1]
    return t


def arr_dims(t):
    d = []
    while isinstance(t, tuple) and t[0] == "arr":
        d.append(t[1])
        t = t[2]
    return d
