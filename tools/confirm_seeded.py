#!/usr/bin/env python3
"""Confirm a sub-agent's change in a scratch worktree: demo passes without / fails with the change, and the
pinned baseline tests still pass with it.  usage: confirm_seeded.py <worktree> <outdir>/<n> ..."""
import json
import os
import subprocess
import sys
import xml.etree.ElementTree as ET

wt = sys.argv[1]
base = set(json.load(open('/root/.vp/BASELINE.json'))['stable_pass'])


def sh(cmd, **kw):
    return subprocess.run(cmd, shell=True, capture_output=True, text=True, **kw)


for d in sys.argv[2:]:
    res = {"dir": d}
    sh("git -C %s checkout -- . && git -C %s clean -fdq" % (wt, wt))
    r0 = sh("/venv/bin/python %s/demo.py %s" % (d, wt), cwd="/tmp")
    res["demo_clean_exit"] = r0.returncode
    a = sh("git -C %s apply %s/patch.diff" % (wt, d))
    res["apply"] = a.returncode
    r1 = sh("/venv/bin/python %s/demo.py %s" % (d, wt), cwd="/tmp")
    res["demo_patched_exit"] = r1.returncode
    res["demo_patched_tail"] = (r1.stdout + r1.stderr)[-300:]
    xml = "/tmp/confirm_%d.xml" % os.getpid()
    sh("cd %s && /venv/bin/python -m pytest -q -p no:cacheprovider --timeout=900 --continue-on-collection-errors --junitxml=%s" % (wt, xml))
    ok = set()
    try:
        for tc in ET.parse(xml).iter('testcase'):
            if not any(c.tag in ('failure', 'error', 'skipped') for c in tc):
                ok.add(tc.get('classname') + '::' + tc.get('name'))
    except Exception as e:
        res["pytest_error"] = str(e)
    res["baseline_pass"] = len(base & ok)
    res["baseline_missing"] = sorted(base - ok)[:5]
    if os.path.exists(xml):
        os.unlink(xml)
    sh("git -C %s checkout -- . && git -C %s clean -fdq" % (wt, wt))
    res["confirmed"] = (res["demo_clean_exit"] == 0 and res["demo_patched_exit"] != 0 and res["apply"] == 0 and res["baseline_pass"] == len(base))
    json.dump(res, open(os.path.join(d, "confirm.json"), "w"), indent=1)
    print(json.dumps(res))
