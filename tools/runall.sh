#!/bin/sh
# runs every claimed check (quick tier by default) on the current /repo tree; prints one summary line each
cd "$(dirname "$0")/.."
tier=${1:-quick}
for id in $(python3 -c "import json;print(' '.join(c['property_id'] for c in json.load(open('MANIFEST.json'))['checks']))"); do
  ./check $id --tier $tier 2>&1 | grep -v conda | grep -E "^(VIOLATION|KNOWN-FINDING|UNDECIDED|CHECKER-ERROR|C[0-9]+ )" | cut -c1-220
  echo "  exit=$? ($id)" >/dev/null
done
