#!/usr/bin/env python3
"""Run the checks against every seeded change, each in its own scratch worktree of /repo (PVC_REPO), with evidence and
replays redirected (PVC_OUT) so that /verif/evidence keeps describing the unchanged tree.  Writes seeded/MATRIX.json.
usage: seeded_matrix.py [ids...]   (default: all of seeded/*)"""
import json
import os
import shutil
import subprocess
import sys
from concurrent.futures import ThreadPoolExecutor

HERE = os.path.dirname(os.path.dirname(os.path.abspath(__file__)))
SCR = "/tmp/sw_matrix"
# checks besides the property's own one that look at the same code
EXTRA = {"C03": ["C02", "C05"], "C08": ["C02", "C09"], "C09": ["C10", "C14"], "C19": ["C06"], "C14": ["C15"], "C02": ["C05", "C03"],
         "C15": ["C14"], "C06": [], "C04": [], "C13": ["C02", "C06", "C10"], "C12": ["C15"]}
# per-change override (third round): the kernels touched by these changes belong to other properties' contracts
EXTRA_BY_ID = {"C13-4": ["C12"], "C13-5": ["C01"], "C11-4": ["C13"], "C09-5": ["C11", "C10"]}
CLAIMED = [c["property_id"] for c in json.load(open(os.path.join(HERE, "MANIFEST.json")))["checks"]]


def sh(cmd, **kw):
    return subprocess.run(cmd, shell=True, capture_output=True, text=True, **kw)


def one(sid):
    prop = sid.split("-")[0]
    wt = os.path.join(SCR, sid)
    out = os.path.join(SCR, sid + "_out")
    sh("git -C /repo worktree remove --force %s" % wt)
    r = sh("git -C /repo worktree add --detach %s HEAD -q" % wt)
    res = {"id": sid, "checks": {}}
    try:
        a = sh("git -C %s apply %s/seeded/%s/patch.diff" % (wt, HERE, sid))
        if a.returncode != 0:
            res["error"] = "patch does not apply: " + a.stderr[-200:]
            return res
        checks = [c for c in [prop] + EXTRA_BY_ID.get(sid, EXTRA.get(prop, [])) if c in CLAIMED]
        for c in checks:
            env = dict(os.environ, PVC_REPO=wt, PVC_OUT=out, PVC_JOBS="6")
            p = subprocess.run(["./check", c, "--tier", "quick"], cwd=HERE, capture_output=True, text=True, env=env)
            lines = [l for l in p.stdout.splitlines() if l.startswith(("VIOLATION", "UNDECIDED", "CHECKER-ERROR", "KNOWN-FINDING"))]
            viol = [l for l in lines if l.startswith("VIOLATION")]
            res["checks"][c] = {"exit": p.returncode, "violations": len(viol),
                                "replayed": len([l for l in viol if not l.rstrip().endswith("no-failing-input-found")]),
                                "first": [l.split("obligation=")[-1][:160] for l in viol[:3]],
                                "other": [l[:160] for l in lines if not l.startswith(("VIOLATION", "KNOWN-FINDING"))][:3]}
        res["caught_by"] = [c for c, v in res["checks"].items() if v["exit"] == 1]
    finally:
        sh("git -C /repo worktree remove --force %s" % wt)
        shutil.rmtree(out, ignore_errors=True)
    return res


def main():
    ids = sys.argv[1:] or sorted(d for d in os.listdir(os.path.join(HERE, "seeded")) if os.path.isdir(os.path.join(HERE, "seeded", d)))
    os.makedirs(SCR, exist_ok=True)
    mpath = os.path.join(HERE, "seeded", "MATRIX.json")
    matrix = json.load(open(mpath)) if os.path.exists(mpath) else {}
    with ThreadPoolExecutor(max_workers=4) as ex:
        for r in ex.map(one, ids):
            matrix[r["id"]] = r
            print(r["id"], "caught by", r.get("caught_by"), {c: (v["exit"], v["violations"], v["replayed"]) for c, v in r["checks"].items()}, r.get("error", ""), flush=True)
            json.dump(matrix, open(mpath, "w"), indent=1, sort_keys=True)
    shutil.rmtree(SCR, ignore_errors=True)


if __name__ == "__main__":
    main()
