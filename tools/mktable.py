#!/usr/bin/env python3
"""Fills section 8 of DESIGN.md (between the markers) from seeded/MATRIX.json and the meta.json files."""
import json
import os
import re

HERE = os.path.dirname(os.path.dirname(os.path.abspath(__file__)))
m = json.load(open(os.path.join(HERE, "seeded", "MATRIX.json")))
rows = ["| change | where / what | caught by (violations, of which replayed on the real code) | first failing obligation |",
        "|--------|--------------|-----------------------------------------------------------|--------------------------|"]
caught = 0
for sid in sorted(m, key=lambda s: (int(s[1:3]), int(s.split("-")[1]))):
    meta = json.load(open(os.path.join(HERE, "seeded", sid, "meta.json")))
    what = meta["what"].replace("|", "/").replace("\n", " ")
    what = what if len(what) <= 170 else what[:167] + "..."
    files = ", ".join(os.path.basename(f) for f in meta.get("files", []))
    r = m[sid]
    by = []
    first = ""
    for c, v in r["checks"].items():
        if v["exit"] == 1:
            by.append("%s (%d, %d)" % (c, v["violations"], v["replayed"]))
            if not first and v["first"]:
                first = v["first"][0].replace(" no-failing-input-found", "")
                first = re.sub(r"^(phonopy|c)/", "", first)
    others = [c for c, v in r["checks"].items() if v["exit"] != 1]
    if by:
        caught += 1
    cell = ", ".join(by) if by else "**not caught** (checks run: %s)" % ", ".join("%s exit %d" % (c, r["checks"][c]["exit"]) for c in r["checks"])
    rows.append("| %s | %s: %s | %s | %s |" % (sid, files, what, cell, ("`" + first[:110] + "`") if first else ""))
rows.append("")
rows.append("%d of %d changes are reported as a VIOLATION by at least one check. A C-kernel change caught by a per-property check is caught by C13 as well "
            "(C13 re-proves the same kernel contracts; verified for C02-1, C13-1..5, C11-4)." % (caught, len(m)))
txt = "\n".join(rows)
p = os.path.join(HERE, "DESIGN.md")
s = open(p).read()
if "SEEDED_TABLE_PLACEHOLDER" in s:
    s = s.replace("SEEDED_TABLE_PLACEHOLDER", "<!-- seeded table begin -->\n" + txt + "\n<!-- seeded table end -->")
else:
    s = re.sub(r"<!-- seeded table begin -->.*?<!-- seeded table end -->", lambda _: "<!-- seeded table begin -->\n" + txt + "\n<!-- seeded table end -->", s, flags=re.S)
open(p, "w").write(s)
print("caught", caught, "of", len(m))
