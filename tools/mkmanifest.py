#!/usr/bin/env python3
"""Regenerates MANIFEST.json from the table below (kept in one place so it stays valid)."""
import json
import os

HERE = os.path.dirname(os.path.dirname(os.path.abspath(__file__)))
TRUST = ("Trusted base: the pvc VC generator itself (/verif/pvc), clang's JSON AST dump and Python's ast, z3 5.1 / cvc5 1.0 / sympy 1.14; "
         "doubles are treated as mathematical reals and int/int64_t as mathematical integers (A-REAL, A-INT); libm functions are uninterpreted "
         "with the listed axioms; numpy/LAPACK/spglib/scipy and the nanobind glue c/_phonopy.cpp are specified, not verified. ")

CLAIMED = {
 "C11": dict(
    text="Contract-based deductive verification of the real tetrahedron code: the 2x(5+3x4) region functions of c/tetrahedron_method.c are symbolically "
         "executed from clang's AST on every run; sum rules, dn/dw=g, d(Jn)/dw=Ig and continuity across region boundaries are exact polynomial identities "
         "(sympy), non-negativity / [0,1] / J*n<=1/4 are positivity certificates over a gap re-parametrisation, sort_omegas is a sorted permutation with the "
         "central-vertex index (32 paths), thm_get_integration_weight is proved in [0,1] (J) / >=0 (I) and exact above/below the spectrum by a loop invariant "
         "over the 24 tetrahedra with callees by contract; the Python TetrahedronMethod region methods and its if/elif ladder are proved equal to the C ones. "
         "All for every real omega and vertex frequencies, no bound. Smearing DOS (Python): TotalDos._get_density_of_states_at_freq == weighted mesh sum of the kernel / sum of weights and TotalDos.run evaluates it at every frequency point (generic 2x2 instance of the vectorised code, uninterpreted kernel); Normal and Cauchy kernels extracted from the source are >= 0 and integrate to 1 (sympy); ProjectedDos._run_smearing_method == the |e|^2-weighted sum and the projections add up to the total when the |e|^2 sum to one.",
    note=TRUST + "Monotonicity uses the cited mean-value argument (derivative sign + continuity are the decided parts). Known finding E4 (ladder drops a "
         "tetrahedron at omega == vertex value) is reported as KNOWN-FINDING. Not decided here: smearing DOS quadrature accuracy, projected-DOS eigenvector normalisation.",
    technique="deductive verification: symbolic-execution VC generation over clang/ast + z3/cvc5/sympy",
    design="DESIGN.md section 5 C11"),
 "C10": dict(
    text="get_free_energy/get_entropy/get_heat_capacity (c/phonopy.c) and mode_F/mode_S/mode_cv/mode_ZPE/mode_zero (thermal_properties.py) are symbolically "
         "executed from the current source; obligations: compiled == Python (modulo the documented zero-point term), both == the documented closed forms, "
         "S = -dF/dT and C_V = T dS/dT by mechanical differentiation of the extracted terms, C_V >= 0, the reduction of C_V <= k_B to sinh(y) >= y, the KB constant "
         "against units.Kb, finiteness of every result in an IEEE special-value model (exp/sinh/cosh overflow, inf*0, inf/inf), and the mesh kernel "
         "phpy_get_thermal_properties against the weighted double sum over q-points and bands above the cutoff (six nested loops with quantified invariants, "
         "frame, bounds), for all array sizes and contents. Python drivers around the kernel: ThermalProperties._run_c_thermal_properties (the kernel is called exactly once, on a "
         "fresh zero array, with this object's temperatures, whole frequency and weight arrays, cut-off and statistics flag; reported F, S, C_V == kernel sums / sum(weights) * "
         "EvTokJmol (+ zero-point energy, * 1000) on a generic temperature row), run_free_energy / run_entropy / run_heat_capacity (mode function by the sign of t, normalisation) "
         "and _run_py_thermal_properties.",
    note=TRUST + "Rounding error is ignored (the special-value model covers overflow/underflow and NaN generation only). AX-SINH / AX-TANH and the T->0, T->infinity "
         "limits are cited, not decided. Finding E5 (NaN at low temperature) was repaired in /repo (fix: commit) and is checked unrestricted.",
    technique="deductive verification: symbolic-execution VC generation with loop invariants + z3/sympy; special-value model for finiteness",
    design="DESIGN.md section 5 C10"),

 "C02": dict(
    text="c/dynmat.c under contract, function by function (callers use the callees' contracts): get_dm (phase average over the shortest-vector images, loop "
         "invariant over recursive-sum spec functions), get_dynmat_ij (partial Fourier sum over the supercell atoms that map to the primitive atom), make_Hermitian "
         "(two nested loops, quantified invariant; result (M+M^H)/2 and Hermitian), dym_get_dynamical_matrix_at_q (both the ij-parallel and the nested branch): the "
         "output equals herm(Dspec) with Dspec the multiplicity-averaged lattice Fourier sum of the property statement; Wang NAC: dym_get_charge_sum, get_q_cart, "
         "get_dielectric_part, get_dynmat_want (three branches). All array sizes, contents and index tables symbolic; bounds of every subscript included. run_dynamical_matrix_solver_c (Python): for a q-point argument with symbolic dtype and alignment/ownership/contiguity flags the array reaching the extension call is double and C-contiguous on every path (numpy conversion contracts stated at the hooks).",
    note=TRUST + "Index tables (multi, s2p, p2s) are assumed well formed (precondition established by C04/C05). cos/sin are uninterpreted. Not yet under contract in "
         "this check: the Python fallback _run_py_dynamical_matrix, the commensurate-q lemma, LAPACK eigh, the unit factor.",
    technique="deductive verification: modular contracts + loop invariants over recursive-sum spec functions, z3",
    design="DESIGN.md section 5 C02"),
 "C13": dict(
    text="Memory safety and schedule independence: safety contracts with every callee inlined for dym_get_dynamical_matrix_at_q, dym_transform_dynmat_to_fc, phpy_tetrahedron_method_dos (fixed-point count lemma), phpy_get_tetrahedra_frequenies, ddm_get_derivative_dynmat_at_q (without NAC), multiply_borns, phpy_set_smallest_vectors_sparse (no bound on ties), and inside the functional contracts of phpy_get_thermal_properties, phpy_set_smallest_vectors_dense and the others: every array subscript is de-flattened against the logical shape the Python call site passes and proved in range, divisions are proved non-zero, and for each omp parallel for the scalars assigned in the body are proved private/local and every write disjoint from every access of another iteration (hence the result does not depend on the schedule or the number of threads). Same-result-as-reference: the functional contracts of the kernels of C01, C02, C05, C06, C07, C08, C10, C11 (C == Python proved there), C12 are re-proved in this check. The layout precondition of the nanobind glue for the q-point array (double, C-contiguous) is a call-site obligation on run_dynamical_matrix_solver_c.",
    note=TRUST + "Kernels not yet under a contract: phpy_compute_permutation, get_dd / dym_get_recip_dipole_dipole (Gonze-Lee reciprocal sum), phpy_perm_trans_symmetrize_compact_fc driver, the NAC branch of the derivative kernel, the Wang loop over q-points of dym_dynamical_matrices_with_dd_openmp_over_qpoints (the no-NAC loop is covered: callee accesses are confined to its view dynamical_matrices[i] / qpoints[i]) and its Gonze-Lee configuration, rgd_* beyond the index arithmetic of C11. 9 of the 10 omp pragmas in c/*.c carry race obligations. Int overflow is outside the model (A-INT). The nanobind glue c/_phonopy.cpp is read, not verified. Finding E15 (sparse shortest-vector kernel wrote past its 27 slots) repaired by a fix: commit.",
    technique="deductive verification: bounds/race VCs from symbolic execution of the inlined kernels, z3",
    design="DESIGN.md section 5 C13"),
 "C17": dict(
    text="Units part only: units.py and get_default_physical_units are evaluated symbolically over positive unknown fundamental constants for all 16 calculators "
         "(+None); obligations per calculator: factor == sqrt(declared force-constant unit / AMU)/2pi in THz, nac_factor == e^2/(4 pi eps0) in the declared units, "
         "distance_to_A and force_to_eVperA match the declared unit strings; Hartree*Bohr == e^2/(4 pi eps0). Exact symbolic identities (sympy).",
    note=TRUST + "Structure-file writer/reader round trips and FORCE_SETS pairing are NOT decided by this check (text formatting/parsing is out of reach of this technique; "
         "see DESIGN.md). CODATA values not checked. Finding E11 (dftbp nac_factor) repaired by a fix: commit.",
    technique="deductive verification: symbolic evaluation of the unit tables + exact algebraic identities",
    design="DESIGN.md section 5 C17"),
 "C20": dict(
    text="phonopy/qha/eos.py: the three EOS closures returned by get_eos are extracted by symbolic execution and differentiated mechanically: E(V0)=E0, dE/dV(V0)=0, V0 d2E/dV2(V0)=B0, -1 - V0 E3/E2 = B0' for Vinet, Birch-Murnaghan and Murnaghan, for all parameter values (exact identities). phonopy/qha/core.py: QHA.__init__ adds the pressure as + P V / EVAngstromToGPa to the electronic term (every temperature row of a 2-D input), only converts the phonon free energy from kJ/mol to eV and copies caller arrays; QHA._set_thermal_expansion is the documented central difference with beta_0 = 0.",
    note=TRUST + "NOT decided: scipy.optimize.leastsq convergence (EOSFit.fit), numpy.polyfit fits, the remaining QHA derived quantities.",
    technique="deductive verification: symbolic execution + mechanical differentiation, exact identities",
    design="DESIGN.md section 5 C20"),

 "C04": dict(
    text="phonopy/structure/cells.py by symbolic execution with the 3x3 numpy mini-model: Supercell._create_supercell for the classic and the Smith-normal-form path with a symbolic integer supercell matrix S and lattice L: the lattice handed to PhonopyAtoms (through _get_simple_supercell, _trim_cell, TrimmedCell._run) equals S^T L element by element (exact rational identities); Supercell._get_simple_supercell: symbols, masses, magnetic moments and the atom map are the unit-cell lists replicated by one and the same index function; TrimmedCell._run: positions, symbols, masses, magnetic moments and extracted_atoms are reordered by the same index array (index-function tags on abstracted per-atom arrays). Smith-normal-form lattice points: for two generic points l1, l2 of the D-box and a generic atom x the positions handed to PhonopyAtoms satisfy P S (pos(l2) - pos(l1)) == det(P) (l2 - l1) and P (S pos(l1) - x) == det(P) l1 (exact polynomial identities on the symbolically executed real function), and lemma snf-coset (explicit cofactor identities) turns this into: two atoms coincide modulo the supercell lattice iff l1 == l2 modulo D.",
    note=TRUST + "NOT decided: atom counts and uniqueness of the trimmed cell (incl. the rejection test of TrimmedCell._run for non-tiling primitive matrices), SNF elementary steps, the count |det S| of box points (cited), primitive-cell index maps, tolerance geometry. SNF3x3 is assumed to return a unimodular P. Finding E3 (S L instead of S^T L on the SNF path) repaired by a fix: commit.",
    technique="deductive verification: symbolic execution of the Python source with abstracted per-atom data + exact identities",
    design="DESIGN.md section 5 C04"),
 "C07": dict(
    text="c/phonopy.c symmetrisers under contract: set_index_permutation_symmetry_fc (result (f+f^T)/2, index symmetric), set_translational_symmetry_fc and its compact "
         "variant (diagonal block = -(S+S^T)/2 of the off-diagonal row sums, pointer stepping handled by an index-defining invariant), the column/row drift sweeps of "
         "phpy_perm_trans_symmetrize_fc, and one (j,i_p) step of the compact index-permutation/transpose routine (blocks exchanged and transposed resp. averaged, "
         "including blocks paired with themselves); get_nsym_list_and_s2pp (Python, symbolic-length arrays) establishes the translation tables the C code takes as given. Python glue: compact_fc_to_full_fc hands the (proved, accumulating) distribution kernel a numpy.zeros buffer whose only earlier write is the representative rows and returns it; full_fc_to_compact_fc returns full_fc[p2s_map]; distribute_force_constants_by_translations forwards p2s_map / pure-translation permutations; Phonopy.symmetrize_force_constants_by_space_group passes the transposed (column-vector) cell, and set_tensor_symmetry_PJ conjugates with R^T where R L == L r exactly, paired with its inverse.",
    note=TRUST + "Not yet decided: idempotence of the iterated level loop beyond the per-sweep contracts, the compact perm+trans driver, set_tensor_symmetry_PJ, "
         "the averaging and atom mapping of set_tensor_symmetry_PJ. numpy np.where / zeros / empty contracts assumed. Finding E2 (self-paired blocks not transposed) repaired by a fix: commit.",
    technique="deductive verification: loop invariants with quantified array facts and recursive-sum spec functions, z3; replay on the compiled code",
    design="DESIGN.md section 5 C07"),
 "C12": dict(
    text="c/derivative_dynmat.c: get_derivative_dynmat_at_q under a functional contract: every 3x3 block of the three Cartesian derivative matrices equals the q-derivative of the C02 Fourier-sum spec (mechanical differentiation of the summand, loop invariants over atoms and images), and the Hermitian post-processing of ddm_get_derivative_dynmat_at_q makes every direction Hermitian (all rows, loop invariants over the pair loops); Wang-NAC derivative helpers: get_dA == d/dq get_A and get_dC == d/dq get_C (exact identities). Python: GruneisenBase._set_gruneisen re-orders eigenvalues, eigenvector columns and <e|dD|e> by the same band order. GruneisenBase: default strain == (V+ - V-)/V0 with V0 the central volume, _get_dD == D_b - D_a at the given q, requested as (minus, plus).",
    note=TRUST + "NOT decided: first-order perturbation theory (Hellmann-Feynman) linking dD/dq to group velocities (cited), degeneracy handling, the finite-difference group-velocity path, Grueneisen prefactors. Finding E9 (directions 1,2 not Hermitian) repaired by a fix: commit.",
    technique="deductive verification: loop invariants, z3; replay on the compiled code",
    design="DESIGN.md section 5 C12"),
 "C14": dict(
    text="Python access paths by symbolic execution: IterMesh.__next__ definite assignment on every path and the frequency expression sqrt|e| sign(e) factor; Phonopy.init_mesh constructs Mesh and IterMesh from equal values of every common parameter (mesh as numbers and as length) and hands both the primitive cell's point-group operations; QpointsPhonon._run buffer ownership (arrays collected for output are not overwritten in place, for both values of use_openmp and all option combinations); BandStructure._solve_dm_on_path with band connection re-orders eigenvalues, eigenvector columns and group velocities by the same band order. GroupVelocity.run history independence: from an entry state with arbitrary _directions[0] / _perturbation, the state seen by _calculate_group_velocity_at_q is a function of this call's arguments only (syntactic independence + default direction (1,2,3)/sqrt(14)); q-point layout obligation of run_dynamical_matrix_solver_c. Mesh.__iter__ / IterMesh.__iter__ start at q-point 0 from any counter value (finding E19, repaired by a fix: commit).",
    note=TRUST + "numpy arrays are abstracted with a buffer-ownership model (views share buffers; conservative). Loops over abstracted sequences are executed as one generic iteration. NOT decided: numerical equality of the spectra across paths (reduces to C02), yaml/hdf5 output. Findings E1, E12, E14 repaired by fix: commits.",
    technique="deductive verification: symbolic execution of the Python source with an abstract buffer-ownership model",
    design="DESIGN.md section 5 C14"),

 "C06": dict(
    text="The compiled inverse transform under contract: transform_dynmat_to_fc_ij (loop invariants over the commensurate points and the shortest-vector images) and "
         "dym_transform_dynmat_to_fc (fill schema + both loop forms): fc[fc_index_map[i], j, a, b] equals the spec sum (sqrt(m_i m_j')/N) sum_k Re(dm_k[i a, j' b] "
         "* mean_l exp(-2 pi i q_k . s_l)) for every i, j, a, b; untouched rows keep their values; all subscripts in bounds.",
    note=TRUST + "Not decided by this check: the commensurate-point set (|det S| points, distinct, S^T q integral) from the Smith normal form, the Python fallback, "
         "the forward/inverse round-trip lemma (finite geometric sum), Phonopy.ph2ph plumbing.",
    technique="deductive verification: modular contracts + loop invariants over recursive-sum spec functions, z3",
    design="DESIGN.md section 5 C06"),
 "C01": dict(
    text="Symmetry-expansion kernel of the finite-displacement solver: distribute_fc2 (c/phonopy.c) is symbolically executed from clang's AST on every run; with a ghost map of the rows already filled, the postcondition is that every row i whose representative differs from i holds R^T Phi[rep, perm(j)] R for every j (the rotated copy of the representative row) and that rows of representative atoms and everything outside the target rows are unchanged (frame); all subscripts in range; all sizes, permutations and rotation matrices symbolic. Displacement-direction search (phonopy/harmonic/displacement.py): on every returning path of _get_displacement_one / _get_displacement_two the returned direction(s) together with the site-symmetry images R_i d (x' = R x) the solver will use have a non-zero determinant, for generic integer operations and directions. phpy_compute_permutation (atom matching under a symmetry operation): every assigned rot_atom[j] is within symprec of pos (periodic distance with the code's nint), no atom is assigned twice, the return value is 1 exactly when every j is assigned, and the `while (rot_atom[search_start] >= 0)` scan stays in bounds by a counting argument (three induction lemmas over arrays).",
    note=TRUST + "NOT decided: the least-squares solve of the first-atom rows (numpy.linalg.pinv and its cutoff), get_least_displacements bookkeeping, is_minus_displacement. The direction search is executed for two generic operations and two generic directions (the functions treat list elements uniformly and return right behind the guard).",
    technique="deductive verification: modular contract with ghost state + loop invariants, z3",
    design="DESIGN.md section 5 C01"),
 "C15": dict(
    text="Class invariant of Phonopy (phonopy/api_phonopy.py) over its public state-changing methods: the bodies of force_constants/nac_params/masses setters, "
         "set_force_constants_zero_with_radius, symmetrize_force_constants, symmetrize_force_constants_by_space_group, produce_force_constants and "
         "_set_dynamical_matrix are symbolically executed from the current source for every start state (dynamical matrix present or not, group velocity present "
         "or not, NAC present or not, is_symmetry symbolic); on every returning path the cached dynamical-matrix object holds the current force-constant content, "
         "was built from the current NAC parameters, was not edited in place after a NAC build (cached short-range part) and refers to the current cells, and the "
         "cached group-velocity object refers to the current dynamical-matrix object. Content identity is tracked by ghost tokens (buffer origin + in-place writes). "
         "A failed invariant is replayed by running the real method on a real Phonopy object with stand-in collaborators.",
    note=TRUST + "Collaborators (get_dynamical_matrix, GroupVelocity, cutoff/symmetrize functions) enter by the contracts stated in contracts/py_phonopy.py, not verified. "
         "NOT decided: caller-array ownership, dataset setter / displaced supercells, copy() independence, result objects (mesh, band structure) computed before a change, "
         "DynamicalMatrixGL internals.",
    technique="deductive verification: class invariant by symbolic execution of each method with ghost content tokens; path enumeration",
    design="DESIGN.md section 5 C15"),
 "C05": dict(
    text="Shortest-vector kernels phpy_set_smallest_vectors_dense / _sparse (c/phonopy.c) under contract with loop invariants: with a ghost arg-min function "
         "(a minimum of a finite non-empty set exists) the code's running minimum is proved to be the minimum image length, the multiplicity is the number of "
         "lattice images within symprec of it (recursive counting sum), the address is the sum of the multiplicities of the earlier pairs, and the fill pass "
         "stores the image of every tying lattice point, in order, at address + rank, leaving every other row and the multiplicities untouched; since the rank "
         "is strictly increasing on the ties (induction lemma) each window holds every tying image exactly once and nothing else. Sparse kernel: the same with "
         "27 slots per pair, plus a memory-safety instance without any bound on the number of ties. Python glue (ShortestPairs._run_dense/_run_sparse, "
         "Primitive._get_smallest_vectors; 3x3 numpy mini-model, exact rational identities): the arguments handed to the kernels are the 65 lattice points, "
         "positions wrapped into [-1/2,1/2]^3, a metric matrix and a back-transformation that agree (the length minimised is the Cartesian length of the stored "
         "vector), stored vector minus separation is an integer lattice combination, and the change to primitive coordinates keeps the Cartesian vector.",
    note=TRUST + "NOT decided: that the 65 lattice points suffice for a Niggli-reduced basis (geometric lemma, unproven also in the source), spglib's Niggli reduction, "
         "sparse_to_dense_svecs / dense_to_sparse_svecs. A-RINT: a 3x3 float matrix the code asserts to be within 1e-8 of its rounding is taken equal to it. sqrt is "
         "uninterpreted (only equality of lengths computed from equal arguments is used). Finding E15 (sparse kernel wrote past its 27 slots) repaired by a fix: commit.",
    technique="deductive verification: loop invariants over recursive counting sums with ghost arg-min, induction lemmas, z3 (E-matching) + sympy identities",
    design="DESIGN.md section 5 C05"),
 "C09": dict(
    text="Call-site preconditions of the (assumed) contract of spglib's mesh reduction, decided by symbolic execution of the real callers: "
         "GridPoints.__init__ hands spglib the caller's direct-space rotations unchanged (or the identity alone when mesh symmetry is off) and uses "
         "time reversal only for zero/half shifts, for which q -> -q maps the shifted grid onto itself; GridPoints._shift2boolean returns None exactly for "
         "shifts that are neither zero nor half; MeshBase.__init__ hands GridPoints the rotations it was given and the reciprocal basis as columns "
         "(cell . reciprocal == 1, exact identity); Phonopy.init_mesh gives Mesh and IterMesh the primitive cell's point-group operations and identical common "
         "arguments. extract_ir_grid_points: histogram schema (syntactic) + lemma by three inductions: the weights of the distinct values of any mapping table sum to "
         "the number of grid points (every grid point counted exactly once). BrillouinZone coordinate changes keep the Cartesian q-point. The weighted sum over "
         "irreducible points itself is the C10 kernel contract (phpy_get_thermal_properties: sum_i w_i sum_k g(T, f_ik)).",
    note=TRUST + "spglib.get_stabilized_reciprocal_mesh is assumed to satisfy its documented contract (not verified). NOT decided: symmetry invariance of the summands (C03), generalised regular grids, "
         "relocate_BZ_grid_address. Finding E17 (time reversal applied to arbitrarily shifted meshes) repaired by a fix: commit.",
    technique="deductive verification: call-site preconditions by symbolic execution of the Python callers (provenance of abstracted arrays, exact 3x3 identities)",
    design="DESIGN.md section 5 C09"),
 "C03": dict(
    text="Hermiticity: make_Hermitian and dym_get_dynamical_matrix_at_q (c/dynmat.c) under contract, output == herm(Dspec) and D[x][y] == conj D[y][x] for "
         "every input (both OpenMP branches). Lemmas over the spec function Dspec the kernel is proved equal to, each by induction over its recursive sums "
         "(base and step discharged by z3): time reversal (q -> -q gives Tre' = Tre, Tim' = -Tim, i.e. D(-q) = conj D(q), from trig parity only) and scaling "
         "(force constants times s and masses times t give D' = (s/t) D; sqrt(t m_i t m_j) = t sqrt(m_i m_j)). Python: get_pointgroup_operations returns, for "
         "any list of direct-space operations, their transposes and -transposes exactly when time reversal adds -1; Primitive._get_smallest_vectors keeps the "
         "Cartesian vector when changing to primitive coordinates (exact rational identity), which is what makes the phase change by 2 pi x integer under q+G.",
    note=TRUST + "NOT decided: invariance of the spectrum under q -> q+G and q -> Rq (needs angle addition and unitary similarity of spectra), the three zero "
         "eigenvalues at Gamma (eigenvalue reasoning), LAPACK. The induction principle is trusted; cos/sin are uninterpreted with parity axioms.",
    technique="deductive verification: kernel contracts + relational induction lemmas over the recursive-sum spec functions (z3), exact identities (sympy)",
    design="DESIGN.md section 5 C03"),
 "C08": dict(
    text="Wang method: dym_get_charge_sum, get_q_cart, get_dielectric_part and get_dynmat_want (c/dynmat.c) under contract: the term added to every "
         "force-constant element is (n.Z_i)_a (n.Z_j)_b nac_factor / (N n.eps.n) with n the Cartesian q or, at the zone centre, the given direction, and the "
         "result is herm(Dspec + term) (three branches incl. Gamma without direction = uncorrected). Lemmas over that contract: the term is homogeneous of "
         "degree 0 in n (exact identity, sympy), vanishes for zero Born charges, and at q = 0 enters the Fourier sum as (number of images of j) x term with "
         "zero imaginary part (two inductions over the recursive sums; cos 0 = 1, sin 0 = 0). Gonze-Lee: multiply_borns_at_ij / multiply_borns contract "
         "dd[i,a,j,b] += sum_{m,n} Z_i[m][a] dd_in[i,m,j,n] Z_j[n][b] with frame, both OpenMP branches, race freedom and bounds with the callee inlined; the "
         "reciprocal-space sum get_dd / get_dd_at_g: KK[g] is K K^T/(K.eps.K) exp(-K.eps.K/4 lambda^2) for |K| >= tolerance, the direction term (or zero) "
         "below it, race free under its omp pragma, and dd_part[i,a,j,b] += sum_g KK[g][a][b] e^{2 pi i (x_i - x_j).G_g} with frame. "
         "Python: DynamicalMatrixNAC.nac_factor after setting NAC parameters is the new factor x 4 pi / volume for an object in any prior state; "
         "the Cartesian q handed to the Gonze-Lee kernel is rec_lat.q; BrillouinZone coordinate changes keep the Cartesian q-point (exact identities).",
    note=TRUST + "NOT decided: vanishing of the image phase sum at non-zero commensurate q (finite geometric sum; makes the Wang term a no-op there), the convergence / "
         "stated precision of the Gonze-Lee sums and the real-space part, dym_get_recip_dipole_dipole driver, symmetrize_borns_and_epsilon, the Q_DIRECTION_TOLERANCE switch of DynamicalMatrixNAC.run.",
    technique="deductive verification: kernel contracts (z3), exact rational identities (sympy), induction lemmas over recursive sums",
    design="DESIGN.md section 5 C08"),
 "C19": dict(
    text="Scalar core and matrix conventions of the thermal / random displacement code, by symbolic execution of the Python bodies over symbolic unit "
         "constants and exact identities (sympy): ThermalMotion._get_population equals the Bose-Einstein occupation for every T > 0 (0 at T = 0), _get_Q2 equals "
         "hbar (2n+1)/(2 omega) in kg A^2, bose_einstein_dist equals the occupation, RandomDisplacements._get_sigma squared equals <Q^2>/AMU (quantum) and "
         "k_B T/omega^2 (classical) above the cutoff with the unit conversions assigned in __init__, ThermalDisplacementMatrices stores (A diag|a*|)^-1 with "
         "a* the rows of A^-1 (CIF convention), and RandomDisplacements.__init__ hands get_commensurate_points_in_integers the supercell matrix S with "
         "A_p S = A_s in that function's column convention.",
    note=TRUST + "NOT decided: the covariance of the vectorised sampler (_solve_ii/_solve_ij, sqrt(2) conjugate-pair factor, 1/sqrt(mN)), positive "
         "semi-definiteness and symmetry of the displacement matrices, run_correlation_matrix / run_d2f round trip (its C kernel is under contract in C06), "
         "the classical limit (cited). Finding E18 (population dropped below 1 K) repaired by a fix: commit.",
    technique="deductive verification: symbolic execution of scalar Python code + exact algebraic identities (sympy); 3x3 numpy mini-model",
    design="DESIGN.md section 5 C19"),
}

NA = {
 "C16": "round trip through text serialisers and external parsers (PyYAML, h5py, %-formatting); no contract within reach can express float printing/parsing",
 "C18": "whole-process file/CLI equivalence across an option table; outside per-function contracts",
}
PENDING = "check not built yet in this round (planned in DESIGN.md section 5); not claimed until its obligations are discharged"


def main():
    props = [json.loads(l)["id"] for l in open(os.path.join(HERE, "properties.jsonl"))]
    checks = []
    for pid in props:
        if pid in CLAIMED:
            c = CLAIMED[pid]
            checks.append({
                "property_id": pid,
                "quick_cmd": "./check %s --tier quick" % pid,
                "thorough_cmd": "./check %s --tier thorough" % pid,
                "evidence_file": "evidence/%s.json" % pid,
                "engine": "pvc",
                "level_claimed": {"category": "proof", "text": c["text"], "design_ref": c["design"]},
                "level_note": c["note"],
                "technique": c["technique"],
            })
    na = [{"property_id": p, "reason": NA.get(p, PENDING)} for p in props if p not in CLAIMED]
    m = {
        "version": 1,
        "setup_cmd": "true",
        "hooks": {"guard": "PHONOPY_VERIF", "enable": "no source hooks: contracts are sidecar files under /verif/contracts; every check re-extracts /repo's working tree (clang AST / Python ast) on each run",
                  "baseline_off_cmd": "cd /repo && /venv/bin/python -m pytest -ra -q -p no:cacheprovider --timeout=900 --continue-on-collection-errors",
                  "source_commits": [], "add_only": True},
        "engines": [{"name": "pvc", "path": "pvc/", "serves_properties": sorted(CLAIMED),
                     "kind_free_text": "own VC generator (symbolic execution with contracts, loop invariants, modular calls) over clang's JSON AST and Python's ast; back ends z3, cvc5, sympy; replay on the real code through ctypes / the repository's interpreter"}],
        "checks": checks,
        "notes": "Exit codes of ./check: 0 held, 1 VIOLATION, 2 undecided obligation (never reported as violation), 3 checker error. See DESIGN.md.",
        "not_applicable": na,
    }
    with open(os.path.join(HERE, "MANIFEST.json"), "w") as f:
        json.dump(m, f, indent=1)
    try:
        import jsonschema
        jsonschema.validate(m, json.load(open("/root/.vp/MANIFEST.schema.json")))
        print("MANIFEST valid:", len(checks), "checks,", len(na), "not applicable")
    except ImportError:
        print("written (jsonschema not available)")


if __name__ == "__main__":
    main()
