#!/usr/bin/env python3
"""Regenerates MANIFEST.json from the table below (kept in one place so it stays valid)."""
import json
import os

HERE = os.path.dirname(os.path.dirname(os.path.abspath(__file__)))
TRUST = ("Trusted base: the pvc VC generator itself (/verif/pvc), clang's JSON AST dump and Python's ast, z3 5.1 / cvc5 1.0 / sympy 1.14; "
         "doubles are treated as mathematical reals and int/int64_t as mathematical integers (A-REAL, A-INT); libm functions are uninterpreted "
         "with the listed axioms; numpy/LAPACK/spglib/scipy and the nanobind glue c/_phonopy.cpp are specified, not verified. ")

CLAIMED = {
 "C11": dict(
    text="Contract-based deductive verification of the real tetrahedron code: the 2x(5+3x4) region functions of c/tetrahedron_method.c are symbolically "
         "executed from clang's AST on every run; sum rules, dn/dw=g, d(Jn)/dw=Ig and continuity across region boundaries are exact polynomial identities "
         "(sympy), non-negativity / [0,1] / J*n<=1/4 are positivity certificates over a gap re-parametrisation, sort_omegas is a sorted permutation with the "
         "central-vertex index (32 paths), thm_get_integration_weight is proved in [0,1] (J) / >=0 (I) and exact above/below the spectrum by a loop invariant "
         "over the 24 tetrahedra with callees by contract; the Python TetrahedronMethod region methods and its if/elif ladder are proved equal to the C ones. "
         "All for every real omega and vertex frequencies, no bound.",
    note=TRUST + "Monotonicity uses the cited mean-value argument (derivative sign + continuity are the decided parts). Known finding E4 (ladder drops a "
         "tetrahedron at omega == vertex value) is reported as KNOWN-FINDING. Not decided here: smearing DOS quadrature accuracy, projected-DOS eigenvector normalisation.",
    technique="deductive verification: symbolic-execution VC generation over clang/ast + z3/cvc5/sympy",
    design="DESIGN.md section 5 C11"),
 "C10": dict(
    text="get_free_energy/get_entropy/get_heat_capacity (c/phonopy.c) and mode_F/mode_S/mode_cv/mode_ZPE/mode_zero (thermal_properties.py) are symbolically "
         "executed from the current source; obligations: compiled == Python (modulo the documented zero-point term), both == the documented closed forms, "
         "S = -dF/dT and C_V = T dS/dT by mechanical differentiation of the extracted terms, C_V >= 0, the reduction of C_V <= k_B to sinh(y) >= y, the KB constant "
         "against units.Kb, finiteness of every result in an IEEE special-value model (exp/sinh/cosh overflow, inf*0, inf/inf), and the mesh kernel "
         "phpy_get_thermal_properties against the weighted double sum over q-points and bands above the cutoff (six nested loops with quantified invariants, "
         "frame, bounds), for all array sizes and contents.",
    note=TRUST + "Rounding error is ignored (the special-value model covers overflow/underflow and NaN generation only). AX-SINH / AX-TANH and the T->0, T->infinity "
         "limits are cited, not decided. Finding E5 (NaN at low temperature) was repaired in /repo (fix: commit) and is checked unrestricted.",
    technique="deductive verification: symbolic-execution VC generation with loop invariants + z3/sympy; special-value model for finiteness",
    design="DESIGN.md section 5 C10"),
}

NA = {
 "C16": "round trip through text serialisers and external parsers (PyYAML, h5py, %-formatting); no contract within reach can express float printing/parsing",
 "C18": "whole-process file/CLI equivalence across an option table; outside per-function contracts",
}
PENDING = "check not built yet in this round (planned in DESIGN.md section 5); not claimed until its obligations are discharged"


def main():
    props = [json.loads(l)["id"] for l in open(os.path.join(HERE, "properties.jsonl"))]
    checks = []
    for pid in props:
        if pid in CLAIMED:
            c = CLAIMED[pid]
            checks.append({
                "property_id": pid,
                "quick_cmd": "./check %s --tier quick" % pid,
                "thorough_cmd": "./check %s --tier thorough" % pid,
                "evidence_file": "evidence/%s.json" % pid,
                "engine": "pvc",
                "level_claimed": {"category": "proof", "text": c["text"], "design_ref": c["design"]},
                "level_note": c["note"],
                "technique": c["technique"],
            })
    na = [{"property_id": p, "reason": NA.get(p, PENDING)} for p in props if p not in CLAIMED]
    m = {
        "version": 1,
        "setup_cmd": "true",
        "hooks": {"guard": "PHONOPY_VERIF", "enable": "no source hooks: contracts are sidecar files under /verif/contracts; every check re-extracts /repo's working tree (clang AST / Python ast) on each run",
                  "baseline_off_cmd": "cd /repo && /venv/bin/python -m pytest -ra -q -p no:cacheprovider --timeout=900 --continue-on-collection-errors",
                  "source_commits": [], "add_only": True},
        "engines": [{"name": "pvc", "path": "pvc/", "serves_properties": sorted(CLAIMED),
                     "kind_free_text": "own VC generator (symbolic execution with contracts, loop invariants, modular calls) over clang's JSON AST and Python's ast; back ends z3, cvc5, sympy; replay on the real code through ctypes / the repository's interpreter"}],
        "checks": checks,
        "notes": "Exit codes of ./check: 0 held, 1 VIOLATION, 2 undecided obligation (never reported as violation), 3 checker error. See DESIGN.md.",
        "not_applicable": na,
    }
    with open(os.path.join(HERE, "MANIFEST.json"), "w") as f:
        json.dump(m, f, indent=1)
    try:
        import jsonschema
        jsonschema.validate(m, json.load(open("/root/.vp/MANIFEST.schema.json")))
        print("MANIFEST valid:", len(checks), "checks,", len(na), "not applicable")
    except ImportError:
        print("written (jsonschema not available)")


if __name__ == "__main__":
    main()
