#!/bin/sh
# runs the pinned baseline (guard off) and reports whether all 81 stable tests pass
cd /repo && /venv/bin/python -m pytest -ra -q -p no:cacheprovider --timeout=900 --continue-on-collection-errors --junitxml=/tmp/pvc-baseline.xml >/tmp/pvc-baseline.log 2>&1
python3 - <<'PY'
import json, xml.etree.ElementTree as ET
base=set(json.load(open('/root/.vp/BASELINE.json'))['stable_pass'])
t=ET.parse('/tmp/pvc-baseline.xml')
ok=set()
for tc in t.iter('testcase'):
    if not any(c.tag in('failure','error','skipped') for c in tc):
        ok.add(tc.get('classname')+'::'+tc.get('name'))
missing=sorted(base-ok)
print('baseline: %d/%d stable tests pass' % (len(base&ok), len(base)))
for m in missing: print('  MISSING', m)
PY
rm -f /tmp/pvc-baseline.xml /tmp/pvc-baseline.log
